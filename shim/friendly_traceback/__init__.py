# Stand-in for the `friendly_traceback` package, which /venv lacks. gencode.make_module ->
# codebuilder.save_to_linecache imports `friendly_traceback.source_cache` unconditionally; without
# it no Engine can be created. Only `source_cache.cache.add` is provided. `friendly_traceback.core`
# is deliberately absent so friendly_errors.friendly_message degrades to "" as the code intends.
