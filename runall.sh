#!/bin/sh
# Run every registered quick (or thorough) check once: ./runall.sh [quick|thorough] ; VERIF_SEED honoured.
tier=${1:-quick}
cd "$(dirname "$0")"
python3 - "$tier" <<'PY'
import json, subprocess, sys, time
tier = sys.argv[1]
m = json.load(open("MANIFEST.json"))
bad = 0
for c in m["checks"]:
  cmd = c["quick_cmd"] if tier == "quick" else c.get("thorough_cmd", c["quick_cmd"])
  t0 = time.time()
  p = subprocess.run(cmd, shell=True, stdout=subprocess.PIPE, stderr=subprocess.STDOUT, text=True)
  lines = [l for l in p.stdout.splitlines() if l.startswith(("VIOLATION", "KNOWN-FINDING", "MACHINERY"))]
  print("%s rc=%d %.0fs %s" % (c["property_id"], p.returncode, time.time() - t0, " | ".join(l[:160] for l in lines[:4])), flush=True)
  bad += p.returncode != 0
sys.exit(1 if bad else 0)
PY
