"""C06 - formula results do not depend on evaluation order (Recalc.tla + Trace_RecalcFinal.tla)."""
from checks import _recalc

LEVEL = "model_checking"


def run(ctx):
  return _recalc.run(ctx, ("C06.",))


def replay(ctx, data):
  return _recalc.replay(ctx, data, ("C06.",))
