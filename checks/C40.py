"""C40 - predicate formula parse trees are faithful (Predicate.tla)."""
import json
import os

import fnspec

LEVEL = "model_checking"
tlc = fnspec.tlc

# kinds of Python ast nodes the specification treats as the supported subset (= Predicate!TranslatedKinds);
# used only by the matchers below to name the offending construct, never to judge.
_TRANSLATED = {
  "Expression", "Load", "BoolOp", "And", "Or", "UnaryOp", "Not", "BinOp", "Add", "Sub", "Mult", "Div", "Mod",
  "Compare", "Eq", "NotEq", "Lt", "LtE", "Gt", "GtE", "Is", "IsNot", "In", "NotIn", "Name", "Attribute",
  "Constant", "Constant:int", "Constant:float", "Constant:str", "Constant:bool", "Constant:NoneType",
  "List", "Call", "keyword", "Tuple"}


def _offending(v):
  inp = v["case"]["inp"]
  return set(inp["kinds"]) - _TRANSLATED if inp["pyok"] else {"NotPython"}


def _returned_tree(v):
  return v.get("clause") == "C40.unsupported" and v["case"]["out"]["exc"] == ""


MATCHERS = {
  # b'..', 1j and ... literals come back as ["Const", <bytes|complex|Ellipsis>] (not JSON) instead of SyntaxError
  "c40_nonjson_constant": lambda v: _returned_tree(v) and bool(_offending(v)) and
                          _offending(v) <= {"Constant:bytes", "Constant:complex", "Constant:ellipsis"},
  # f(**d) comes back as ["Call", f, ["keywords", [None, d]]] instead of SyntaxError
  "c40_doublestar_keyword": lambda v: _returned_tree(v) and _offending(v) == {"keyword:**"},
}

N_RANDOM = {"quick": 6000, "thorough": 80000}


def _items(ctx):
  cfg = "MC_Predicate_%s.cfg" % ctx.tier
  space, model = fnspec.enumerate_inputs("MC_Predicate", cfg, ctx.workdir)
  envs = os.path.join(ctx.workdir, "std-envs.json")
  json.dump(space["envs"], open(envs, "w"))
  styles = space["styles"]
  items = [{"expr": e, "style": s} for e in space["wide"] for s in styles]
  items += [{"expr": e, "style": styles[k % len(styles)]} for k, e in enumerate(space["narrow"])]
  items += [{"expr": e, "style": "min"} for e in space["unsup"]]
  return space, model, envs, items, cfg


def _what(case):
  inp, out = case["inp"], case["out"]
  off = _short(inp)
  return "parse_predicate_formula(%r) -> %s; %s" % (
    inp["text"], out["exc"] or json.dumps(out["tree"])[:160],
    ("outside the subset: " + ",".join(off)) if off else ("python eval per env: " + json.dumps(case["py"])[:120]))


def _short(inp):
  return sorted(set(inp["kinds"]) - _TRANSLATED) if inp["pyok"] else ["<not Python>"]


def _split(failures):
  viol, notes = [], 0
  for f in failures:
    for c in f["c"]:
      if c.startswith("SPEC."):
        raise tlc.MachineryError("%s: the specification / renderer disagrees with Python on %s"
                                 % (c, json.dumps(f["case"])[:1500]))
      if c.startswith("NOTE."):
        notes += 1
      else:
        viol.append({"clause": c, "what": _what(f["case"]), "case": f["case"]})
  return viol, notes


def run(ctx):
  space, model, envs, items, cfg = _items(ctx)
  ctx.log("TLC enumerated %d + %d expressions + %d out-of-subset (%d distinct states) in %.1fs"
          % (len(space["wide"]), len(space["narrow"]), len(space["unsup"]), model["distinct"], model["wall"]))
  extra = {"envs": envs}
  files = fnspec.run_cases("fn_predicate.py", items, ctx.workdir, extra=extra,
                           nshards=8 if ctx.quick else 32)
  nrand = N_RANDOM[ctx.tier]
  per = 500
  rand_items = [{"rand": ctx.seed * 1000003 + k, "n": per} for k in range(nrand // per)]
  rfiles = fnspec.run_cases("fn_predicate.py", rand_items, ctx.workdir, extra=extra, tag="rand",
                            nshards=2 if ctx.quick else 8)
  failures, n, wall = fnspec.judge("Trace_Predicate", files + rfiles, ctx.workdir)
  ctx.log("TLC judged %d recorded runs in %.1fs" % (n, wall))

  # binding self-tests: corrupted recordings must be rejected by the trace specification
  def wrong_tree(case):
    case["out"]["tree"] = ["Const", ["int", 7]]
    return case

  def swallowed(case):
    case["inp"]["kinds"] = case["inp"]["kinds"] + ["Lambda"]
    return case
  for mut in (wrong_tree, swallowed):
    if not fnspec.mutation_selftest("Trace_Predicate", files[0], mut, ctx.workdir):
      raise tlc.MachineryError("self-test: corrupted case (%s) was accepted by Trace_Predicate" % mut.__name__)

  viol, notes = _split(failures)
  # measured coverage facts
  stats = {"in_subset": 0, "out_of_subset": 0, "not_python": 0, "generated": 0, "mutated": 0, "with_comment": 0,
           "python_raised_somewhere": 0, "tuple_texts": 0}
  samples = []
  for f in files + rfiles:
    cases = json.load(open(f))
    for c in cases:
      inp = c["inp"]
      off = _offending({"case": c})
      stats["not_python"] += 0 if inp["pyok"] else 1
      stats["out_of_subset" if off else "in_subset"] += 1
      stats["generated"] += 1 if inp["envs"] else 0
      stats["mutated"] += 1 if inp["style"] == "mutated" else 0
      stats["with_comment"] += 1 if inp["hascmt"] else 0
      stats["tuple_texts"] += 1 if "Tuple" in inp["kinds"] else 0
      stats["python_raised_somewhere"] += 1 if (not off and ["err", 0] in c["py"]) else 0
    if len(samples) < 4 and cases:
      c = cases[len(cases) // 2]
      samples.append({"text": c["inp"]["text"], "tree": c["out"]["tree"], "exc": c["out"]["exc"], "py": c["py"][:3]})
  stats["trees_differing_from_abstract_expression"] = notes
  return {
    "states": model["distinct"] + n, "transitions": model["generated"] + n,
    "traces_validated_against_impl": n,
    "evaluations": n, "distinct_nontrivial": stats["in_subset"],
    "rule": "TLC enumerates every abstract expression within the bound of %s (the wide family rendered in 3 styles, "
            "the narrow family in one style each) and every "
            "out-of-subset construct in 9 contexts; %d further texts are generated from seed %d (deeper expressions, "
            "random environments, inserted out-of-subset constructs, token mutations); non-trivial = text in the "
            "supported subset, i.e. parsed, JSON-checked and evaluated by the node semantics in every environment"
            % (cfg, nrand, ctx.seed),
    "samples": samples,
    "exhaustive": True,
    "assumptions": ["TLC", "Python's own ast/eval as the ground truth the property names",
                    "harness/fn_predicate.py renders an abstract expression as text (checked: Python's ast of the "
                    "text contains the rendered node kinds; Eval of the abstract expression = Python's result)",
                    "tuple displays are translated to List as documented; no semantic claim judged for them"],
    "violations": viol,
    "extra": stats,
  }


def replay(ctx, data):
  # the standard environments come from the design model
  space, _ = fnspec.enumerate_inputs("MC_Predicate", "MC_Predicate_replay.cfg", ctx.workdir)
  envs = os.path.join(ctx.workdir, "std-envs.json")
  json.dump(space["envs"], open(envs, "w"))
  files = fnspec.run_cases("fn_predicate.py", [data["case"]["inp"]], ctx.workdir, extra={"envs": envs})
  failures, n, _ = fnspec.judge("Trace_Predicate", files, ctx.workdir)
  viol, _notes = _split(failures)
  return {"violations": viol}
