"""C18 - circular references terminate and are reported on the cycle (Recalc.tla + Trace_RecalcFinal.tla)."""
from checks import _recalc

LEVEL = "model_checking"


def run(ctx):
  return _recalc.run(ctx, ("C18.", "C06.value"))


def replay(ctx, data):
  return _recalc.replay(ctx, data, ("C18.", "C06.value"))
