"""C34 - time zone conversions round-trip (TzIndex.tla).

S->C (model checking): TLC enumerates every synthetic zone of the bounded design model MC_TzIndex
(quick: <= 2 transitions at any hours of a 12-hour window around a UTC midnight; thorough: <= 3, plus <= 2 in
a 20-hour window; offsets +-1..2 h, gaps, overlaps, abbreviation-only changes, transitions at the window
edges; plus zones crossing the date line); the worker installs each one into moment's zone table and runs
the real ts_to_dt / dt_to_ts / date_to_ts on every instant, every local time x favoured offset and every
date of the window; TLC judges every result with TzIndex!Fails.  Seeded random zones beyond the bound
(<= 5 transitions in 48 hours, offsets -14..+12 h) go through the same judge.
C->S (exploration): the bundled zones (a seeded sample in quick, all in thorough): every transition x
{-1 h, -1 s, 0, +1 s, +1 h}, the edges of the skipped / repeated local times, the dates around, and random
instants / local times / dates of the supported range, logged as opaque tokens together with the
offsets the raw record lists around the instant; TLC checks token equality and membership.
Every bundled record is also checked (by TLC) to lie in the class of zones the design model covers.
"""
import json
import os
import random

import corpus
import fnspec

tlc = fnspec.tlc

LEVEL = "model_checking"
MC = "MC_TzIndex"
SPEC = "Trace_TzIndex"
WORKER = "fn_tzindex.py"
BASE = "2015-03-14"
PAR = max(1, int(os.environ.get("VERIF_WORKERS", "16") or 16))     # processes / TLC workers at a time


# ---------------------------------------------------------------------------------------------
# Known defect of the unchanged tree: moment.date_to_ts(date, zone) subtracts the offset in force at the
# UTC midnight of the date instead of the offset in force at the zone's own midnight.  The two differ
# when a transition lies between the UTC midnight and the returned instant; the result is then 23:00
# of the previous day (date changes) or 01:00 (not the midnight).
def _date_offset_read_at_utc_midnight(v):
  """clause C34.date on a date probe whose result is exactly UTC midnight + the offset in force at
  the UTC midnight, while a different offset is in force at the returned instant."""
  if v.get("clause") != "C34.date":
    return False
  case = v["case"]
  p = case["probe"]
  e = p["e"]
  if p["k"] != "dt" or e["exc"]:
    return False
  if case["k"] == "syn":
    return e["t"] == 24 * e["d"] + e["um"] and e["at"] != e["um"]
  return e["off"] == e["um"] and e["at"] != e["um"] and e["u"] == e["d"]


MATCHERS = {"date_offset_read_at_utc_midnight": _date_offset_read_at_utc_midnight}


# ---------------------------------------------------------------------------------------------
# Random synthetic zones beyond the bound of the design model (up to 5 transitions in a 48-hour window,
# offsets -14..+12 h as in the bundled data, 24 h jumps across the date line).  Only inputs are made here;
# the judge checks TzIndex!WellFormed on them and everything else.
def random_zones(seed, count):
  rng = random.Random("C34-syn-%d" % seed)
  out = []
  while len(out) < count:
    n = rng.choice((1, 2, 2, 3, 3, 4, 5))
    u = sorted(rng.sample(range(-24, 25), n))
    o = [rng.choice((-14, -13, -12, 10, 11, 12)) if rng.random() < 0.15 else rng.randrange(-14, 13)]
    for _ in range(n):
      r = rng.random()
      step = rng.choice((-3, -2, -1, -1, -1, 0, 1, 1, 1, 2, 3))
      if r < 0.08:
        step = -24 if o[-1] >= 10 else 24 if o[-1] <= -12 else step
      o.append(o[-1] + step)
    if any(x < -14 or x > 12 for x in o):
      continue
    jumps = [abs(o[k + 1] - o[k]) for k in range(n)]
    if all(u[k + 1] - u[k] > jumps[k] + jumps[k + 1] for k in range(n - 1)):
      out.append({"z": {"u": u, "o": o}, "lo": -24, "hi": 24, "rnd": 1})
  return out


def _describe(case, clause):
  p = case["probe"]
  e = p["e"]
  if case["k"] == "syn":
    z = case["inp"]["z"]
    head = "synthetic zone (hours from %s 00:00 UTC) untils=%s offsets_west=%s: " % (BASE, z["u"], z["o"])
    if e["exc"]:
      return head + "%s probe %s raised %s" % (p["k"], {k: e[k] for k in ("t", "l", "f", "d") if k in e}, e["exc"])
    if p["k"] == "ts":
      return head + "instant %d -> ts_to_dt local hour %d -> dt_to_ts %d" % (e["t"], e["l"], e["b"])
    if p["k"] == "loc":
      return head + "local hour %d favour %s -> dt_to_ts assigns offset %d (instant %d), raw candidates %s" % (
        e["l"], "None" if e["f"] == 99 else e["f"], e["o"], e["l"] + e["o"], e["c"])
    return head + "date day %d -> date_to_ts = hour %d -> ts_to_dt local hour %d (offset at UTC midnight %d, " \
                  "in force at the result %d, 00:00 exists: %d)" % (e["d"], e["t"], e["l"], e["um"], e["at"], e["ex"])
  head = "zone %s: " % case["zone"]
  if e["exc"]:
    return head + "%s probe %s raised %s" % (p["k"], e.get("t") or e.get("ms") or e.get("d"), e["exc"])
  if p["k"] == "ts":
    return head + "ts %s -> ts_to_dt (offset %s, record says %s) -> dt_to_ts %s" % (e["t"], e["off"], e["c"], e["b"])
  if p["k"] == "loc":
    return head + "local ms %s favour %s -> dt_to_ts %s assigns offset %s s west, record lists %s around it" % (
      e["ms"], e["f"], e["ts"], e["off"], e["c"])
  return head + "date_to_ts(%s) = %s -> ts_to_dt = %s %s (offset west at UTC midnight %s s, in force at the result " \
                "%s s, 00:00 exists: %d; zone-less round trip %s)" % (e["d"], e["t"], e["back"], e["tod"], e["um"],
                                                                       e["at"], e["ex"], e["u"])


def _entry(case, k, n):
  return (case["out"] if case["k"] == "syn" else case)[k][n - 1]


def _violations(verdicts):
  """One violation per failed probe; machinery clauses raise."""
  viol = []
  for case, b, _f in verdicts:
    for p in b["p"]:
      if p["c"] in ("C34.shape", "C34.harness", "C34.assume"):
        what = {"C34.shape": "the worker did not record every probe of the window",
                "C34.harness": "the harness' readers of raw zone records disagree with TzIndex (Cand / Interp / "
                               "OffAt) on a synthetic zone",
                "C34.assume": "a bundled zone record is outside the class of zones of the design model "
                              "(TzIndex!WellFormed)"}[p["c"]]
        raise tlc.MachineryError("%s: %s" % (what, json.dumps({"p": p, "case": case})[:3000]))
      if case["k"] == "syn":
        c = {"k": "syn", "inp": case["inp"], "probe": {"k": p["k"], "n": p["n"], "e": _entry(case, p["k"], p["n"])}}
      else:
        c = {"k": "real", "zone": case["zone"], "probe": {"k": p["k"], "e": _entry(case, p["k"], p["n"])}}
      viol.append({"clause": p["c"], "what": _describe(c, p["c"]), "case": c})
  return viol


def _cap(viol, per_class=25):
  """A broken tree fails thousands of probes: keep the smallest of every clause / probe kind / known class."""
  classes = {}
  for v in viol:
    known = tuple(n for n, fn in sorted(MATCHERS.items()) if fn(v))
    classes.setdefault((v["clause"], v["case"]["k"], v["case"]["probe"]["k"], known), []).append(v)
  kept = []
  for key in sorted(classes):
    vs = sorted(classes[key], key=lambda v: (len(json.dumps(v["case"].get("inp", ""))), json.dumps(v["case"], sort_keys=True)))
    kept.extend(vs[:per_class])
  return kept, {"%s %s/%s%s" % (k[0], k[1], k[2], " known:" + ",".join(k[3]) if k[3] else ""): len(v)
                for k, v in classes.items()}


# ---------------------------------------------------------------------------------------------
def _work(shards, workdir, tag="cases"):
  """Run the worker once per shard (a list of items of any kind); returns the case files."""
  args = []
  for i, items in enumerate(shards):
    inp = os.path.join(workdir, "%s-in-%02d.json" % (tag, i))
    json.dump(items, open(inp, "w"))
    args.append({"inp": inp, "out": os.path.join(workdir, "%s-%02d.json" % (tag, i))})
  corpus.run_workers(WORKER, args, parallel=PAR)
  return [a["out"] for a in args]


def _judge(files, workdir, parallel=PAR, tail=None):
  """
  TLC over every file; returns ([(case, verdict record, file)], counts, number of cases, wall).
  tail = (file, n): the last n cases of that file are self-test cases (not counted).
  """
  _, wall = tlc.validate_shards(SPEC, files, workdir, parallel=parallel)
  out, counts, ncases = [], _new_counts(), 0
  for f in files:
    cases = json.load(open(f))
    own = cases[:len(cases) - tail[1]] if tail and tail[0] == f else cases
    _count(counts, own)
    ncases += len(own)
    out.extend((cases[b["i"] - 1], b, f) for b in json.load(open(f + ".verdict.json")))
  counts["real_zones"] = len(counts["real_zones"])
  return out, counts, ncases, wall


def _selftest_cases(files):
  """
  The demonstration of the binding.  A recorded synthetic case and a recorded bundled case are copied
  and corrupted; the judge must reject exactly the corrupted probes (and nothing else new):
    syn:  [original, back-conversion of the 1st instant + 1 h, an assigned offset the zone never uses,
           the midnight of day 0 moved 24 h]
    real: [original, another token as the back-conversion of the 1st instant, an offset token not in the
           record, the date converted back replaced by another date]
  Returns (cases, expected new failures per case).
  """
  # the plainest recorded cases (no transition; zone UTC) so that the originals are accepted on a sane tree
  allc = json.load(open(files[0]))
  syn = min((c for c in allc if c["k"] == "syn"), key=lambda c: len(c["inp"]["z"]["u"]))
  reals = [c for c in allc if c["k"] == "real" and c["ts"] and c["loc"] and c["dt"]]
  real = ([c for c in reals if c["zone"] == "UTC"] or reals)[0]
  cp = lambda c: json.loads(json.dumps(c))
  s1, s2, s3 = cp(syn), cp(syn), cp(syn)
  s1["out"]["ts"][0]["b"] += 1
  s2["out"]["loc"][0]["o"] = 7
  s3["out"]["dt"][1]["l"] += 24
  r1, r2, r3 = cp(real), cp(real), cp(real)
  r1["ts"][0]["b"] = "0.5"
  r2["loc"][0]["off"] = "1.000000"
  r3["dt"][0]["back"] = "1600-01-01"
  r3["dt"][0]["dx"] = 1
  return [syn, s1, s2, s3, real, r1, r2, r3], \
         [None, ("C34.roundtrip", "ts", 1), ("C34.offset", "loc", 1), ("C34.date", "dt", 2),
          None, ("C34.roundtrip", "ts", 1), ("C34.offset", "loc", 1), ("C34.date", "dt", 1)]


def _selftest_check(expect, verdicts, path):
  got = {}
  for _case, b, f in verdicts:
    if f == path:
      got[b["i"]] = set((p["c"], p["k"], p["n"]) for p in b["p"])
  shown = 0
  for k, w in enumerate(expect):
    if w is None:
      base = got.get(k + 1, set())
      continue
    if w in base:
      continue          # a broken tree already fails this very probe: nothing to demonstrate on it
    new = set(x for x in got.get(k + 1, set()) - base if x[0] != "C34.harness")
    if new != {w}:
      raise tlc.MachineryError("self-test: corrupted case %d was judged %r (original: %r), expected %r"
                               % (k + 1, sorted(new), sorted(base), w))
    shown += 1
  if shown < 3:
    raise tlc.MachineryError("self-test: only %d corruptions could be demonstrated" % shown)


def _new_counts():
  return {"syn_zones": 0, "syn_probes": 0, "syn_nontrivial": 0, "real_cases": 0, "real_probes": 0,
          "real_nontrivial": 0, "real_zones": set(), "shape_zones": 0}


def _count(n, cases):
  for c in cases:
    if c["k"] == "syn":
      o = c["out"]
      n["syn_zones"] += 1
      n["syn_probes"] += len(o["ts"]) + len(o["loc"]) + len(o["dt"])
      n["syn_nontrivial"] += sum(1 for e in o["loc"] if not e["ex"] or len(e["c"]) > 1) + \
        sum(1 for e in o["dt"] if e["um"] != e["at"] or not e["ex"]) + \
        sum(1 for e in o["ts"] if e["t"] in c["inp"]["z"]["u"])
    elif c["k"] == "real":
      n["real_cases"] += 1
      n["real_zones"].add(c["zone"])
      n["real_probes"] += len(c["ts"]) + len(c["loc"]) + len(c["dt"])
      n["real_nontrivial"] += sum(1 for e in c["loc"] if not e["ex"] or len(e["c"]) > 1) + \
        sum(1 for e in c["dt"] if e["um"] != e["at"] or not e["ex"])
    else:
      n["shape_zones"] += 1


def run(ctx):
  cfg = "%s_%s.cfg" % (MC, ctx.tier)
  data, model = fnspec.enumerate_inputs(MC, cfg, ctx.workdir, workers=PAR)
  inputs = data["inputs"]
  if len(inputs) != model["distinct"] - data["seeds"]:
    raise tlc.MachineryError("TLC found %d distinct states (%d seeds) but wrote %d inputs"
                             % (model["distinct"], data["seeds"], len(inputs)))
  ctx.log("TLC enumerated %d synthetic zones in %.1fs" % (len(inputs), model["wall"]))
  # every JVM costs seconds of start-up: few, mixed shards (synthetic zones, a share of the bundled zones;
  # the first also holds the shape cases of all bundled records)
  nsh = 4 if ctx.quick else 16
  real = {"k": "real", "parts": nsh, "seed": ctx.seed, "sample": 24 if ctx.quick else 0,
          "nrand": 40 if ctx.quick else 200}
  rnd = random_zones(ctx.seed, 60 if ctx.quick else 1500)
  shards = [[dict(i, k="syn") for i in (inputs + rnd)[p::nsh]] + [dict(real, part=p)] for p in range(nsh)]
  shards[0].append({"k": "shape"})
  files = _work(shards, ctx.workdir)
  st_cases, expect = _selftest_cases(files)
  st_path = os.path.join(ctx.workdir, "selftest.json")
  if ctx.quick:
    # appended to a shard instead of a JVM of its own
    st_path = files[-1]
    base = json.load(open(st_path))
    expect = [None] * len(base) + expect
    json.dump(base + st_cases, open(st_path, "w"))
  else:
    json.dump(st_cases, open(st_path, "w"))
  verdicts, n, jcases, wall = _judge(files + ([] if ctx.quick else [st_path]), ctx.workdir,
                                     tail=(st_path, len(st_cases)))
  _selftest_check(expect, verdicts, st_path)
  keep = len(expect) - len(st_cases)
  verdicts = [v for v in verdicts if not (v[2] == st_path and v[1]["i"] > keep)]
  if n["syn_zones"] != len(inputs) + len(rnd):
    raise tlc.MachineryError("recorded %d synthetic cases for %d zones" % (n["syn_zones"], len(inputs) + len(rnd)))
  if n["shape_zones"] < 500 or n["real_zones"] == 0:
    raise tlc.MachineryError("bundled zone data not read: %r" % (n,))
  ctx.log("judged %d probes of %d synthetic zones (%d of them random, beyond the bound) and %d probes of %d bundled zones in %.1fs"
          % (n["syn_probes"], n["syn_zones"], len(rnd), n["real_probes"], n["real_zones"], wall))
  viol, classes = _cap(_violations(verdicts))
  probes = n["syn_probes"] + n["real_probes"]
  mid = len(inputs) // 2
  return {
    "states": model["distinct"] + jcases, "transitions": model["generated"] + jcases,
    "traces_validated_against_impl": probes,
    "evaluations": probes, "distinct_nontrivial": n["syn_nontrivial"] + n["real_nontrivial"],
    "rule": "one evaluation = one probe = one real conversion chain judged by TLC (instant: ts_to_dt then dt_to_ts; "
            "local time x favoured offset: dt_to_ts; date: date_to_ts then ts_to_dt, and the zone-less date_to_ts / "
            "ts_to_date).  Synthetic part: every zone of %s x every hour of the window, every local hour of the "
            "window +-3 x every favoured offset, days -1..1.  Bundled part: %s.  non-trivial = local time that is "
            "skipped or lies within a clock jump of a transition, instant exactly on a transition (synthetic), date "
            "with a transition between its UTC midnight and the returned instant or with a skipped 00:00"
            % (cfg, "a seeded sample of %d zones" % n["real_zones"] if ctx.quick else "all %d zones" % n["real_zones"]),
    "samples": inputs[mid: mid + 3],
    "exhaustive": True,
    "assumptions": ["TLC",
                    "harness/fn_tzindex.py builds a synthetic Zone by putting a ZoneRecord(name, abbrs, offsets in "
                    "minutes, untils in ms + [inf]) into moment._TZDATA and calling moment.Zone(name) - the path "
                    "bundled records take; hour 0 = %s 00:00 UTC" % BASE,
                    "for bundled zones TLC sees tokens; the candidate offsets / 'this local time exists' facts are "
                    "read from the raw records by raw_cands / raw_exists in the worker, and these readers are compared "
                    "with TzIndex!Cand / Interp / OffAt by TLC on every synthetic probe",
                    "the synthetic zones are TzIndex!WellFormed (neighbouring transitions further apart than the sum "
                    "of their clock jumps); TLC checks the same on all %d bundled records in every run (their "
                    "transitions are in fact >= 166 h apart)" % n["shape_zones"],
                    "supported range of timestamps = datetime.min + 1 day .. datetime.max - 1 day; exhaustive refers "
                    "to the synthetic part, the bundled part is every transition of the zones taken plus a seeded "
                    "random sample of instants"],
    "violations": viol,
    "extra": dict(n, enumerated_zones=len(inputs), random_zones=len(rnd), violation_classes=classes, model_wall_s=round(model["wall"], 1), judge_wall_s=round(wall, 1),
                  bundled_part_level="exploration"),
  }


def replay(ctx, data):
  case = data["case"]
  p = case["probe"]
  if case["k"] == "syn":
    items = [dict(case["inp"], k="syn")]
  else:
    items = [{"k": "real", "zone": case["zone"], "probe": dict(p["e"], k=p["k"])}]
  files = _work([items], ctx.workdir, tag="replay")
  verdicts = _judge(files, ctx.workdir, parallel=1)[0]
  viol = _violations(verdicts)
  if case["k"] == "syn":
    viol = [v for v in viol if v["case"]["probe"]["k"] == p["k"] and v["case"]["probe"]["n"] == p["n"]]
  return {"violations": viol}
