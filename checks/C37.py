"""C37 - text patches map back to the right source positions (TextBuilder.tla)."""
import json
import random

import fnspec

LEVEL = "model_checking"
SPEC = "Trace_TextBuilder"
WORKER = "fn_textbuilder.py"


# ---------------------------------------------------------------------------------------------
# Random builder trees beyond the bound of the design model (C->S).  Only shapes are produced here
# (lengths are needed to place patches inside the text); every judgement is made by TLC.
def _node(k, text=(), val=0, kids=(), patches=()):
  return {"k": k, "text": list(text), "val": val, "kids": list(kids), "patches": list(patches)}


def _rand_text(rng, lo, hi):
  return [rng.choice((97, 98, 36)) for _ in range(rng.randint(lo, hi))]


def _rand_patches(rng, m, maxp):
  """Ascending non-overlapping patches with distinct ranges inside a text of length m."""
  k = rng.randint(0, maxp)
  cuts = sorted(rng.randint(0, m) for _ in range(2 * k))
  out, seen = [], set()
  for i in range(k):
    s, e = cuts[2 * i], cuts[2 * i + 1]
    if rng.random() < 0.3 and out:      # make neighbours touch
      s = out[-1]["e"]
    if (s, e) in seen or (out and s < out[-1]["e"]):
      continue
    seen.add((s, e))
    n = [] if rng.random() < 0.35 else _rand_text(rng, 0, 3)
    out.append({"s": s, "e": e, "n": n})
  return out


def _gen(rng, depth, ids, top=True):
  """Returns (node, length of its output)."""
  kinds = ["T"] if depth == 0 else ["T", "R", "R", "R", "C", "C"]
  if not top and depth < 3:
    kinds = kinds + ["S"]
  k = rng.choice(kinds)
  if k == "T":
    ids[0] += 1
    t = _rand_text(rng, 0, 10 if depth else 12)
    return _node("T", text=t, val=ids[0]), len(t)
  if k == "S":
    t = _rand_text(rng, 0, 3)
    return _node("S", text=t), len(t)
  if k == "R":
    kid, m = _gen(rng, depth - 1, ids, top=True)
    ps = _rand_patches(rng, m, 4)
    n = m - sum(p["e"] - p["s"] for p in ps) + sum(len(p["n"]) for p in ps)
    return _node("R", kids=[kid], patches=ps), n
  parts = [_gen(rng, depth - 1, ids, top=False) for _ in range(rng.randint(1, 4))]
  return _node("C", kids=[p[0] for p in parts]), sum(p[1] for p in parts)


def random_inputs(seed, count, maxlen=26):
  rng = random.Random("C37-%d" % seed)
  out = []
  while len(out) < count:
    node, n = _gen(rng, rng.choice((1, 2, 2, 3, 3)), [0])
    if node["k"] == "T" or n > maxlen:
      continue
    out.append({"b": node, "ranges": [], "all": 1})
  return out


# ---------------------------------------------------------------------------------------------
# Known-defect matcher.  It recognises the failing input shape only; it judges nothing.
def _level_map(node):
  """For a Replacer: input index of every output character (None for replacement characters)."""
  kid_len = _out_len(node["kids"][0])
  res, pos = [], 0
  for p in sorted(node["patches"], key=lambda p: (p["s"], p["e"])):
    res.extend(range(pos, p["s"]))
    res.extend([None] * len(p["n"]))
    pos = p["e"]
  res.extend(range(pos, kid_len))
  return res


def _out_len(node):
  if node["k"] in ("T", "S"):
    return len(node["text"])
  if node["k"] == "R":
    return len(_level_map(node))
  return sum(_out_len(x) for x in node["kids"])


def _end_abuts_deletion(node, s, e):
  """
  True if, following the range [s, e) down the tree by its first and last characters, some Replacer
  on the way has a deleting patch (non-empty old text, empty new text) that starts exactly where the
  range ends in that Replacer's input.
  """
  if s >= e or node["k"] in ("T", "S"):
    return False
  if node["k"] == "R":
    lm = _level_map(node)
    if e > len(lm) or lm[s] is None or lm[e - 1] is None:
      return False
    in_s, in_e = lm[s], lm[e - 1] + 1
    if any(p["s"] == in_e and p["e"] > p["s"] and not p["n"] for p in node["patches"]):
      return True
    return _end_abuts_deletion(node["kids"][0], in_s, in_e)
  off = 0
  for kid in node["kids"]:
    n = _out_len(kid)
    if off <= s and e <= off + n and n > 0:
      return _end_abuts_deletion(kid, s - off, e - off)
    off += n
  return False


def _m_end_abuts_deletion(v):
  if v.get("clause") != "C37.mapback":
    return False
  inp = v["case"]["inp"]
  if len(inp["ranges"]) != 1 or inp.get("all"):
    return False
  s, e = inp["ranges"][0]
  return _end_abuts_deletion(inp["b"], s, e)


MATCHERS = {"c37_range_end_abuts_deletion": _m_end_abuts_deletion}


# ---------------------------------------------------------------------------------------------
def _show(node):
  t = "".join(chr(c) for c in node["text"])
  if node["k"] == "T":
    return "Text(%r,%d)" % (t, node["val"])
  if node["k"] == "S":
    return repr(t)
  if node["k"] == "R":
    return "Replacer(%s, [%s])" % (_show(node["kids"][0]), ", ".join(
      "(%d,%d,%r)" % (p["s"], p["e"], "".join(chr(c) for c in p["n"])) for p in node["patches"]))
  return "Combiner([%s])" % ", ".join(_show(x) for x in node["kids"])


def _show_rec(m):
  if m["kind"] != "patch":
    return m["kind"]
  return "(%r, %d, Patch(%d, %d, %r, %r))" % (
    "".join(chr(c) for c in m["src"]), m["val"], m["ps"], m["pe"],
    "".join(chr(c) for c in m["old"]), "".join(chr(c) for c in m["new"]))


def violations_of(failures):
  """One violation per failed clause and range; the case is cut down to that range (replayable)."""
  out = []
  for f in failures:
    case = f["case"]
    for c in f["c"]:
      name, _, rng = c.partition("@")
      if not rng:
        what = "%s -> text %r exc %r" % (_show(case["inp"]["b"]),
                                         "".join(chr(x) for x in case["out"]["text"]), case["exc"])
        out.append({"clause": name, "what": what, "case": case})
        continue
      s, e = [int(x) for x in rng.split("-")]
      recs = [m for m in case["out"]["maps"] if m["s"] == s and m["e"] == e][:1]
      small = {"inp": {"b": case["inp"]["b"], "ranges": [[s, e]], "all": 0},
               "out": {"text": case["out"]["text"], "maps": recs}, "exc": case["exc"]}
      what = "%s produced %r; map_back_patch of [%d,%d) -> %s" % (
        _show(case["inp"]["b"]), "".join(chr(x) for x in case["out"]["text"]), s, e,
        _show_rec(recs[0]) if recs else "not recorded")
      out.append({"clause": name, "what": what, "case": small})
  return out


def _cap(viol, per_class=150):
  """A broken tree fails tens of thousands of ranges: keep the smallest of every class."""
  classes = {}
  for v in viol:
    known = [n for n, fn in sorted(MATCHERS.items()) if fn(v)]
    classes.setdefault((v["clause"], tuple(known)), []).append(v)
  kept = []
  for key in sorted(classes):
    vs = sorted(classes[key], key=lambda v: len(json.dumps(v["case"])))
    kept.extend(vs[:per_class])
  return kept, {"%s%s" % (k[0], "/" + ",".join(k[1]) if k[1] else ""): len(v) for k, v in classes.items()}


def _mutate(case):
  """Corrupt a recorded case: the first mapped-back patch ends one character later."""
  for m in case["out"]["maps"]:
    if m["kind"] == "patch":
      m["pe"] += 1
      m["old"] = m["src"][m["ps"]:m["pe"]]
      return case
  # no usable recorded case: Replacer(Text("ab"), [(0,1)->"$$"]) produces "$$b"; "b" = [2,3) comes from
  # [1,2) of "ab", the record claims [0,1)
  b = _node("R", kids=[_node("T", text=[97, 98], val=1)], patches=[{"s": 0, "e": 1, "n": [36, 36]}])
  rec = {"s": 2, "e": 3, "sent": [90], "kind": "patch", "val": 1, "src": [97, 98], "ps": 0, "pe": 1,
         "old": [97], "new": [90]}
  return {"inp": {"b": b, "ranges": [[2, 3]], "all": 0},
          "out": {"text": [36, 36, 98], "maps": [rec]}, "exc": ""}


def _selftest(ctx, files, failures):
  """
  Binding demonstration: a recorded case that the trace specification ACCEPTED in this run is corrupted
  (one mapped-back patch made one character longer) and must now be rejected.
  """
  import os
  failed = set((f["file"], f["i"]) for f in failures)
  pick = None
  for fn in files:
    for i, c in enumerate(json.load(open(fn))):
      if (fn, i + 1) not in failed and c["inp"]["b"]["k"] != "T" and \
         any(m["kind"] == "patch" for m in c["out"]["maps"]):
        pick = c
        break
    if pick:
      break
  p = os.path.join(ctx.workdir, "selftest-src.json")
  json.dump([pick or {"inp": {}, "out": {"maps": []}}], open(p, "w"))
  if not fnspec.mutation_selftest(SPEC, p, _mutate, ctx.workdir):
    raise fnspec.tlc.MachineryError("self-test: corrupted case was accepted by Trace_TextBuilder")
  return pick is not None


def run(ctx):
  cfg = "MC_TextBuilder_%s.cfg" % ctx.tier
  written, model = fnspec.enumerate_inputs("MC_TextBuilder", cfg, ctx.workdir)
  # a tree that belongs to two chunks of the nested-Replacer family is written twice
  inputs, seen = [], set()
  for i in written:
    key = json.dumps(i["b"], sort_keys=True)
    if key not in seen:
      seen.add(key)
      inputs.append(i)
  del written, seen
  ctx.log("TLC enumerated %d builder trees (%d distinct states)" % (len(inputs), model["distinct"]))
  if 2 * len(inputs) != model["distinct"]:
    raise fnspec.tlc.MachineryError("design model: %d trees written but %d states (2 per tree expected)"
                                    % (len(inputs), model["distinct"]))
  n_random = 1500 if ctx.quick else 20000
  rnd = random_inputs(ctx.seed, n_random)
  files = fnspec.run_cases(WORKER, inputs, ctx.workdir, per_shard=2000 if ctx.quick else 10000)
  rfiles = fnspec.run_cases(WORKER, rnd, ctx.workdir, tag="rnd", per_shard=400 if ctx.quick else 1500)
  allf, n_all, wall = fnspec.judge(SPEC, files + rfiles, ctx.workdir)
  rset = set(rfiles)
  failures = [f for f in allf if f["file"] not in rset]
  rfailures = [f for f in allf if f["file"] in rset]
  rn = len(rnd)
  n = n_all - rn
  ctx.log("TLC judged %d enumerated and %d random cases in %.1fs (%d JVMs)" % (n, rn, wall, len(files + rfiles)))
  recorded = _selftest(ctx, files + rfiles, allf)

  n_ranges = sum(len(i["ranges"]) for i in inputs)
  nontrivial = sum(1 for i in inputs if i["ranges"] and i["b"]["k"] != "T")
  r_calls = 0
  for f in rfiles:
    r_calls += sum(len(c["out"]["maps"]) for c in json.load(open(f)))
  viol, classes = _cap(violations_of(failures) + violations_of(rfailures))
  shapes = {}
  for i in inputs:
    b = i["b"]
    key = b["k"] + ("(" + "".join(sorted(set(k["k"] for k in b["kids"]))) + ")" if b["kids"] else "")
    shapes[key] = shapes.get(key, 0) + 1
  return {
    "states": model["distinct"] + n + rn, "transitions": model["generated"] + n + rn,
    "traces_validated_against_impl": n + rn,
    "evaluations": n_ranges, "distinct_nontrivial": nontrivial,
    "rule": "TLC enumerates every builder tree within the bound of %s and, for each, every qualifying "
            "output range (non-empty, first and last character copied from an input Text); evaluations = "
            "map_back_patch calls on those ranges, every one judged (random trees: every non-empty range is "
            "recorded and TLC judges the qualifying ones, counted separately); non-trivial = a "
            "Replacer/Combiner tree with at least one qualifying range" % cfg,
    "samples": [i["b"] for i in inputs[len(inputs) // 2: len(inputs) // 2 + 2]],
    "exhaustive": True,
    "assumptions": ["TLC", "harness/fn_textbuilder.py builds the Text/Replacer/Combiner objects "
                    "(patches via make_patch, handed over in descending order) and transcribes results",
                    "random trees (seeded) beyond the bound are a sample, not exhaustive"],
    "violations": viol,
    "extra": {"enumerated_trees": len(inputs), "enumerated_ranges": n_ranges, "tree_shapes": shapes,
              "random_trees": rn, "random_map_back_calls_recorded": r_calls, "violation_classes": classes,
              "selftest_on_recorded_case": recorded},
  }


def replay(ctx, data):
  files = fnspec.run_cases(WORKER, [data["case"]["inp"]], ctx.workdir)
  failures, _, _ = fnspec.judge(SPEC, files, ctx.workdir)
  return {"violations": violations_of(failures)}
