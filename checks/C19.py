"""C19 - invalid formulas are isolated and valid ones mean what they say (FormulaText.tla)."""
import json
import os
import re

import fnspec

LEVEL = "model_checking"
tlc = fnspec.tlc

_LONE_CR = re.compile(r"\\r(?!\\n)")      # in the escaped texts of a case: a CR not followed by LF


def _lone_cr(escaped):
  return bool(_LONE_CR.search(escaped))


def _x_has_lone_cr(inp):
  return _lone_cr(inp["xtext"]) or (inp["xkind"] != "text" and inp["xnl"] == "cr")


MATCHERS = {
  # codebuilder indents / comments out the lines of a formula at "\n" only (indent_line_re, textbuilder.line_start_re),
  # while Python's tokenizer also ends a line at a lone "\r":
  # (a) a broken text in X whose lines are separated by lone CRs is only partly commented out; the rest is
  #     compiled as part of the generated module (here: redefines K)
  "lone_cr_escapes_the_error_stub": lambda v: v.get("clause") in ("C19.others", "C19.usable", "C19.loc")
                                    and v["case"]["out"]["x_ok"] and _x_has_lone_cr(v["case"]["inp"]),
  # (b) a valid multi-line formula with lone-CR line ends is indented on its first line only, the module does
  #     not compile and the action is rejected
  "lone_cr_valid_formula_rejected": lambda v: v.get("clause") == "C19.meaning" and not v["case"]["out"]["f_ok"]
                                    and v["case"]["out"]["f_exc"] in ("SyntaxError", "IndentationError")
                                    and _lone_cr(v["case"]["inp"]["ftext"]),
}

PARALLEL = max(1, int(os.environ.get("VERIF_PARALLEL", "16") or 16))   # processes / JVMs at a time
N_HYP = {"quick": 750, "thorough": 12000}
N_RAND = {"quick": 250, "thorough": 4000}


def _space(ctx, cfg=None):
  cfg = cfg or "MC_FormulaText_%s.cfg" % ctx.tier
  space, model = fnspec.enumerate_inputs("MC_FormulaText", cfg, ctx.workdir)
  doc = os.path.join(ctx.workdir, "doc.json")
  json.dump({k: space[k] for k in ("rows", "newrow", "known", "fix", "xinit")}, open(doc, "w"))
  return space, model, doc, cfg


def _items(ctx, space):
  """Pair every (tree, spelling) TLC enumerated with a fragment TLC enumerated (both lists are covered)."""
  pairs = [(it["t"], sp) for it in space["items"] for sp in it["sp"]]
  frags = space["frags"]
  n = max(len(pairs), len(frags))
  items = []
  for j in range(n):
    t, s = pairs[j % len(pairs)]
    f = frags[(j * 7) % len(frags)] if j >= len(frags) else frags[j]
    items.append({"tree": t, "spell": s, "xkind": f["kind"], "xpos": f["pos"], "xnl": f["nl"],
                  "how": "modify" if j % 3 else "meta"})
  return items, pairs, frags


def _dollar_in_string(tree):
  if tree[0] == "Const":
    return tree[1][0] == "str" and 36 in tree[1][1]
  return any(_dollar_in_string(t) for t in tree[1:] if isinstance(t, list))


def _text(inp, key):
  s = inp[key]
  return s if len(s) <= 160 else s[:160] + "..."


def _what(clause, case):
  inp, out = case["inp"], case["out"]
  if clause in ("C19.meaning", "SPEC.sem", "SPEC.render", "SPEC.tree"):
    return "F = '%s' (%s of %s) -> %s %s; python: %s" % (
      _text(inp, "ftext"), inp["spell"], json.dumps(inp["tree"])[:200],
      "cells " + json.dumps(out["s1"]["F"])[:200], ("rejected: " + out["f_exc"]) if not out["f_ok"] else "",
      json.dumps(out["py"])[:200])
  x = "X = '%s' (%s/%s/%s, %d chars, set by %s)" % (_text(inp, "xtext"), inp["xkind"], inp["xpos"], inp["xnl"],
                                                   inp["xlen"], inp["how"])
  if clause == "C19.ok":
    return "%s rejected with %s and the document changed" % (x, out["x_exc"])
  snaps = {k: {c: out[k][c] for c in ("G", "H", "K")} for k in ("s2", "s3", "s4")}
  return "%s -> x_ok=%s %s add_ok=%s fix_ok=%s; G/H/K after: %s; elsewhere=%d" % (
    x, out["x_ok"], out["x_exc"], out["add_ok"], out["fix_ok"], json.dumps(snaps)[:400], out["elsewhere"])


def _split(failures, doc=None):
  """doc: the document description; kept with a violating case so that a replay needs no design-model run"""
  viol = []
  for f in failures:
    for c in f["c"]:
      if c.startswith("SPEC."):
        raise tlc.MachineryError("%s: the specification / renderer disagrees with Python on %s"
                                 % (c, _what(c, f["case"])))
      case = dict(f["case"], doc=doc) if doc else f["case"]
      viol.append({"clause": c, "what": _what(c, case), "case": case})
  return viol


def _selftest(ctx, case_file):
  """Binding self-test: corrupted recordings must be rejected by the trace specification, each by its clause."""
  def wrong_cell(case):
    case["out"]["s1"]["F"] = [["other", 0] for _ in case["out"]["s1"]["F"]]
    return "C19.meaning"

  def leaked(case):
    case["out"]["s3"]["K"] = case["out"]["s3"]["K"][:-1] + [["int", 99]]
    return "C19.others"

  def error_outside(case):
    case["out"]["s2"]["G"] = [["err", 0]] + case["out"]["s2"]["G"][1:]
    return "C19.loc"

  def half_applied(case):
    case["out"]["x_ok"], case["out"]["same"] = False, False
    return "C19.ok"
  # a recorded case whose own verdict is clean and whose F is judged
  base = next((c for c in json.load(open(case_file))
               if c["out"]["f_ok"] and c["out"]["x_ok"] and c["out"]["add_ok"] and c["inp"]["spell"] != "cr"
               and c["inp"]["xnl"] != "cr" and all(v[0] in ("int", "str", "bool", "err") for v in c["out"]["py"])), None)
  if base is None:
    raise tlc.MachineryError("self-test: no suitable recorded case in %s" % case_file)
  muts = (wrong_cell, leaked, error_outside, half_applied)
  bad, want = [], []
  for m in muts:
    c = json.loads(json.dumps(base))
    want.append(m(c))
    bad.append(c)
  p = os.path.join(ctx.workdir, "selftest-C19.json")
  json.dump([base] + bad, open(p, "w"))
  verdicts, _ = tlc.validate_shards("Trace_FormulaText", [p], ctx.workdir, parallel=1)
  got = {v["i"]: set(v["c"]) for v in verdicts}
  if 1 in got:
    raise tlc.MachineryError("self-test: the uncorrupted case is rejected: %s" % sorted(got[1]))
  for k, (m, w) in enumerate(zip(muts, want)):
    if w not in got.get(k + 2, set()):
      raise tlc.MachineryError("self-test: corrupted case (%s) was not rejected by %s: %s"
                               % (m.__name__, w, sorted(got.get(k + 2, set()))))


def run(ctx):
  space, model, doc, cfg = _space(ctx)
  items, pairs, frags = _items(ctx, space)
  ctx.log("TLC enumerated %d trees -> %d (tree, spelling) pairs and %d fragments (%d distinct states) in %.1fs"
          % (len(space["items"]), len(pairs), len(frags), model["distinct"], model["wall"]))
  extra = {"doc": doc}
  # C->S: Hypothesis text for X, deeper random trees for F (generated by the workers from the seed)
  small = [p for p in pairs[::max(1, len(pairs) // 60)] if len(json.dumps(p[0])) < 160][:40]
  per = 125 if ctx.quick else 250
  more = [{"hyp": ctx.seed * 1000003 + k, "n": per, "trees": [list(p) for p in small]}
          for k in range(N_HYP[ctx.tier] // per)]
  more += [{"rand": ctx.seed * 7919 + 17 * k + 1, "n": per} for k in range(N_RAND[ctx.tier] // per)]
  files = fnspec.run_cases("fn_formulatext.py", more + items, ctx.workdir, extra=extra, nshards=min(PARALLEL, 16))
  failures, n, wall = fnspec.judge("Trace_FormulaText", files, ctx.workdir, parallel=PARALLEL)
  ctx.log("TLC judged %d recorded runs in %.1fs" % (n, wall))

  _selftest(ctx, files[0])

  viol = _split(failures, json.load(open(doc)))
  stats = {"enumerated_cases": 0, "hypothesis_texts": 0, "random_trees": 0, "f_judged_rows": 0, "f_all_rows_undefined": 0,
           "f_error_values": 0, "dollar_in_string": 0, "x_accepted": 0, "x_rejected_document_unchanged": 0,
           "x_error_classes": {}, "x_rejection_classes": {}, "x_no_error_cells": 0, "timeouts": 0,
           "spellings": {}, "set_by": {}}
  samples = []
  nontrivial = 0
  for f in files:
    cases = json.load(open(f))
    for c in cases:
      inp, out = c["inp"], c["out"]
      kind = {"hyp": "hypothesis_texts", "rand": "random_trees"}.get(inp.get("src"), "enumerated_cases")
      stats[kind] += 1
      stats["spellings"][inp["spell"]] = stats["spellings"].get(inp["spell"], 0) + 1
      stats["set_by"][inp["how"]] = stats["set_by"].get(inp["how"], 0) + 1
      judged = sum(1 for v in out["py"] if v[0] not in ("nonint", "bigint", "bigstr", "other", "nopy"))
      stats["f_judged_rows"] += judged
      stats["f_all_rows_undefined"] += 0 if judged else 1
      stats["f_error_values"] += sum(1 for v in out["py"] if v[0] == "err")
      stats["dollar_in_string"] += 1 if _dollar_in_string(inp["tree"]) else 0
      if "Timeout" in (out["x_exc"], out["f_exc"]):
        stats["timeouts"] += 1
      if out["x_ok"]:
        stats["x_accepted"] += 1
        for k in out["xclass"]:
          stats["x_error_classes"][k] = stats["x_error_classes"].get(k, 0) + 1
        stats["x_no_error_cells"] += 0 if out["xclass"] else 1
      else:
        stats["x_rejected_document_unchanged"] += 1 if out["same"] else 0
        stats["x_rejection_classes"][out["x_exc"]] = stats["x_rejection_classes"].get(out["x_exc"], 0) + 1
      nontrivial += 1 if (judged and (out["xclass"] or not out["x_ok"])) else 0
    if len(samples) < 4 and cases:
      c = cases[len(cases) // 2]
      samples.append({"F": c["inp"]["ftext"], "F_cells": c["out"]["s1"]["F"], "X": c["inp"]["xtext"][:120],
                      "x_ok": c["out"]["x_ok"], "x_exc": c["out"]["x_exc"], "X_cells": c["out"]["s2"]["X"][:2]})
  return {
    "states": model["distinct"] + n, "transitions": model["generated"] + n,
    "traces_validated_against_impl": n,
    "evaluations": n, "distinct_nontrivial": nontrivial,
    "rule": "TLC enumerates every formula tree within the bound of %s with spellings that apply (families small/cond: "
            "all of them, mid/let/big: PerMid/PerLet/PerBig of them in turn) and the grammar of broken fragments (kind x position x line-break "
            "convention); each engine run sets one spelling as F and one fragment as X of the same document; %d further "
            "X texts come from Hypothesis and %d deeper random trees (seed %d); non-trivial = F's meaning defined in some "
            "row AND X's text was rejected or left error cells" % (cfg, N_HYP[ctx.tier], N_RAND[ctx.tier], ctx.seed),
    "samples": samples,
    "exhaustive": True,
    "assumptions": ["TLC", "Python's own exec of the rec.-spelling as the ground truth the property names "
                    "(every case: FEval(tree) = Python's result, else MachineryError)",
                    "harness/fn_formulatext.py renders trees / fragments as text and builds the document T(a,b|F,G,H,X,K,R)",
                    "a rejected user action counts as 'the document keeps working' iff every table is unchanged",
                    "formulas that sabotage the interpreter at run time (sys.setrecursionlimit, infinite loops) are "
                    "outside the grammar"],
    "violations": viol,
    "extra": stats,
  }


def replay(ctx, data):
  case = data["case"]
  if case.get("doc"):
    doc = os.path.join(ctx.workdir, "doc.json")
    json.dump(case["doc"], open(doc, "w"))
  else:
    _space_, _model, doc, _cfg = _space(ctx, "MC_FormulaText_quick.cfg")
  files = fnspec.run_cases("fn_formulatext.py", [case["inp"]], ctx.workdir, extra={"doc": doc})
  failures, _n, _ = fnspec.judge("Trace_FormulaText", files, ctx.workdir)
  return {"violations": _split(failures, json.load(open(doc)))}
