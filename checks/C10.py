"""C10 - decided on the metadata-heavy engine-history corpus by the C10.* clauses of spec/Trace_Doc.tla."""
from checks import _shared, _core
import shared

LEVEL = "model_checking"


def run(ctx):
  return _core.merge(ctx, _shared.run_clauses(ctx, "C10.", lambda e: e['k'] == 'B' and e['tag'] == 'ua' and e['onlyrm'],
                             "calls that request only removals (records, tables, columns, views, sections; cascades and auto-removal included): no data Ref/RefList cell that pointed at a removed row still does (C10.ref); RefList cells keep their other ids in order and become None when empty (C10.reflist); user and metadata tables alike", name="meta", plan=shared.PLAN_META), "C10.")


def replay(ctx, data):
  if "core_chunk" in data:
    return _core.replay(ctx, data, "C10.")
  return _shared.replay_clause(ctx, data, "C10.")
