"""C39 - RenameChoices renames exactly the mapped choices, simultaneously, in the cells of the column
and in the column's saved filters, and changes nothing else (RenameChoices.tla).

S->C: TLC (MC_RenameChoices) enumerates the families of (column type, cells, rename map, filters)
inputs; harness/fn_renamechoices.py builds each document in a real engine, applies the real
['RenameChoices', table, 'C', map] user action and records the document before / after / after undo;
Trace_RenameChoices judges every recorded case with RenameChoices!Clauses.
C->S: seeded random inputs beyond the bound (more rows, longer lists, more and odd choice names,
bigger maps, up to 3 filters with both keys) go through the same judge.
"""
import json
import os
import random

import fnspec

LEVEL = "model_checking"
MC = "MC_RenameChoices"
SPEC = "Trace_RenameChoices"
WORKER = "fn_renamechoices.py"


def _range_filter_raises(v):
  """RenameChoices raises TypeError when a saved filter of the column is a range filter
  ({"min": .., "max": ..}: a member of the filter object that is not a list)."""
  case = v["case"]
  return v["clause"] == "C39.raised" and case["exc"] == "TypeError" and \
    any(not e["isl"] for f in case["inp"]["flt"] for e in f["ents"])


def _empty_name_row0(v):
  """RenameChoices on a Choice column raises AssertionError ([Bulk]UpdateRecord for non-existent record
  #0) when the map renames the empty name '': ChoiceColumn.rename_choices walks the raw storage, whose
  slot 0 (and every slot of a removed row) holds the column default ''."""
  case = v["case"]
  return v["clause"] == "C39.raised" and case["exc"] == "AssertionError" and \
    case["inp"]["typ"] == "Choice" and any(p["o"] == "" for p in case["inp"]["map"])


MATCHERS = {"range_filter_raises": _range_filter_raises, "empty_name_row0": _empty_name_row0}


# ---------------------------------------------------------------------------------------------
# Random inputs beyond the bound of the design model (C->S).  Only inputs are produced here; every
# judgement is made by TLC through the same trace specification.
NAMES = ["a", "b", "c", "d", "e", "", "5", "a b", "L", "A", "null", 'x"y', "true", "a,b", " a", "1.5"]


def _atom(v):
  if v is None:
    return {"k": "z", "s": ""}
  if isinstance(v, bool):
    return {"k": "b", "s": "1" if v else "0"}
  if isinstance(v, (int, float)):
    return {"k": "n", "s": repr(v)}
  return {"k": "s", "s": v}


def _cell(v):
  if isinstance(v, list):
    return {"k": "l", "s": "", "l": [_atom(x) for x in v]}
  a = _atom(v)
  return {"k": a["k"], "s": a["s"], "l": []}


def random_inputs(seed, count):
  rng = random.Random("C39-%d" % seed)
  out = []
  for _ in range(count):
    names = rng.sample(NAMES, rng.choice((2, 3, 4, 6, 9)))
    typ = rng.choice(("Choice", "ChoiceList"))
    odd = [None, 5, 0, 1.5, True]
    cells = []
    for _r in range(rng.choice((0, 1, 2, 3, 4, 6))):
      x = rng.random()
      if typ == "Choice":
        v = rng.choice(names) if x < 0.75 else rng.choice(odd) if x < 0.93 else [rng.choice(names)]
      elif x < 0.75:
        v = [rng.choice(names) for _e in range(rng.choice((0, 1, 1, 2, 2, 3, 5)))]
      elif x < 0.88:
        v = rng.choice(odd)
      elif x < 0.94:
        v = rng.choice([n for n in names if not n.startswith("[")])
      else:
        v = [rng.choice(names), rng.choice((5, None, True)), rng.choice(names)]
      cells.append(_cell(v))
    keys = rng.sample(names + ["zz"], min(rng.choice((0, 1, 1, 2, 2, 3, 4)), len(names) + 1))
    targets = names + ["new1", "new2"]
    rmap = [{"o": k, "n": rng.choice(targets)} for k in keys]
    if len(keys) >= 2 and rng.random() < 0.3:       # make sure swaps and cycles are frequent
      rot = keys[1:] + keys[:1]
      rmap = [{"o": k, "n": t} for k, t in zip(keys, rot)]
    flt = []
    for _f in range(rng.choice((0, 1, 1, 2, 3))):
      form = rng.choice(("included", "excluded", "included", "excluded", "both", "empty"))
      vals = lambda: [_atom(rng.choice(names) if rng.random() < 0.8 else rng.choice(odd))
                      for _e in range(rng.choice((0, 1, 2, 3, 5)))]
      if form == "empty":
        flt.append({"sec": rng.randint(1, 3), "raw": "empty", "ents": []})
      else:
        keys_ = ["included", "excluded"] if form == "both" else [form]
        flt.append({"sec": rng.randint(1, 3), "raw": "json",
                    "ents": [{"key": k, "isl": True, "vals": vals()} for k in keys_]})
    out.append({"typ": typ, "cells": cells, "map": rmap, "flt": flt, "rnd": True})
  return out


# ---------------------------------------------------------------------------------------------
def _show_atom(a):
  k = a["k"]
  return json.dumps(a["s"]) if k == "s" else "None" if k == "z" else \
    ("True" if a["s"] == "1" else "False") if k == "b" else a["s"]


def _show_cell(c):
  return "[" + ", ".join(_show_atom(a) for a in c["l"]) + "]" if c["k"] == "l" else _show_atom(c)


def _show_filter(f):
  if f["raw"] != "json":
    return "''" if f["raw"] == "empty" else "<not a JSON object>"
  return "{" + ", ".join("%s: %s" % (e["key"], "[" + ", ".join(_show_atom(a) for a in e["vals"]) + "]"
                                     if e["isl"] else _show_atom(e["vals"][0])) for e in f["ents"]) + "}"


def _describe(case):
  inp, b, a = case["inp"], case["b"], case["a"]
  seq = lambda items: "[" + ", ".join(items) + "]"
  cells = lambda cs: seq(_show_cell(c) for c in cs)
  mine = lambda st: seq(_show_filter(f) for f in st["filters"] if f["col"] == case["cref"])
  other = lambda st: seq(_show_filter(f) for f in st["filters"] if f["col"] != case["cref"])
  rmap = "{" + ", ".join("%s: %s" % (json.dumps(p["o"]), json.dumps(p["n"])) for p in inp["map"]) + "}"
  txt = "RenameChoices(C, %s) on a %s column %s with filters %s" % (
    rmap, inp["typ"], cells(b["c"]), mine(b))
  if case["exc"]:
    return txt + " raised " + case["exc"]
  txt += " -> cells %s, filters %s" % (cells(a["c"]), mine(a))
  if b["o"] != a["o"]:
    txt += "; sibling column %s -> %s" % (cells(b["o"]), cells(a["o"]))
  if other(b) != other(a):
    txt += "; other filters %s -> %s" % (other(b), other(a))
  changed = [x["t"] for x, y in zip(b["tabs"], a["tabs"]) if x != y]
  if changed:
    txt += "; also changed: %s" % changed
  if case["un"]["exc"] or case["un"]["d"] != case["d0"]:
    txt += "; undo %s" % (("raised " + case["un"]["exc"]) if case["un"]["exc"] else
                          "did not restore the document")
  return txt


def _open(case):
  """The recorded case with its input as data again (cases carry the input as JSON text)."""
  c = dict(case)
  if isinstance(c["inp"], str):
    c["inp"] = json.loads(c["inp"])
  return c


def violations_of(failures):
  out = []
  for f in failures:
    case = _open(f["case"])
    for c in f["c"]:
      out.append({"clause": c, "what": _describe(case), "case": case})
  return out


def _cap(viol, per_class=40):
  """A broken tree fails thousands of cases: keep the smallest of every clause / known class."""
  classes = {}
  for v in viol:
    known = tuple(n for n, fn in sorted(MATCHERS.items()) if fn(v))
    classes.setdefault((v["clause"], known), []).append(v)
  kept = []
  for key in sorted(classes):
    vs = sorted(classes[key], key=lambda v: len(json.dumps(v["case"]["inp"])))
    kept.extend(vs[:per_class])
  return kept, {"%s%s" % (k[0], "/" + ",".join(k[1]) if k[1] else ""): len(v) for k, v in classes.items()}


# ---------------------------------------------------------------------------------------------
def _synthetic(rmap, cells0, cells1, mine1, other1, undo_ok=True):
  """A hand-written case on a ChoiceList column with one filter of the column ({included: [a, b]})
  and one filter of another column (the same text)."""
  L = lambda names: {"k": "l", "s": "", "l": [_atom(n) for n in names]}
  filt = lambda fid, col, names: {"id": fid, "col": col, "sec": 1, "pin": 11, "raw": "json", "d": len(names),
                                  "ents": [{"key": "included", "isl": True, "vals": [_atom(n) for n in names]}]}
  state = lambda cells, mine, other: {
    "rows": list(range(1, len(cells) + 1)), "c": [L(c) for c in cells], "o": [L(c) for c in cells0],
    "filters": [filt(1, 2, mine), filt(2, 3, other)], "tabs": [{"t": "rest", "d": 5}]}
  return {"inp": "{}", "typ": "ChoiceList", "map": [{"o": o, "n": n} for o, n in rmap], "cref": 2,
          "b": state(cells0, ["a", "b"], ["a", "b"]), "a": state(cells1, mine1, other1),
          "exc": "", "d0": 77, "un": {"exc": "", "d": 77 if undo_ok else 78}}


def _selftests(files, failures, workdir):
  """
  The demonstration of the binding, one TLC run:
    1 chain a->b, b->c: the simultaneous result                                 -> must be accepted
    2 ... the cascading result [c, c] in the cell                               -> C39.cells
    3 ... the column's filter left as it was                                    -> C39.filters
    4 ... the other column's filter renamed too                                 -> C39.frame
    5 ... the undo does not restore the document                                -> C39.undo
    6 merge a->c, b->c on [a, b]: [c, c]                                        -> must be accepted
    7 ... [c] (the duplicate created by the renaming dropped)                   -> must be accepted
    8 ... [] (an element lost)                                                  -> C39.cells
    9 a recorded case of the real engine that the judge accepted and in which the action changed a
      cell, with the cells put back to their old values                         -> C39.cells
  (case 9 is left out if the tree is so broken that no such accepted case exists)
  """
  chain = [("a", "b"), ("b", "c")]
  merge = [("a", "c"), ("b", "c")]
  cases = [
    _synthetic(chain, [["a", "b"]], [["b", "c"]], ["b", "c"], ["a", "b"]),
    _synthetic(chain, [["a", "b"]], [["c", "c"]], ["b", "c"], ["a", "b"]),
    _synthetic(chain, [["a", "b"]], [["b", "c"]], ["a", "b"], ["a", "b"]),
    _synthetic(chain, [["a", "b"]], [["b", "c"]], ["b", "c"], ["b", "c"]),
    _synthetic(chain, [["a", "b"]], [["b", "c"]], ["b", "c"], ["a", "b"], undo_ok=False),
    _synthetic(merge, [["a", "b"]], [["c", "c"]], ["c", "c"], ["a", "b"]),
    _synthetic(merge, [["a", "b"]], [["c"]], ["c"], ["a", "b"]),
    _synthetic(merge, [["a", "b"]], [[]], ["c"], ["a", "b"]),
  ]
  want = {2: ["C39.cells"], 3: ["C39.filters"], 4: ["C39.frame"], 5: ["C39.undo"], 8: ["C39.cells"]}
  failed = set((f["file"], f["i"]) for f in failures)
  recorded = None
  for f in files:
    for k, case in enumerate(json.load(open(f))):
      if not case["exc"] and case["a"]["c"] != case["b"]["c"] and (f, k + 1) not in failed:
        recorded = json.loads(json.dumps(case))
        break
    if recorded:
      break
  if recorded is not None:
    recorded["a"]["c"] = recorded["b"]["c"]
    cases.append(recorded)
    want[9] = ["C39.cells"]
  p = os.path.join(workdir, "selftest.json")
  json.dump(cases, open(p, "w"))
  results, _ = fnspec.tlc.validate_shards(SPEC, [p], workdir, parallel=1)
  got = {r["i"]: sorted(r["c"]) for r in results}
  if got != want:
    raise fnspec.tlc.MachineryError("self-test: Trace_RenameChoices judged the corrupted/correct cases %r, "
                                    "expected %r" % (got, want))
  return recorded is not None


def _stats(files):
  tot = {}
  for f in files:
    for src, d in json.load(open(f + ".stats.json")).items():
      t = tot.setdefault(src, {})
      for k, v in d.items():
        t[k] = t.get(k, 0) + v
  return tot


def _names_in(inp):
  """The texts a rename could touch: cells / list elements of C and values of its filters' lists."""
  s = set()
  for c in inp["cells"]:
    if inp["typ"] == "Choice" and c["k"] == "s":
      s.add(c["s"])
    if inp["typ"] == "ChoiceList" and c["k"] == "l":
      s.update(a["s"] for a in c["l"] if a["k"] == "s")
  for f in inp["flt"]:
    for e in f["ents"]:
      if e["isl"]:
        s.update(a["s"] for a in e["vals"] if a["k"] == "s")
  return s


def _nontrivial(inp):
  present = _names_in(inp)
  return any(p["o"] != p["n"] and p["o"] in present for p in inp["map"])


def run(ctx):
  cfg = "%s_%s.cfg" % (MC, ctx.tier)
  inputs, model = fnspec.enumerate_inputs(MC, cfg, ctx.workdir)
  if len(inputs) != model["distinct"]:
    raise fnspec.tlc.MachineryError("TLC found %d distinct inputs but wrote %d" % (model["distinct"], len(inputs)))
  ctx.log("TLC enumerated %d inputs (%d distinct states) in %.1fs" % (len(inputs), model["distinct"], model["wall"]))
  rnd = random_inputs(ctx.seed, 2000 if ctx.quick else 40000)
  todo = inputs + rnd
  random.Random(39).shuffle(todo)          # spread the families evenly over the shards
  files = fnspec.run_cases(WORKER, todo, ctx.workdir, nshards=8 if ctx.quick else 16)
  failures, n, wall = fnspec.judge(SPEC, files, ctx.workdir)
  ctx.log("judged %d cases (%d enumerated, %d random) in %.1fs" % (n, len(inputs), len(rnd), wall))
  if n != len(todo):
    raise fnspec.tlc.MachineryError("recorded %d cases for %d inputs" % (n, len(todo)))
  with_recorded = _selftests(files, failures, ctx.workdir)

  stats = _stats(files)
  viol, classes = _cap(violations_of(failures))
  mid = len(inputs) // 2
  return {
    "states": model["distinct"] + n, "transitions": model["generated"] + n,
    "traces_validated_against_impl": n,
    "evaluations": n,
    "distinct_nontrivial": sum(1 for i in inputs if _nontrivial(i)),
    "rule": "TLC enumerates every (column type, cells, rename map, filters) input of the families of %s "
            "(choices a, b, c, d; all 125 maps over a, b, c incl. swaps, chains, cycles, merges, identity, a new "
            "name, plus maps naming an absent choice and the other dict order; Choice / ChoiceList columns of "
            "<= 3 rows over cells incl. '', None, a number, alt text, lists with duplicates; 0-2 filters of the "
            "column in included / excluded / empty form, a range-filter family, always one filter of a sibling "
            "column and one of a column 'C' of another table); one evaluation = one real RenameChoices user "
            "action (and its undo) judged by TLC; non-trivial = enumerated input in which a renamed choice "
            "(old # new) occurs in a cell of the column or in a list of one of its filters" % cfg,
    "samples": inputs[mid: mid + 3],
    "exhaustive": True,
    "assumptions": ["TLC", "harness/fn_renamechoices.py transcribes encoded cell values and json.loads-decoded "
                    "filter texts type-exactly into tokens; everything outside the column, its sibling column "
                    "and _grist_Filters is compared through CRC-32 digests (three per state, one of the whole "
                    "document for undo)",
                    "the document is set up with doc-action level ReplaceTableData (cells are stored raw, as "
                    "after loading a document), the `before` state is read back from the engine",
                    "a ChoiceList cell with a non-text element and a list element that the renaming made equal "
                    "to a formerly different element are left open by the property: both readings are admitted",
                    "the enumerated space is a union of fully enumerated families, not the full product; random "
                    "inputs (seeded; <= 6 rows, lists of <= 5, 16 odd choice names, maps of <= 4 entries, <= 3 "
                    "filters incl. both keys) are a sample"],
    "violations": viol,
    "extra": {"enumerated_inputs": len(inputs), "random_inputs": len(rnd),
              "enumerated_paths": stats.get("enum", {}), "random_paths": stats.get("rnd", {}),
              "violation_classes": classes, "selftest_with_recorded_case": with_recorded,
              "model_wall_s": round(model["wall"], 1), "judge_wall_s": round(wall, 1)},
  }


def replay(ctx, data):
  files = fnspec.run_cases(WORKER, [data["case"]["inp"]], ctx.workdir)
  failures, _, _ = fnspec.judge(SPEC, files, ctx.workdir)
  return {"violations": violations_of(failures)}
