"""C36 - page-tree indentation fixes always yield a valid tree (TreeView.tla)."""
import fnspec

LEVEL = "model_checking"


def run(ctx):
  cfg = "MC_TreeView_%s.cfg" % ctx.tier
  inputs, model = fnspec.enumerate_inputs("MC_TreeView", cfg, ctx.workdir)
  ctx.log("TLC enumerated %d inputs (%d distinct states)" % (len(inputs), model["distinct"]))
  files = fnspec.run_cases("fn_treeview.py", inputs, ctx.workdir)
  failures, n, wall = fnspec.judge("Trace_TreeView", files, ctx.workdir)
  # binding self-test: a corrupted recorded output must be rejected by the trace specification
  def mutate(case):
    case["inp"] = {"ind": [0, 2], "del": []}
    case["out"] = []
    case["exc"] = ""
    return case
  if not fnspec.mutation_selftest("Trace_TreeView", files[0], mutate, ctx.workdir):
    raise fnspec.tlc.MachineryError("self-test: corrupted case was accepted by Trace_TreeView")
  nontrivial = sum(1 for i in inputs if i["del"] and len(i["ind"]) > len(i["del"]))
  viol = [{"clause": c, "what": "fix_indents%r -> %r" % ((f["case"]["inp"],), f["case"]["out"]),
           "case": f["case"]} for f in failures for c in f["c"]]
  return {
    "states": model["distinct"] + n, "transitions": model["generated"] + n,
    "traces_validated_against_impl": n,
    "evaluations": n, "distinct_nontrivial": nontrivial,
    "rule": "TLC enumerates every indentation sequence within the bound of %s and every removal subset; "
            "non-trivial = at least one page removed and at least one page remaining" % cfg,
    "samples": inputs[len(inputs) // 2: len(inputs) // 2 + 3],
    "exhaustive": True,
    "assumptions": ["TLC", "harness/fn_treeview.py builds Item(id=position, indentation) records"],
    "violations": viol,
  }


def replay(ctx, data):
  files = fnspec.run_cases("fn_treeview.py", [data["case"]["inp"]], ctx.workdir)
  failures, n, _ = fnspec.judge("Trace_TreeView", files, ctx.workdir)
  return {"violations": [{"clause": c, "what": str(f["case"]), "case": f["case"]} for f in failures for c in f["c"]]}
