"""C05 - decided on the shared engine-history corpus by the C05.* clauses of spec/Trace_Doc.tla."""
from checks import _shared, _core

LEVEL = "model_checking"


def run(ctx):
  return _core.merge(ctx, _shared.run_clauses(ctx, "C05.", lambda e: e['tag'] == 'rebuild',
                             "every 5th bundle of every history a fresh engine loads the same metadata and data columns only and recalculates from scratch; clause C05.same: all projected cells (formula columns included) equal those of the incrementally maintained engine; formulas of the shared corpus are clean (no volatile or side-effecting functions)",
                             corpora=_shared.BOTH), "C05.")


def replay(ctx, data):
  if "core_chunk" in data:
    return _core.replay(ctx, data, "C05.")
  return _shared.replay_clause(ctx, data, "C05.")
