"""C26 - temporary (negative) row ids resolve consistently within a bundle (TempIds.tla).

S->C: TLC (MC_TempIds) enumerates every bundle of up to three record actions over its alphabet (adds
with ids -1, -2, None, an explicit free id; updates / removals addressing -1, -2 or an existing row;
Ref / RefList values using -1, -2; two tables that refer to each other) and writes them out;
harness/fn_tempids.py applies each bundle to the real engine; Trace_TempIds judges every recorded
outcome with TempIds!Clauses (C26.resolve, C26.ret, C26.reject, C26.raised).
C->S: seeded random bundles beyond the bound (2..7 actions, temporary ids -1..-4, bulk actions of up to
three records, varying documents) go through the same judge.
"""
import json
import os
import random
import time

import corpus
import fnspec
import tlc

LEVEL = "model_checking"
WORKER = "fn_tempids.py"
TRACE = "Trace_TempIds"
PAR = int(os.environ.get("VERIF_PAR", "16") or 16)
CLASSES = ("strict", "lenient", "open", "reject")


# ---------------------------------------------------------------------------------------------
# input generation beyond the TLC bound (enumeration/recording only; TLC judges)
# ---------------------------------------------------------------------------------------------
TARGET = {("A", "r"): "B", ("A", "rl"): "B", ("B", "r"): "A"}
POOL = (-1, -2, -3, -4)


def _random_doc(rnd):
  rows = {t: sorted(rnd.sample(range(1, 6), rnd.choice((0, 1, 2, 2, 3, 4)))) for t in ("A", "B")}
  doc = {}
  for t in ("A", "B"):
    other = rows["B" if t == "A" else "A"]
    out = []
    for rid in rows[t]:
      r = rnd.choice(other) if other and rnd.random() < 0.5 else (9 if rnd.random() < 0.05 else 0)
      rl = []
      if t == "A" and other and rnd.random() < 0.5:
        rl = rnd.sample(other, rnd.randint(1, min(3, len(other))))
      out.append({"id": rid, "s": 10 * rid + (1 if t == "A" else 2), "r": r, "rl": rl})
    doc[t] = out
  return doc


def random_bundles(seed, n):
  """Bundles aimed at bundles that resolve (most ids used were created before), with a share of
  uses of ids created later, in the other table, never, or removed again."""
  rnd = random.Random("C26-%d" % seed)
  out = []
  for _ in range(n):
    doc = _random_doc(rnd)
    live = {t: {r["id"] for r in doc[t]} for t in doc}       # rows a use may aim at (a guess)
    made = {"A": [], "B": []}                                 # temporary ids given to adds so far
    top = {t: max(live[t] or [0]) for t in doc}
    sloppy = rnd.random() < 0.25                              # this bundle may use ids nobody created
    acts = []
    value = 100

    def ref_value(t, col):
      tt = TARGET[(t, col)]
      x = rnd.random()
      if made[tt] and x < 0.6:
        return rnd.choice(made[tt])
      if x < 0.85 or not sloppy:
        return rnd.choice(sorted(live[tt]) + [0]) if rnd.random() < 0.9 else rnd.randint(1, 12)
      return rnd.choice(POOL)

    def payload(t, count, update):
      cols = ["r", "rl"] if t == "A" else ["r"]
      col = rnd.choice(cols + (["s"] if update else [""]))
      if col == "":
        return "", []
      if col == "s":
        return "s", [[value + 50 + j] for j in range(count)]
      if col == "r":
        return "r", [[ref_value(t, "r")] for _ in range(count)]
      return "rl", [[ref_value(t, "rl") for _ in range(rnd.choice((0, 1, 1, 2, 2, 3)))] for _ in range(count)]

    def address(t, count):
      ids = []
      for _ in range(count):
        for _try in range(4):
          x = rnd.random()
          if made[t] and x < 0.55:
            i = rnd.choice(made[t])
          elif live[t] and (x < 0.9 or not sloppy):
            i = rnd.choice(sorted(live[t]))
          elif x < 0.95:
            i = rnd.choice(POOL)
          else:
            i = rnd.randint(1, 12)
          if i not in ids or (sloppy and rnd.random() < 0.2):
            break
        ids.append(i)
      return ids

    def can_address(t):
      return sloppy or made[t] or live[t]

    for _a in range(rnd.randint(2, 7)):
      t = rnd.choice(("A", "B"))
      kind = rnd.choice(("Add",) * 7 + ("BulkAdd",) * 4 + ("Upd",) * 4 + ("BulkUpd",) * 2 +
                        ("Rem",) * 2 + ("BulkRem",))
      value += 100
      if kind not in ("Add", "BulkAdd") and not can_address(t):
        kind = "Add"
      if kind in ("Add", "BulkAdd"):
        count = 1 if kind == "Add" else rnd.choice((1, 2, 2, 3))
        ids = []
        for _j in range(count):
          x = rnd.random()
          if x < 0.65:
            free = [i for i in POOL if i not in ids]
            ids.append(rnd.choice(free if free and rnd.random() < 0.9 else POOL))
          elif x < 0.9:
            ids.append(0)
          else:
            ids.append(max([top[t]] + [i for i in ids if i > 0]) + rnd.choice((9, 10, 12)))
        col, vals = payload(t, count, False)
        acts.append({"k": kind, "t": t, "ids": ids, "s": [value + j for j in range(count)],
                     "col": col, "vals": vals})
        made[t].extend(i for i in ids if i < 0)
        top[t] = max([top[t]] + [i for i in ids if i > 0])
        live[t] |= {i for i in ids if i > 0}
      elif kind in ("Upd", "BulkUpd"):
        count = 1 if kind == "Upd" else rnd.choice((1, 2, 2, 3))
        ids = address(t, count)
        col, vals = payload(t, count, True)
        acts.append({"k": kind, "t": t, "ids": ids, "s": [], "col": col, "vals": vals})
      else:
        count = 1 if kind == "Rem" else rnd.choice((1, 2, 2, 3))
        ids = address(t, count)
        acts.append({"k": kind, "t": t, "ids": ids, "s": [], "col": "", "vals": []})
        live[t] -= set(ids)
        if rnd.random() < 0.7:
          made[t] = [i for i in made[t] if i not in ids]
    out.append({"doc": doc, "acts": acts})
  return out


# ---------------------------------------------------------------------------------------------
# running the engine and judging (TLC)
# ---------------------------------------------------------------------------------------------
def run_engine(inp_file, n_inputs, workdir, tag, fresh=False):
  # one engine worker and one judging JVM per shard; a JVM costs seconds to start, so few, large shards
  nshards = max(1, min(PAR, n_inputs // 2500))
  args = [{"inp": inp_file, "out": os.path.join(workdir, "%s-%02d.json" % (tag, i)),
           "take": [i, nshards], "fresh": fresh} for i in range(nshards)]
  corpus.run_workers(WORKER, args, parallel=PAR)
  return [a["out"] for a in args]


def _show_action(a):
  name = {"Add": "AddRecord", "BulkAdd": "BulkAddRecord", "Upd": "UpdateRecord",
          "BulkUpd": "BulkUpdateRecord", "Rem": "RemoveRecord", "BulkRem": "BulkRemoveRecord"}[a["k"]]
  ids = [("None" if (i == 0 and a["k"] in ("Add", "BulkAdd")) else str(i)) for i in a["ids"]]
  txt = "%s %s [%s]" % (name, a["t"], ",".join(ids))
  if a["col"]:
    col = {"A": {"s": "v", "r": "r", "rl": "rl"}, "B": {"s": "w", "r": "back"}}[a["t"]][a["col"]]
    vals = [v if a["col"] == "rl" else v[0] for v in a["vals"]]
    txt += " %s=%s" % (col, json.dumps(vals, separators=(",", ":")))
  return txt


def _what(case):
  ob = case["out"]
  res = ("raised %s" % ob["exc"]) if ob["exc"] else \
        "returned %s" % json.dumps([r["ids"] if r["k"] == "ids" else r["k"] for r in ob["rets"]],
                                   separators=(",", ":"))
  rows = {t: [[r["id"], r["r"]] + ([r["rl"]] if t == "A" else []) for r in ob["after"][t]] for t in ("A", "B")}
  return "%s -> %s; %s; rows [id, ref(, reflist)] now %s" % (
    " ; ".join(_show_action(a) for a in case["inp"]["acts"]), res,
    "document unchanged" if ob["dig0"] == ob["dig1"] else "document changed",
    json.dumps(rows, separators=(",", ":")))


def judge(files, workdir, stats=True):
  """Run Trace_TempIds over the case files.
  Returns (violations, n_cases, class counts per file, wall)."""
  old = os.environ.get("TEMPIDS_STATS")
  if stats:
    os.environ["TEMPIDS_STATS"] = "1"
  else:
    os.environ.pop("TEMPIDS_STATS", None)
  try:
    _res, wall = tlc.validate_shards(TRACE, files, workdir, parallel=PAR, xmx="3g")
  finally:
    if old is None:
      os.environ.pop("TEMPIDS_STATS", None)
    else:
      os.environ["TEMPIDS_STATS"] = old
  viol, seen, n, counts = [], set(), 0, {}
  for f in files:
    cases = json.load(open(f))
    n += len(cases)
    for b in json.load(open(f + ".verdict.json")):
      if b["i"] == 0:
        counts[f] = dict(zip(CLASSES, b["n"]))
        continue
      case = cases[b["i"] - 1]
      for clause in sorted(b["c"]):
        key = (clause, json.dumps(case["inp"], sort_keys=True))
        if key in seen:
          continue
        seen.add(key)
        viol.append({"clause": clause, "what": _what(case), "case": case})
  return viol, n, counts, wall


def _selftest(files, viol, workdir):
  """The binding: (1) take a recorded bundle that the trace specification accepted in which a new row
  refers to a row a temporary id stands for, put the temporary id's row out of that cell (0) and
  require that the trace specification now rejects the record; (2) take an accepted rejection of a
  negative id nobody creates, pretend the document changed, and require rejection of the record."""
  failing = {json.dumps(v["case"]["inp"], sort_keys=True) for v in viol}
  served = rejected = None
  for f in files:
    for c in json.load(open(f)):
      if json.dumps(c["inp"], sort_keys=True) in failing:
        continue
      ob, acts = c["out"], c["inp"]["acts"]
      if served is None and not ob["exc"] and len(acts) == 2 and acts[0]["k"] == "Add" and \
         acts[0]["ids"][0] < 0 and acts[1]["k"] == "Add" and acts[1]["col"] == "r" and \
         acts[1]["vals"] == [[acts[0]["ids"][0]]] and acts[1]["t"] != acts[0]["t"] and \
         acts[1]["ids"][0] <= 0 and not any(a["k"] in ("Rem", "BulkRem") for a in acts):
        served = c
      if rejected is None and ob["exc"] == "ValueError" and len(acts) == 1 and acts[0]["col"] == "r" and \
         acts[0]["vals"][0][0] < 0 and ob["dig0"] == ob["dig1"]:
        rejected = c
      if served and rejected:
        break
    if served and rejected:
      break
  synthetic = served is None or rejected is None
  if synthetic:
    # nothing suitable was served / rejected correctly (a badly broken tree): synthetic records
    doc = {"A": [{"id": 1, "s": 11, "r": 0, "rl": []}], "B": [{"id": 1, "s": 21, "r": 0, "rl": []}]}
    add_b = {"k": "Add", "t": "B", "ids": [-1], "s": [100], "col": "", "vals": []}
    add_a = {"k": "Add", "t": "A", "ids": [0], "s": [200], "col": "r", "vals": [[-1]]}
    after = {"A": doc["A"] + [{"id": 2, "s": 200, "r": 2, "rl": []}],
             "B": doc["B"] + [{"id": 2, "s": 100, "r": 0, "rl": []}]}
    served = served or {"inp": {"doc": doc, "acts": [add_b, add_a]}, "exc": "",
                        "out": {"exc": "", "rets": [{"k": "ids", "ids": [2]}, {"k": "ids", "ids": [2]}],
                                "after": after, "dig0": 1, "dig1": 2}}
    rejected = rejected or {"inp": {"doc": doc, "acts": [add_a]}, "exc": "",
                            "out": {"exc": "ValueError", "rets": [], "after": doc, "dig0": 1, "dig1": 1}}

  def lose_row(case):
    acts, ob = case["inp"]["acts"], case["out"]
    new_id = ob["rets"][1]["ids"][0]
    for row in ob["after"][acts[1]["t"]]:
      if row["id"] == new_id:
        row["r"] = 0
    return case

  def leave_trace(case):
    case["out"]["dig1"] = (case["out"]["dig0"] + 1) & 0x3fffffff
    return case

  for name, base, mutate in (("served", served, lose_row), ("rejected", rejected, leave_trace)):
    p = os.path.join(workdir, "selftest-%s.json" % name)
    json.dump([base], open(p, "w"))
    os.environ.pop("TEMPIDS_STATS", None)
    if synthetic:      # (recorded cases were accepted in the main run already)
      results, _ = tlc.validate_shards(TRACE, [p], workdir, parallel=1, xmx="1g")
      if results:
        raise tlc.MachineryError("self-test: the unmodified %s record is not accepted by %s: %s"
                                 % (name, TRACE, results))
    if not fnspec.mutation_selftest(TRACE, p, mutate, workdir):
      raise tlc.MachineryError("self-test: a corrupted %s record was accepted by %s" % (name, TRACE))


def _confirm(viol, workdir):
  """Violations are reported from a fresh engine per bundle (the bulk runs reuse engines)."""
  if not viol:
    return [], 0
  inputs, seen = [], set()
  for v in viol:
    key = json.dumps(v["case"]["inp"], sort_keys=True)
    if key not in seen:
      seen.add(key)
      inputs.append(v["case"]["inp"])
  p = os.path.join(workdir, "confirm-inputs.json")
  json.dump(inputs, open(p, "w"))
  files = run_engine(p, len(inputs), workdir, "confirm", fresh=True)
  again, _n, _c, _w = judge(files, workdir, stats=False)
  before = {(v["clause"], json.dumps(v["case"]["inp"], sort_keys=True)) for v in viol}
  after = {(v["clause"], json.dumps(v["case"]["inp"], sort_keys=True)) for v in again}
  return again, len(before ^ after)


def run(ctx):
  cfg = "MC_TempIds_%s.cfg" % ctx.tier
  t0 = time.time()
  space, model = fnspec.enumerate_inputs("MC_TempIds", cfg, ctx.workdir, workers=PAR)
  n_enum = len(space["bundles"])
  ctx.log("TLC enumerated %d bundles over an alphabet of %d actions (%d distinct states) in %.1fs"
          % (n_enum, len(space["alphabet"]), model["distinct"], time.time() - t0))
  enum_file = os.path.join(ctx.workdir, "inputs-%s.json" % os.path.basename(cfg))
  extra = random_bundles(ctx.seed, 3000 if ctx.quick else 40000)
  rand_file = os.path.join(ctx.workdir, "inputs-random.json")
  json.dump(extra, open(rand_file, "w"))
  t0 = time.time()
  files_e = run_engine(enum_file, n_enum, ctx.workdir, "enum")
  files_r = run_engine(rand_file, len(extra), ctx.workdir, "rand")
  ctx.log("the real engine ran %d bundles in %.1fs" % (n_enum + len(extra), time.time() - t0))
  files = files_e + files_r
  viol, n, counts, wall = judge(files, ctx.workdir)
  ctx.log("TLC judged %d bundles in %.1fs" % (n, wall))
  viol, unstable = _confirm(viol, ctx.workdir)
  if unstable:
    ctx.log("%d verdicts differ between a reused and a fresh engine" % unstable)
  _selftest(files, viol, ctx.workdir)

  def total(fs):
    return {k: sum(counts.get(f, {}).get(k, 0) for f in fs) for k in CLASSES}
  cls_e, cls_r = total(files_e), total(files_r)
  outcomes = {}
  samples = []
  for f in files:
    for c in json.load(open(f)):
      key = c["out"]["exc"] or "served"
      outcomes[key] = outcomes.get(key, 0) + 1
      if len(samples) < 2 and not c["out"]["exc"] and len(c["inp"]["acts"]) == 3:
        samples.append({"bundle": [_show_action(a) for a in c["inp"]["acts"]],
                        "returned": [r["ids"] for r in c["out"]["rets"]], "after": c["out"]["after"]})
  return {
    "states": model["distinct"] + n, "transitions": model["generated"] + n,
    "traces_validated_against_impl": n,
    "evaluations": n,
    "distinct_nontrivial": cls_e["strict"] + cls_e["lenient"] + cls_e["reject"] +
                           cls_r["strict"] + cls_r["lenient"] + cls_r["reject"],
    "rule": "TLC enumerates every bundle of 1..3 actions over the alphabet of %s (%d actions; MustReject "
            "bundles of 3 actions only where the last action is the one to be rejected) plus %d seeded random "
            "bundles of 2..7 actions; an evaluation is one bundle applied to the real engine and judged by "
            "TempIds!Clauses; non-trivial = the specification demands something of the bundle: it must be "
            "served with the document of the reference interpretation (strict, lenient) or rejected without "
            "a trace (reject); bundles of class open (forward references, Update/Remove of ids that do not "
            "resolve, explicit ids that clash) are run and recorded but nothing is demanded of them"
            % (cfg, len(space["alphabet"]), len(extra)),
    "samples": samples,
    "exhaustive": True,
    "assumptions": ["TLC",
                    "harness/fn_tempids.py prepares tables A and B at doc-action level (remove all rows, "
                    "add the rows of the input) on an engine reused for 300 bundles, and records retValues, "
                    "all rows and cells of A and B and a digest of the whole document; every violation is "
                    "re-run on a fresh engine before it is reported",
                    "which row ids the adds allocate is C27's subject: the document is judged relative to "
                    "the ids the adds returned, which only have to be fresh rows",
                    "the property is silent on forward references (a negative reference id that only a "
                    "later add creates), on Update/Remove of a negative id no earlier add created, on rows "
                    "addressed twice or no longer existing, and on explicit ids that clash: class open, "
                    "nothing demanded; re-use of a temporary id follows update_new_rows_map's docstring "
                    "(the later add wins)"],
    "violations": viol,
    "extra": {"bundles_enumerated": n_enum, "bundles_random": len(extra),
              "classes_enumerated": cls_e, "classes_random": cls_r,
              "observed_outcomes": outcomes, "verdicts_unstable_on_fresh_engine": unstable},
  }


def replay(ctx, data):
  p = os.path.join(ctx.workdir, "replay-input.json")
  json.dump([data["case"]["inp"]], open(p, "w"))
  files = run_engine(p, 1, ctx.workdir, "replay", fresh=True)
  viol, _n, _c, _w = judge(files, ctx.workdir, stats=False)
  return {"violations": viol}


MATCHERS = {}
