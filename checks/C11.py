"""C11 - decided on the metadata-heavy engine-history corpus by the C11.* clauses of spec/Trace_Doc.tla."""
from checks import _shared, _core
import shared

LEVEL = "model_checking"


def run(ctx):
  return _core.merge(ctx, _shared.run_clauses(ctx, "C11.", lambda e: e['k'] == 'B' and e['n_twoway'] > 0,
                             "after every successful call on documents with two-way linked columns: the link is mutual and row a refers to row b exactly when b refers to a (Meta!TwoWayViolations); rejected changes are judged by the C04 clauses", name="meta", plan=shared.PLAN_META), "C11.")


def replay(ctx, data):
  if "core_chunk" in data:
    return _core.replay(ctx, data, "C11.")
  return _shared.replay_clause(ctx, data, "C11.")
