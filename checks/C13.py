"""C13 - lookupRecords / lookupOne return exactly the matching rows in the documented order, after
arbitrary edit histories (Lookup.tla).

S->C: TLC (MC_Lookup) walks the stored table through every edit history of its families (key / sort /
CONTAINS / reference / multi-cell / schema edits), checks on every node that the relation is
satisfiable and the order total, and writes the maximal histories out; harness/fn_lookup.py runs them
on the real engine with an observer table whose formula columns call T.lookupRecords / T.lookupOne,
recording the observer cells and the stored table after the load and after EVERY edit;
Trace_Lookup judges every recorded step with Lookup!Clauses (and checks that the engine's table is the
one the design model predicts).  C->S: seeded random longer histories on larger tables with random
observers (keys, CONTAINS, order_by tuples, sort_by, lookupOne) go through the same judge.
"""
import json
import os
import random
import resource
import time

import corpus
import fnspec
import tlc

LEVEL = "model_checking"
MC = "MC_Lookup"
TRACE = "Trace_Lookup"
WORKER = "fn_lookup.py"


# ---------------------------------------------------------------------------------------------
# values and edits (input construction only; the same shapes as Lookup.tla)
# ---------------------------------------------------------------------------------------------
def _v(k, n=0, s="", l=()):
  return {"k": k, "n": n, "s": s, "l": list(l)}


NONE = _v("z")
def I(x): return _v("i", 2 * x)
def F2(n2): return _v("f", n2)
def B(b): return _v("b", 2 if b else 0)
def S(s): return _v("s", 0, s)
def L(*xs): return _v("l", 0, "", [S(x) for x in xs])


def E(op, row=0, col="", val=None, col2="", val2=None, cells=(), rows=(), ids=()):
  return {"op": op, "row": row, "col": col, "val": val or NONE, "col2": col2, "val2": val2 or NONE,
          "cells": list(cells), "rows": list(rows), "ids": list(ids)}


TEXTS = ["", "1", "1.5", "2", "a", "b", "x"]
KVALS = [I(1), I(1), I(2), I(2), I(3), I(0), NONE, S("x")]
LVALS = [NONE, L("a"), L("a", "b"), L("b"), L("b", "a"), L("x"), L("a", "b", "x")]
S1VALS = [NONE, I(1), I(2), I(3)]
S2VALS = [S(t) for t in TEXTS] + [NONE]
RVALS = [I(0), I(1), I(2), I(3)]
QVALS = [I(0), I(1), I(2), I(3), F2(2), F2(3), F2(4), B(True), B(False), NONE] + [S(t) for t in TEXTS]
COLVALS = {"k": KVALS, "L": LVALS, "s1": S1VALS, "s2": S2VALS, "r": RVALS}


def _stored_s1(v, ty):
  """An s1 value as a column of type `ty` stores it (Int <-> Numeric)."""
  if v["k"] == "i" and ty == "Numeric":
    return F2(v["n"])
  return v


def random_observer(rnd):
  cols = [("k", "eq"), ("k", "eq"), ("L", "in"), ("L", "inme"), ("r", "eq"), ("s2", "eq"), ("s1", "eq")]
  first = rnd.choice(cols)
  keys = [first]
  if rnd.random() < 0.25:
    second = rnd.choice([c for c in cols if c[0] != first[0]])
    keys.append(second)
  out = []
  for n, (col, how) in enumerate(sorted(keys)):
    src = "q" if n == 0 else "p"
    if col == "r" and rnd.random() < 0.7:
      src = "id"
    me = rnd.choice([S(""), S(""), S("a"), NONE, I(0)]) if how == "inme" else NONE
    out.append({"col": col, "how": how, "src": src, "me": me})
  mode = rnd.choice(["default", "sort_by", "order_by", "order_by", "order_by"])
  ord_cols = rnd.sample(["s1", "s2", "manualSort", "id"], rnd.choice((1, 1, 2, 2, 3)))
  ord_ = [{"c": c, "desc": rnd.random() < 0.45} for c in ord_cols]
  if mode == "default":
    ord_ = []
  elif mode == "sort_by":
    ord_ = ord_[:1]
  elif rnd.random() < 0.1:
    ord_ = []                       # order_by=None
  return {"one": rnd.random() < 0.25, "keys": out, "mode": mode, "ord": ord_}


def random_histories(seed, n_hist, n_sets, ox0):
  """n_sets random observer lists and n_hist random histories (spread over them), beyond the bound of
  the design model: up to 6 rows, up to 9 edits, every kind of edit, probes over the whole universe."""
  rnd = random.Random("C13-%d" % seed)
  obsets = [[random_observer(rnd) for _ in range(8)] for _ in range(n_sets)]
  hist = []
  for hno in range(n_hist):
    ox = ox0 + 1 + hno % n_sets
    nprobes = rnd.choice((4, 5, 6))
    probes = [{"id": i + 1, "q": rnd.choice(QVALS), "p": rnd.choice(QVALS)} for i in range(nprobes)]
    schema = rnd.random() < 0.12          # retype / ReplaceTableData only in a few histories
    ty = "Int"

    def content():
      return {"k": rnd.choice(KVALS), "L": rnd.choice(LVALS), "s1": _stored_s1(rnd.choice(S1VALS), ty),
              "s2": rnd.choice(S2VALS), "r": rnd.choice(RVALS)}
    init = [content() for _ in range(rnd.choice((0, 1, 2, 3, 3, 4)))]
    ids = list(range(1, len(init) + 1))
    snaps = [([], "Int"), (list(ids), "Int")]
    edits = []
    for _ in range(rnd.choice((3, 5, 7, 9))):
      x = rnd.random()
      e = None
      if x < 0.30 and ids:
        c = rnd.choice(("k", "k", "L", "s1", "s1", "s2", "r"))
        v = rnd.choice(COLVALS[c])
        e = E("upd", row=rnd.choice(ids), col=c, val=_stored_s1(v, ty) if c == "s1" else v)
      elif x < 0.40 and ids:
        c1, c2 = rnd.sample(("k", "L", "s1", "s2", "r"), 2)
        v1, v2 = rnd.choice(COLVALS[c1]), rnd.choice(COLVALS[c2])
        e = E("upd2", row=rnd.choice(ids), col=c1, val=_stored_s1(v1, ty) if c1 == "s1" else v1,
              col2=c2, val2=_stored_s1(v2, ty) if c2 == "s1" else v2)
      elif x < 0.48 and len(ids) >= 2:
        sub = rnd.sample(ids, rnd.randint(2, min(4, len(ids))))
        c = rnd.choice(("k", "k", "s1", "L"))
        e = E("bupd", col=c, ids=sub,
              cells=[_stored_s1(rnd.choice(COLVALS[c]), ty) if c == "s1" else rnd.choice(COLVALS[c]) for _ in sub])
      elif x < 0.60 and len(ids) < 6:
        e = E("add", rows=[content() for _ in range(rnd.choice((1, 1, 2)))][:6 - len(ids)])
        top = max(ids or [0])
        ids = ids + [top + 1 + j for j in range(len(e["rows"]))]
      elif x < 0.70 and ids:
        sub = rnd.sample(ids, rnd.choice((1, 1, 2)) if len(ids) >= 2 else 1)
        e = E("rem", ids=sub)
        ids = [i for i in ids if i not in sub]
      elif x < 0.80 and len(ids) >= 2:
        a = rnd.choice(ids)
        e = E("mv", row=a, val=I(rnd.choice([i for i in ids if i != a] + [0])))
      elif x < 0.86 and edits and edits[-1]["op"] != "retype":
        # (undoing a type change is left out: it restores the type but not the stored numbers - C01)
        e = E("undo")
        ids, ty = list(snaps[-2][0]), snaps[-2][1]
      elif x < 0.92:
        e = E("probe", row=rnd.randint(1, nprobes), col=rnd.choice(("q", "q", "p")), val=rnd.choice(QVALS))
      elif x < 0.94:
        e = E("reobs")
      elif x < 0.97 and schema:
        ty = "Numeric" if ty == "Int" else "Int"
        e = E("retype", col="s1", val=S(ty))
      elif schema and ids:
        new_ids = rnd.sample(range(1, 7), rnd.randint(0, 3))
        e = E("repl", ids=new_ids, rows=[content() for _ in new_ids])
        ids = sorted(new_ids)
      if e is None:
        continue
      edits.append(e)
      snaps.append((list(ids), ty))
    hist.append({"fam": "random", "ox": ox, "probes": probes, "init": init, "edits": edits})
  return obsets, hist


# ---------------------------------------------------------------------------------------------
# running the engine and the judge
# ---------------------------------------------------------------------------------------------
def _sort_key(h):
  return (h["ox"], json.dumps([h["probes"], h["init"], h["edits"]], sort_keys=True))


def _cost(h):
  """Rough relative engine cost of a history (only used to cut shards of similar duration)."""
  c = 8 + 4 * len(h["edits"])
  if any(e["op"] in ("retype", "repl") for e in h["edits"]) or h.get("session"):
    c += 40                      # the worker builds a new engine afterwards
  return c * (2 if h.get("fam") == "random" else 1)


def execute(obsets, hist, workdir, nshards, tag="cases", fresh=False):
  """Histories in lexicographic order (so that neighbours share prefixes), cut into contiguous shards
  of similar estimated cost."""
  hist = sorted(hist, key=_sort_key)
  nshards = max(1, min(nshards, len(hist)))
  total = sum(_cost(h) for h in hist)
  parts, cur, acc = [], [], 0
  for h in hist:
    cur.append(h)
    acc += _cost(h)
    if acc >= total * (len(parts) + 1) / nshards and len(parts) < nshards - 1:
      parts.append(cur)
      cur = []
  if cur:
    parts.append(cur)
  args = []
  for i, part in enumerate(parts):
    inp = os.path.join(workdir, "%s-in-%02d.json" % (tag, i))
    json.dump({"obsets": obsets, "hist": part}, open(inp, "w"))
    args.append({"inp": inp, "out": os.path.join(workdir, "%s-%02d.json" % (tag, i)), "fresh": fresh})
  corpus.run_workers(WORKER, args)
  return [a["out"] for a in args]


def _fmt(v):
  k = v["k"]
  if k == "z":
    return "None"
  if k == "i":
    return str(v["n"] // 2)
  if k == "f":
    return repr(v["n"] / 2.0)
  if k == "b":
    return "True" if v["n"] else "False"
  if k in ("s", "a"):
    return repr(v["s"])
  if k == "l":
    return "[" + ", ".join(_fmt(x) for x in v["l"]) + "]"
  return "<?>"


def _formula(obs):
  args = []
  for key in obs["keys"]:
    expr = {"q": "$q", "p": "$p", "id": "$id"}[key["src"]]
    if key["how"] == "in":
      expr = "CONTAINS(%s)" % expr
    elif key["how"] == "inme":
      expr = "CONTAINS(%s, match_empty=%s)" % (expr, _fmt(key["me"]))
    args.append("%s=%s" % (key["col"], expr))
  toks = [("-" if o["desc"] else "") + o["c"] for o in obs["ord"]]
  if obs["mode"] == "order_by":
    args.append("order_by=" + repr(None if not toks else toks[0] if len(toks) == 1 else tuple(toks)))
  elif obs["mode"] == "sort_by":
    args.append("sort_by=" + repr(toks[0]))
  return ("T.lookupOne(%s).id" if obs["one"] else "[r.id for r in T.lookupRecords(%s)]") % ", ".join(args)


def _fmt_edit(e):
  op = e["op"]
  if op == "upd":
    return "UpdateRecord T %d {%s: %s}" % (e["row"], e["col"], _fmt(e["val"]))
  if op == "upd2":
    return "UpdateRecord T %d {%s: %s, %s: %s}" % (e["row"], e["col"], _fmt(e["val"]), e["col2"], _fmt(e["val2"]))
  if op == "bupd":
    return "BulkUpdateRecord T %s {%s: [%s]}" % (e["ids"], e["col"], ", ".join(_fmt(v) for v in e["cells"]))
  if op in ("add", "repl"):
    rows = "; ".join(", ".join("%s=%s" % (c, _fmt(r[c])) for c in ("k", "L", "s1", "s2", "r")) for r in e["rows"])
    return ("AddRecord T (%s)" % rows) if op == "add" else "ReplaceTableData T %s (%s)" % (e["ids"], rows)
  if op == "rem":
    return "RemoveRecord T %s" % e["ids"]
  if op == "mv":
    b = e["val"]["n"] // 2
    return "move row %d %s" % (e["row"], "before row %d" % b if b else "to the end")
  if op == "retype":
    return "ModifyColumn T.%s type=%s" % (e["col"], e["val"]["s"])
  if op == "probe":
    return "UpdateRecord O %d {%s: %s}" % (e["row"], e["col"], _fmt(e["val"]))
  return {"undo": "undo of the previous action", "reobs": "observer formulas re-entered"}.get(op, op)


def _what(case, n, j, p, tags):
  inp, ob = case["inp"], case["out"][n]
  obs = inp["obs"][j - 1]
  rows = "; ".join("#%d pos%d " % (r["id"], r["pos"]) +
                   ", ".join("%s=%s" % (c, _fmt(r[c])) for c in ("k", "L", "s1", "s2", "r")) for r in ob["rows"])
  probe = ob["probes"][p - 1]
  err = [e["e"] for e in ob["errs"] if e["j"] == j and e["i"] == p]
  got = ("raised %s" % err[0]) if err else str(ob["cells"][j - 1][p - 1])
  load = "; ".join(", ".join("%s=%s" % (c, _fmt(r[c])) for c in ("k", "L", "s1", "s2", "r")) for r in inp["init"])
  return "%s with $q=%s $p=%s $id=%d gave %s on T {%s} (s1 is %s) after: load (%s)%s%s" % (
    _formula(obs), _fmt(probe["q"]), _fmt(probe["p"]), probe["id"], got, rows, ob["ty"]["s1"], load,
    "".join("; " + _fmt_edit(e) for e in inp["edits"][:n]), (" [fits: %s]" % ", ".join(tags)) if tags else "")


def judge(files, workdir, parallel=16):
  """Trace_Lookup over the case files -> (entries, wall); an entry is one failing (case, step, observer,
  probe) with its clauses and diagnostic tags, the case cut after the failing step."""
  verdicts, wall = tlc.validate_shards(TRACE, files, workdir, parallel=parallel, xmx="2g")
  entries = []
  for f in files:
    vf = f + ".verdict.json"
    bad = json.load(open(vf))
    if not bad:
      continue
    data = json.load(open(f))
    for b in bad:
      case = data["cases"][b["i"] - 1]
      for d in b["d"]:
        entries.append({"file": f, "i": b["i"], "n": d["n"], "j": d["j"], "p": d["p"], "c": sorted(d["c"]),
                        "t": sorted(d["t"]), "case": case, "obs": data["obsets"][case["inp"]["ox"] - 1]})
  return entries, wall


def _cut(entry):
  """The failing step and what led to it: a case that can be replayed on its own."""
  case, n = entry["case"], entry["n"]
  inp = dict(case["inp"], edits=case["inp"]["edits"][:n], obs=entry["obs"], ox=1)
  return {"inp": inp, "out": case["out"][:n + 1], "exc": case["exc"]}


def violations_of(entries):
  """One violation per (cut history, clause): the first failing observer/probe of the earliest failing
  step; `others` counts the further failing cells of that step."""
  for e in entries:
    if "C13.premise" in e["c"] or "C13.undecidable" in e["c"]:
      raise tlc.MachineryError(
        "%s at step %d of %s (observer %d, probe %d): the engine's table is not the modelled one / the "
        "recorded values leave the modelled universe" % (e["c"], e["n"], json.dumps(e["case"]["inp"])[:1500],
                                                         e["j"], e["p"]))
  first = {}
  for e in entries:
    for clause in e["c"]:
      key = (e["file"], e["i"], clause)
      cur = first.get(key)
      if cur is None or (e["n"], e["j"], e["p"]) < (cur["n"], cur["j"], cur["p"]):
        first[key] = e
  viol, seen = [], set()
  for (f, i, clause), e in sorted(first.items(), key=lambda kv: (kv[0][2], kv[1]["n"], kv[0][0], kv[0][1])):
    if clause == "C13.raised":
      case = {"inp": dict(e["case"]["inp"], obs=e["obs"], ox=1), "out": e["case"]["out"], "exc": e["case"]["exc"]}
      viol.append({"clause": clause, "step": e["n"], "obs": 0, "probe": 0, "tags": [], "case": case,
                   "what": "edit %d raised %s: %s" % (len(case["out"]), case["exc"],
                                                      "; ".join(_fmt_edit(x) for x in case["inp"]["edits"]))})
      continue
    case = _cut(e)
    key = (clause, json.dumps(case["inp"], sort_keys=True))
    if key in seen:
      continue
    seen.add(key)
    viol.append({"clause": clause, "step": e["n"], "obs": e["j"], "probe": e["p"], "tags": e["t"], "case": case,
                 "what": _what(case, e["n"], e["j"], e["p"], e["t"]),
                 "src": [f, i]})
  return viol


def _known(v):
  return tuple(n for n, fn in sorted(MATCHERS.items()) if fn(v))


def _cap(viol, per_class=25):
  classes = {}
  for v in viol:
    classes.setdefault((v["clause"], _known(v)), []).append(v)
  kept = []
  for key in sorted(classes):
    vs = sorted(classes[key], key=lambda v: (len(v["case"]["inp"]["edits"]), len(json.dumps(v["case"]["inp"]))))
    kept.extend(vs[:per_class])
  return kept, {"%s%s" % (k[0], "/" + ",".join(k[1]) if k[1] else ""): len(v) for k, v in classes.items()}


def _strip(v):
  return {k: x for k, x in v.items() if k != "src"}


def isolate(viol, workdir, limit=40):
  """Violations that no known class explains are run again, each in an engine of its own.  If the
  history fails there too, that record is reported; otherwise the violation depends on the earlier
  histories of its engine and the whole session is attached to the case (replay runs it)."""
  todo = [v for v in viol if not _known(v) and v["clause"] != "C13.raised"][:limit]
  if not todo:
    return viol
  d = os.path.join(workdir, "isolate")
  os.makedirs(d, exist_ok=True)
  files = []
  for n, v in enumerate(todo):
    inp = os.path.join(d, "in-%03d.json" % n)
    json.dump({"obsets": [v["case"]["inp"]["obs"]], "hist": [dict(v["case"]["inp"], session=[])]}, open(inp, "w"))
    files.append({"inp": inp, "out": os.path.join(d, "case-%03d.json" % n), "fresh": True})
  corpus.run_workers(WORKER, files)
  entries, _ = judge([a["out"] for a in files], d)
  again = {}
  for v2 in violations_of(entries):
    again.setdefault(json.dumps(v2["case"]["inp"]["edits"], sort_keys=True) +
                     json.dumps(v2["case"]["inp"]["init"], sort_keys=True), []).append(v2)
  out = [v for v in viol if v not in todo]
  for v in todo:
    key = json.dumps(v["case"]["inp"]["edits"], sort_keys=True) + json.dumps(v["case"]["inp"]["init"], sort_keys=True)
    same = [v2 for v2 in again.get(key, []) if v2["clause"] == v["clause"]]
    if same:
      out.append(same[0])
      continue
    # not reproduced alone: attach the histories that ran before it in the same engine
    f, i = v["src"]
    data = json.load(open(f))
    s0 = data["cases"][i - 1].get("s0", 1)
    before = [c["inp"] for c in data["cases"][s0 - 1:i - 1]]
    v = dict(v, what="(only after %d earlier histories in the same engine) %s" % (len(before), v["what"]))
    v["case"] = dict(v["case"], inp=dict(v["case"]["inp"], session=before))
    out.append(v)
  return out


def _synthetic():
  """T = {#1 k=1 s1=2, #2 k=1 s1=1}; observers order_by='-s1' and lookupOne(order_by='s1'); probe q=1."""
  key = [{"col": "k", "how": "eq", "src": "q", "me": NONE}]
  obs = [{"one": False, "keys": key, "mode": "order_by", "ord": [{"c": "s1", "desc": True}]},
         {"one": True, "keys": key, "mode": "order_by", "ord": [{"c": "s1", "desc": False}]}]
  content = lambda s1: {"k": I(1), "L": NONE, "s1": I(s1), "s2": S("a"), "r": I(0)}
  probes = [{"id": 1, "q": I(1), "p": I(1)}]
  rows = [dict(content(2), id=1, pos=1), dict(content(1), id=2, pos=2)]
  step = {"ty": {"k": "Int", "L": "ChoiceList", "s1": "Int", "s2": "Text", "r": "Ref"}, "rows": rows,
          "probes": probes, "cells": [[[1, 2]], [[2]]], "errs": [], "di": 0, "dn": 0}
  case = {"inp": {"fam": "synthetic", "ox": 1, "probes": probes, "init": [content(2), content(1)], "edits": [],
                  "session": []}, "out": [step], "from": 0, "exc": "", "s0": 1}
  return [obs], case, 0, (0, 0), (1, 0)


def _selftest(files, entries, workdir):
  """The binding: a recorded step that the judge accepted is corrupted in three ways (two ids of a
  result swapped; the last id of a result dropped; a lookupOne answer replaced by 0) and each
  corruption must be rejected with the right clause, while the unchanged record stays accepted."""
  failing = {(e["file"], e["i"]) for e in entries}
  base = None
  for f in files:
    data = json.load(open(f))
    for k, c in enumerate(data["cases"]):
      if (f, k + 1) in failing or c["exc"]:
        continue
      obs = data["obsets"][c["inp"]["ox"] - 1]
      n = len(c["out"]) - 1
      if n < c["from"]:
        continue
      ob = c["out"][n]
      many = [(j, p) for j in range(len(obs)) for p in range(len(ob["probes"]))
              if not obs[j]["one"] and len(ob["cells"][j][p]) >= 2]
      one = [(j, p) for j in range(len(obs)) for p in range(len(ob["probes"]))
             if obs[j]["one"] and ob["cells"][j][p] != [0]]
      if many and one:
        base = (data["obsets"], c, n, many[0], one[0])
        break
    if base:
      break
  if base is None:       # nothing suitable was accepted (a badly broken tree): use a synthetic record
    base = _synthetic()
  obsets, c, n, (j, p), (j1, p1) = base
  c = dict(c, **{"from": n})

  def variant(fn):
    x = json.loads(json.dumps(c))
    fn(x["out"][n]["cells"])
    return x

  def swap(cells):
    cells[j][p][0], cells[j][p][1] = cells[j][p][1], cells[j][p][0]

  def drop(cells):
    cells[j][p].pop()

  def zero(cells):
    cells[j1][p1] = [0]
  path = os.path.join(workdir, "selftest.json")
  json.dump({"obsets": obsets, "cases": [variant(lambda cells: None), variant(swap), variant(drop), variant(zero)]},
            open(path, "w"))
  got, _ = judge([path], workdir, parallel=1)
  seen = {}
  for e in got:
    seen.setdefault(e["i"], set()).update(e["c"])
  want = {2: {"C13.order"}, 3: {"C13.match"}, 4: {"C13.one"}}
  if seen != want:
    raise tlc.MachineryError("self-test: Trace_Lookup judged the unchanged/corrupted records %r, expected %r"
                             % (seen, want))


def _count(files):
  """(histories, recorded steps, judged step records, judged lookups, of these with >= 2 rows, steps by edit).
  A step is recorded once per history it occurs in; it is judged unless the identical step of the same
  input prefix, or an identical record, was judged before (fn_lookup: from / di)."""
  hist = steps = evals = nontrivial = recorded = 0
  ops = {}
  for f in files:
    data = json.load(open(f))
    for c in data["cases"]:
      hist += 1
      nobs = len(data["obsets"][c["inp"]["ox"] - 1])
      for n, ob in enumerate(c["out"]):
        recorded += 1
        if n > 0 and n >= c["from"]:
          op = c["inp"]["edits"][n - 1]["op"]
          ops[op] = ops.get(op, 0) + 1
        if n < c["from"] or ob["di"]:
          continue
        steps += 1
        evals += nobs * len(ob["probes"])
        nontrivial += sum(1 for col in ob["cells"] for cell in col if len(cell) >= 2)
  return hist, recorded, steps, evals, nontrivial, ops


def _cpu():
  r = resource.getrusage(resource.RUSAGE_CHILDREN)
  return r.ru_utime + r.ru_stime


def run(ctx):
  cfg = "%s_%s.cfg" % (MC, ctx.tier)
  cpu0 = _cpu()
  data, model = fnspec.enumerate_inputs(MC, cfg, ctx.workdir)
  cpu_model = _cpu() - cpu0
  obsets, hist = data["obsets"], data["hist"]
  nodes = set()
  for h in hist:
    for d in range(len(h["edits"]) + 1):
      nodes.add((h["fam"], json.dumps([h["init"], h["edits"][:d]], sort_keys=True)))
  if len(nodes) != model["distinct"]:
    raise tlc.MachineryError("TLC found %d nodes of the history trees but wrote histories covering %d"
                             % (model["distinct"], len(nodes)))
  fams = {}
  for h in hist:
    fams[h["fam"]] = fams.get(h["fam"], 0) + 1
  ctx.log("TLC walked %d history nodes, %d maximal histories %s in %.1fs"
          % (model["distinct"], len(hist), fams, model["wall"]))
  r_obsets, r_hist = random_histories(ctx.seed, 250 if ctx.quick else 4000, 3 if ctx.quick else 12, len(obsets))
  for h in hist + r_hist:
    h["session"] = []
  t0, cpu0 = time.time(), _cpu()
  files = execute(obsets + r_obsets, hist + r_hist, ctx.workdir, nshards=8 if ctx.quick else 16)
  t_engine, cpu_engine = time.time() - t0, _cpu() - cpu0
  cpu0 = _cpu()
  entries, t_judge = judge(files, ctx.workdir)
  cpu_judge = _cpu() - cpu0
  n_hist, n_rec, n_steps, n_evals, n_nontrivial, ops = _count(files)
  ctx.log("the real engine ran %d histories / %d recorded steps in %.1fs (cpu %.0fs); TLC judged %d distinct step "
          "records / %d lookups in %.1fs (cpu %.0fs); design model cpu %.0fs"
          % (n_hist, n_rec, t_engine, cpu_engine, n_steps, n_evals, t_judge, cpu_judge, cpu_model))
  if n_hist != len(hist) + len(r_hist):
    raise tlc.MachineryError("recorded %d histories for %d inputs" % (n_hist, len(hist) + len(r_hist)))
  _selftest(files, entries, ctx.workdir)
  # a broken tree fails thousands of steps: the smallest cases of every clause / known class are kept,
  # and those that no known class explains are re-run on their own
  viol, classes = _cap(violations_of(entries))
  viol = isolate(viol, ctx.workdir, limit=60)
  mid = len(hist) // 2
  return {
    "states": model["distinct"] + n_steps, "transitions": model["generated"] + n_steps,
    "traces_validated_against_impl": n_hist,
    "evaluations": n_evals, "distinct_nontrivial": n_nontrivial,
    "rule": "TLC enumerates every edit history of the families of %s (tables of <= 3 rows over small value sets; "
            "edits: update a key / sort / list / reference cell, two cells at once, bulk update, add, remove, move "
            "(manualSort), undo, type change of the sort column, observers re-entered, ReplaceTableData, probe "
            "change; depth %s) plus %d seeded random histories (<= 6 rows, <= 9 edits, random observers); every "
            "history is run on the real engine and every step of it is judged once; an evaluation is one observer "
            "cell (one lookupRecords / lookupOne call for one probe row) judged by Lookup!Clauses against the table "
            "recorded at that step; non-trivial = the recorded result has at least two rows"
            % (cfg, "2" if ctx.quick else "2-3", len(r_hist)),
    "samples": [_strip_hist(h) for h in hist[mid:mid + 2] + r_hist[:1]],
    "exhaustive": True,
    "assumptions": ["TLC",
                    "harness/fn_lookup.py transcribes stored cells type-exactly into the tagged values of "
                    "Lookup.tla, records manualSort as ranks, and reads observer cells from fetch_table",
                    "Trace_Lookup checks at every step that the recorded table, column types and probes are the "
                    "state Lookup!States predicts (C13.premise -> machinery failure), so the engine is driven "
                    "through exactly the states of the design model",
                    "histories of one worker share an engine (T is emptied with BulkRemoveRecord in between; a "
                    "history with a type change or ReplaceTableData ends its engine); a violation that no known "
                    "class explains is re-run in an engine of its own",
                    "precondition as in the property: sort columns hold None, numbers or texts of one kind, keys are "
                    "not NaN; cells that would leave it make the run fail as undecidable instead of passing"],
    "violations": [_strip(v) for v in viol],
    "extra": {"histories_enumerated": len(hist), "histories_random": len(r_hist), "families": fams,
              "recorded_steps": n_rec, "judged_step_records": n_steps, "distinct_steps_by_edit": ops,
              "cpu_s": {"model": round(cpu_model), "engine": round(cpu_engine), "judge": round(cpu_judge)}, "violation_classes": classes,
              "model_wall_s": round(model["wall"], 1), "engine_wall_s": round(t_engine, 1),
              "judge_wall_s": round(t_judge, 1)},
  }


def _strip_hist(h):
  return {"fam": h["fam"], "init": h["init"], "edits": h["edits"]}


def replay(ctx, data):
  inp = data["case"]["inp"]
  h = dict(inp, ox=1, session=[dict(s, ox=1) for s in inp.get("session", [])])
  h.pop("obs", None)
  files = execute([inp["obs"]], [h], ctx.workdir, nshards=1, fresh=True)
  entries, _ = judge(files, ctx.workdir, parallel=1)
  return {"violations": [_strip(v) for v in violations_of(entries)]}


# ---------------------------------------------------------------------------------------------
# Matchers for the two defects of the unchanged tree.  Both use the diagnostic tags that TLC attaches
# to a failed cell (Lookup!DeadCols / Lookup!FitsStale), plus the shape of the history.
#
#  c13_retyped_sort_column   sort_key.make_sort_key captures the column OBJECTS of the sort columns when
#      the sorted lookup helper is created; ModifyColumn with a type change replaces the column object,
#      so from then on every sorted lookup orders by a dead (emptied) column: the result is the
#      documented order with that column taken as constant.
#  c13_replace_stale_rows    ReplaceTableData (Engine.load_table) clears the data columns but never
#      tells the lookup indexes that the old rows are gone: rows dropped by the replacement stay in the
#      index and keep being returned (as their old id, or as id 0).
# ---------------------------------------------------------------------------------------------
def _edits_before(v):
  return v["case"]["inp"]["edits"][:v["step"]]


def _m_retyped_sort_column(v):
  if v["clause"] not in ("C13.order", "C13.one") or not v.get("obs"):
    return False
  obs = v["case"]["inp"]["obs"][v["obs"] - 1]
  retyped = {e["col"] for e in _edits_before(v) if e["op"] == "retype"}
  return any(("dead:" + c) in v["tags"] and any(o["c"] == c for o in obs["ord"]) for c in retyped)


def _m_replace_stale_rows(v):
  if v["clause"] not in ("C13.match", "C13.one"):
    return False
  return "stale" in v["tags"] and any(e["op"] == "repl" for e in _edits_before(v))


MATCHERS = {
  "c13_retyped_sort_column": _m_retyped_sort_column,
  "c13_replace_stale_rows": _m_replace_stale_rows,
}
