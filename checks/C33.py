"""C33 - the JSON importer reconstructs its input: rows, sub-table references, back references and
scalars at their places, subject to includes / excludes (JsonImport.tla)."""
import json
import os

import corpus
import fnspec

LEVEL = "model_checking"
MC = "MC_JsonImport"
SPEC = "Trace_JsonImport"
WORKER = "fn_jsonimport.py"
SHARDS = 16           # start states of the design model (MC_JsonImport!Shards)


# ---------------------------------------------------------------------------------------------
# Known defect of the unchanged tree (reported; known_findings.json is the coordinator's):
# _transpose takes a column's type from the first row that HAS the key, even if that value is null,
# although its docstring (and the module's) say "the first value that is not None".  A column whose
# first entry is null and whose other entries are nested objects is therefore typed "Text" and its
# row numbers are no longer references to the sub-table, e.g. [{"a": null}, {"a": {}}].
def _columns(tree):
  """{(table path, key): [kind of the value of every item of that table that has the key, in
  document order]} - the same walk as JsonImport!Flatten (used by the matcher only)."""
  cols = {}

  def item(path, v):
    fields = v[1] if v[0] == "obj" else [["", v]]
    for k, val in fields:
      if val[0] != "arr":
        cols.setdefault((tuple(path), k), []).append(val[0])
    for k, val in fields:
      if val[0] == "obj":
        item(path + [k], val)
      elif val[0] == "arr":
        for e in val[1]:
          item(path + [k], e)

  # document order within one table does not depend on the order in which the keys are visited
  for top in (tree[1] if tree[0] == "arr" else [tree]):
    item([], top)
  return cols


def _null_first_ref_column(v):
  if v.get("clause") != "C33.reftype":
    return False
  case = v["case"]
  name = case["inp"]["name"]
  out = {tuple(t["name"]): {c["id"]: c["ty"] for c in t["cols"]} for t in case["out"]}
  failing = []
  for (tp, k), kinds in _columns(case["inp"]["t"]).items():
    if "obj" not in kinds or any(x not in ("obj", "null") for x in kinds):
      continue                                       # not a pure reference column
    ty = out.get((name,) + tp, {}).get(k)
    if ty is not None and ty != {"k": "Ref", "t": [name] + list(tp) + [k]}:
      failing.append(kinds[0] == "null" and ty == {"k": "Text", "t": []})
  return bool(failing) and all(failing)


MATCHERS = {"null_before_object_hides_ref_type": _null_first_ref_column}


# ---------------------------------------------------------------------------------------------
def _describe(case):
  from_tree = _py(case["inp"]["t"])
  opts = "".join(", %s=%r" % (n, ";".join("_".join(p) for p in case["inp"][k]))
                 for n, k in (("includes", "inc"), ("excludes", "exc")) if case["inp"][k])
  tables = "; ".join("%s(%s)" % ("_".join(t["name"]), ", ".join(
    "%s:%s=%s" % (c["id"], c["ty"]["k"] + (":" + "_".join(c["ty"]["t"]) if c["ty"]["t"] else ""),
                  [x[1] for x in c["v"]]) for c in t["cols"])) for t in case["out"])
  return "import of %s as %r%s -> %s%s" % (json.dumps(from_tree), case["inp"]["name"], opts, tables,
                                            " raised " + case["exc"] if case["exc"] else "")


def _py(t):
  """Display only: the document of a tagged tree (floats / big numbers / escaped text as text)."""
  k, p = t
  if k == "obj":
    return {key: _py(v) for key, v in p}
  if k == "arr":
    return [_py(v) for v in p]
  if k == "bool":
    return p == "true"
  if k == "null":
    return None
  return p


def violations_of(failures):
  return [{"clause": c, "what": _describe(f["case"])[:1500], "case": f["case"]} for f in failures for c in f["c"]]


def _cap(viol, per_class=25):
  """A broken tree fails many thousands of cases: keep the smallest of every clause / known class."""
  classes = {}
  for v in viol:
    known = tuple(n for n, fn in sorted(MATCHERS.items()) if fn(v))
    classes.setdefault((v["clause"], known), []).append(v)
  kept = []
  for key in sorted(classes):
    vs = sorted(classes[key], key=lambda v: len(json.dumps(v["case"]["inp"])))
    kept.extend(vs[:per_class])
  return kept, {"%s%s" % (k[0], "/" + ",".join(k[1]) if k[1] else ""): len(v) for k, v in classes.items()}


# ---------------------------------------------------------------------------------------------
# The demonstration of the binding: one TLC run over hand-made outputs for
#   [{"a": [1, "x"]}, {"a": {"b": true}, "b": "x"}]
# (the correct one is what the unchanged importer returns; see import_json_test) and one recorded
# run of the real importer with a scalar changed.
def _num(n):
  return ["num", n]


_NULL = ["null", ""]
_X = ["str", "x"]
_DOC = ["arr", [["obj", [["a", ["arr", [_num(1), _X]]]]],
                ["obj", [["a", ["obj", [["b", ["bool", "true"]]]]], ["b", _X]]]]]


def _col(cid, ty, v):
  kind, _, rest = ty.partition(":")
  return {"id": cid, "ty": {"k": kind, "t": rest.split("_") if rest else []}, "v": v}


def _selftest_tables(main_a=None, bare=None, back=None, flag=None):
  return [
    {"name": ["T"], "cols": [_col("a", "Ref:T_a", main_a or [_NULL, _num(3)]), _col("b", "Text", [_NULL, _X])]},
    {"name": ["T", "a"], "cols": [_col("", "Numeric", bare or [_num(1), _X, _NULL]),
                                  _col("b", "Bool", flag or [_NULL, _NULL, ["bool", "true"]]),
                                  _col("T", "Ref:T", back or [_num(1), _num(1), _NULL])]}]


def _selftests(files, failures, workdir):
  inp = {"name": "T", "t": _DOC, "inc": [], "exc": []}
  case = lambda out, **kw: {"inp": dict(inp, **kw), "out": out, "exc": ""}
  cases = [
    case(_selftest_tables()),                                         # 1 correct: accepted
    case(_selftest_tables(bare=[_X, _num(1), _NULL])),                # 2 two scalars swapped between rows
    case(_selftest_tables(back=[_num(1), _num(2), _NULL])),           # 3 element points to the wrong parent
    case(_selftest_tables(main_a=[_NULL, _num(2)])),                  # 4 reference to the wrong sub-table row
    case(_selftest_tables(flag=[_NULL, _NULL])),                      # 5 a column one value short
    case(_selftest_tables(), exc=[["T", "a"]]),                       # 6 excluded sub-table still there
    case(_selftest_tables()[:1]),                                     # 7 sub-table missing
    case(_selftest_tables(main_a=[_num(3), _num(3)])),                # 8 a value where the document has none
  ]
  want = {2: ["C33.extra", "C33.scalar"], 3: ["C33.back", "C33.extra"], 4: ["C33.extra", "C33.ref"],
          5: ["C33.rect", "C33.rows", "C33.scalar"], 6: ["C33.filter"], 7: ["C33.back", "C33.scalar"],
          8: ["C33.extra"]}
  # 9: a recorded run of the real importer that the judge accepted, one scalar cell replaced
  failed = set((f["file"], f["i"]) for f in failures)
  recorded = None
  for f in files:
    for k, c in enumerate(json.load(open(f))):
      if (f, k + 1) in failed or c["exc"]:
        continue
      spots = [(t, j, r) for t, tab in enumerate(c["out"]) for j, col in enumerate(tab["cols"])
               for r, x in enumerate(col["v"]) if x[0] == "str"]
      if spots:
        recorded = json.loads(json.dumps(c))
        t, j, r = spots[-1]
        recorded["out"][t]["cols"][j]["v"][r] = ["str", "corrupted"]
        break
    if recorded:
      break
  if recorded is not None:
    cases.append(recorded)
    want[9] = ["C33.extra", "C33.scalar"]
  p = os.path.join(workdir, "selftest.json")
  json.dump(cases, open(p, "w"))
  results, _ = fnspec.tlc.validate_shards(SPEC, [p], workdir, parallel=1)
  got = {r["i"]: sorted(r["c"]) for r in results}
  if got != want:
    raise fnspec.tlc.MachineryError("self-test: Trace_JsonImport judged the correct/corrupted cases %r, "
                                    "expected %r" % (got, want))
  return len(cases)


def _stats(files):
  tot = {}
  for f in files:
    for k, v in json.load(open(f + ".stats.json")).items():
      tot[k] = max(tot.get(k, 0), v) if k.startswith("max_") else tot.get(k, 0) + v
  return tot


def run(ctx):
  cfg = "%s_%s.cfg" % (MC, ctx.tier)
  inputs, model = fnspec.enumerate_inputs(MC, cfg, ctx.workdir, xmx="10g")
  if len(inputs) != model["distinct"] - SHARDS:
    raise fnspec.tlc.MachineryError("TLC found %d distinct states (%d of them start states) but wrote %d inputs"
                                    % (model["distinct"], SHARDS, len(inputs)))
  ctx.log("TLC enumerated %d inputs in %.1fs; Ok(in, Flatten(in)) holds on all" % (len(inputs), model["wall"]))
  nshards = 4 if ctx.quick else 16
  files = fnspec.run_cases(WORKER, inputs, ctx.workdir, nshards=nshards)
  n_enum = len(inputs)
  samples = inputs[n_enum // 2: n_enum // 2 + 3]
  plain = sum(1 for i in inputs if not i["inc"] and not i["exc"])
  del inputs
  # C->S: Hypothesis documents beyond the bound, through the same judge
  nh_shards, nh = (2, 300) if ctx.quick else (16, 1500)
  hyp_args = [{"hyp": {"seed": ctx.seed * 1000 + i, "n": nh}, "shard": "h%d" % i,
               "out": os.path.join(ctx.workdir, "hyp-%02d.json" % i)} for i in range(nh_shards)]
  corpus.run_workers(WORKER, hyp_args)
  hyp_files = [a["out"] for a in hyp_args]
  enum_stats, hyp_stats = _stats(files), _stats(hyp_files)
  ctx.log("workers done: %d enumerated, %d Hypothesis documents" % (enum_stats["cases"], hyp_stats["cases"]))
  if enum_stats["cases"] != n_enum:
    raise fnspec.tlc.MachineryError("recorded %d cases for %d inputs" % (enum_stats["cases"], n_enum))
  failures, n, wall = fnspec.judge(SPEC, files + hyp_files, ctx.workdir, parallel=6 if ctx.quick else 16)
  ctx.log("judged %d cases in %.1fs" % (n, wall))
  n_self = _selftests(files, failures, ctx.workdir)

  viol, classes = _cap(violations_of(failures))
  return {
    "states": model["distinct"] + n, "transitions": model["generated"] + n,
    "traces_validated_against_impl": n,
    "evaluations": n, "distinct_nontrivial": enum_stats["tables>=2"],
    "rule": "TLC enumerates every JSON document within the bound of %s (keys {a,b}, scalars {1,'x',true,null}, "
            "depth <= 3) without options and, for the smaller bound, with each of 7 include/exclude option "
            "sets; one evaluation = one real parse_file run (JSON text -> tables) judged by TLC; non-trivial = "
            "enumerated run that yields at least two tables (a nested object or an array inside an item)" % cfg,
    "samples": samples,
    "exhaustive": True,
    "assumptions": ["TLC", "harness/fn_jsonimport.py transcribes tagged trees to JSON text and the returned tables "
                    "to tagged scalars type-exactly, and splits table names / 'Ref:' types at '_' and ':'",
                    "keys are single characters other than '_' and differ from the import name 'T' (no path "
                    "collisions); the filter semantics (prefix of the name path) is read off the code and its tests",
                    "row numbers are ranks in document order (the output has no other row identity)",
                    "Hypothesis documents (seeded; keys a-h, <= 30 leaves, any JSON scalars, options aimed at "
                    "the document's own paths) are a sample"],
    "violations": viol,
    "extra": {"enumerated_inputs": n_enum, "enumerated_without_options": plain,
              "hypothesis_inputs": hyp_stats["cases"], "enumerated_runs": enum_stats, "hypothesis_runs": hyp_stats,
              "violation_classes": classes, "selftest_cases": n_self,
              "model_wall_s": round(model["wall"], 1), "judge_wall_s": round(wall, 1)},
  }


def replay(ctx, data):
  files = fnspec.run_cases(WORKER, [data["case"]["inp"]], ctx.workdir)
  failures, _, _ = fnspec.judge(SPEC, files, ctx.workdir)
  return {"violations": violations_of(failures)}
