"""C15 - trigger formulas recalculate exactly when configured (Trigger.tla).

S->C: TLC (MC_Trigger) drives the Trigger state machine - one table with data columns A, B, the formula
column F = $A * 10 and one or two trigger columns whose formula is `(value or 0) + 1`, so that every
evaluation shows as +1 - through every history of its bound, for every recalcWhen x recalcDeps
configuration, and prints the histories; harness/fn_trigger.py replays them on the real engine
(AddRecord / UpdateRecord / RemoveRecord / RenameColumn / ModifyColumn in bundles of one or two user
actions) and records the table after every bundle; Trace_Trigger judges every recorded bundle with
Trigger!Failures from the table observed before it.
C->S: seeded random longer histories (more rows, bundles of up to three actions, other values, Bulk*
actions, explicit row ids, random configurations) go through the same judge.
"""
import json
import os
import random
import time
from concurrent.futures import ThreadPoolExecutor

import fnspec
import tlc

LEVEL = "model_checking"
WORKER = "fn_trigger.py"
TRACE = "Trace_Trigger"
MC = "MC_Trigger"
DEFAULT, NEVER, MANUAL = 0, 1, 2
WHEN = {DEFAULT: "DEFAULT", NEVER: "NEVER", MANUAL: "MANUAL_UPDATES"}
PARTS = 8               # TLC processes for the thorough design model (one worker each: deterministic)
SHARDS = {"quick": 12, "thorough": 32}


# ---------------------------------------------------------------------------------------------
# S->C: the histories TLC explored
# ---------------------------------------------------------------------------------------------
def _mc_part(args):
  cfg, workdir, part, parts, workers = args
  d = os.path.join(workdir, "mc-part%d" % part)
  os.makedirs(d, exist_ok=True)
  res = tlc.run_model(MC, cfg, d, workers=workers, xmx="3g", coverage=False,
                      env_extra={"C15_PART": str(part), "C15_PARTS": str(parts)})
  if res["rc"] != 0 or res["violated"]:
    raise tlc.MachineryError("design model %s/%s failed:\n%s" % (MC, cfg, res["out"][-3000:]))
  hist = [json.loads(json.loads(line)) for line in res["out"].splitlines() if line.startswith('"{')]
  return res, hist


def enumerate_histories(ctx):
  cfg = "MC_Trigger_%s.cfg" % ctx.tier
  if ctx.quick:      # every history of the bound is a distinct state: any number of workers
    jobs = [(cfg, ctx.workdir, 0, 1, 8)]
  else:              # abstracting VIEW: one worker per process keeps the chosen histories deterministic
    jobs = [(cfg, ctx.workdir, p, PARTS, 1) for p in range(PARTS)]
  t0 = time.time()
  with ThreadPoolExecutor(len(jobs)) as ex:
    out = list(ex.map(_mc_part, jobs))
  hist = [h for _res, hs in out for h in hs]
  gen = sum(res["generated"] for res, _ in out)
  dist = sum(res["distinct"] for res, _ in out)
  inits = gen - len(hist)
  if not hist or inits <= 0 or inits > 1000:
    raise tlc.MachineryError("design model %s: %d states generated but %d histories printed" % (cfg, gen, len(hist)))
  for h in hist:
    h.pop("start", None)
  hist.sort(key=lambda h: json.dumps(h, sort_keys=True))
  return hist, {"generated": gen, "distinct": dist, "wall": time.time() - t0, "cfg": cfg}


# ---------------------------------------------------------------------------------------------
# C->S: random histories beyond the bound (enumeration only; TLC judges)
# ---------------------------------------------------------------------------------------------
def _random_cfg(rnd):
  ids = ["K"] if rnd.random() < 0.7 else ["K", "L"]
  cfg = []
  for cid in ids:
    when = rnd.choice((DEFAULT, DEFAULT, DEFAULT, NEVER, MANUAL, MANUAL))
    deps = [d for d in ("A", "B", "F", cid) if rnd.random() < (0.45 if when == DEFAULT else 0.15)]
    cfg.append({"id": cid, "when": when, "deps": deps, "fm": rnd.choice((0, 1, 1))})
  return cfg


def random_histories(seed, n, n_cfg):
  rnd = random.Random("C15-%d" % seed)
  pool = [_random_cfg(rnd) for _ in range(n_cfg)]      # the worker builds an engine per configuration
  out = []
  for _ in range(n):
    cfg = rnd.choice(pool)
    ids = [kc["id"] for kc in cfg]
    rows = {}
    for r in rnd.sample(range(1, 6), rnd.choice((0, 1, 2, 2, 3, 4))):
      rows[r] = {"A": rnd.randint(0, 3), "B": rnd.randint(0, 3), "k": [rnd.choice((0, 5, 100, 101)) for _c in ids]}
    init = [{"r": r, "A": d["A"], "B": d["B"], "F": 10 * d["A"], "k": list(d["k"])} for r, d in sorted(rows.items())]
    steps = []
    schema_left = 2
    for _s in range(rnd.randint(3, 9)):
      bundle = []
      for _a in range(rnd.choice((1, 1, 1, 2, 2, 3))):
        x = rnd.random()
        free = [r for r in range(1, 7) if r not in rows]
        if x < 0.025 and schema_left:
          schema_left -= 1
          bundle.append({"op": "Ren", "r": 0, "vals": [], "bulk": 0})
        elif x < 0.07 and schema_left:
          schema_left -= 1
          bundle.append({"op": "Mod", "r": 0, "vals": [], "bulk": 0})
        elif (x < 0.27 or not rows) and free:
          r = rnd.choice((min(free), max(list(rows) or [0]) + 1, rnd.choice(free)))
          if r not in free:
            r = min(free)
          vals = []
          for c in ["A", "B"] + ids:
            if rnd.random() < 0.45:
              vals.append({"c": c, "v": rnd.choice((100, 7, 0)) if c in ids else rnd.randint(0, 3)})
          rows[r] = {"A": 0, "B": 0}
          for p in vals:
            if p["c"] in ("A", "B"):
              rows[r][p["c"]] = p["v"]
          bundle.append({"op": "Add", "r": r, "vals": vals, "bulk": int(rnd.random() < 0.3)})
        elif x < 0.37 and rows:
          r = rnd.choice(sorted(rows))
          del rows[r]
          bundle.append({"op": "Rem", "r": r, "vals": [], "bulk": int(rnd.random() < 0.3)})
        elif rows:
          r = rnd.choice(sorted(rows))
          vals = []
          for c in ["A", "B"] + ids:
            if rnd.random() < 0.4:
              if c in ids:
                v = rnd.choice((100, 100, 7, 0, 1, 2, 101))
              else:
                v = rows[r][c] if rnd.random() < 0.3 else rnd.randint(0, 3)
              vals.append({"c": c, "v": v})
          if not vals:
            vals = [{"c": "A", "v": (rows[r]["A"] + 1) % 4}]
          for p in vals:
            if p["c"] in ("A", "B"):
              rows[r][p["c"]] = p["v"]
          bundle.append({"op": "Upd", "r": r, "vals": vals, "bulk": int(rnd.random() < 0.3)})
      if bundle:
        steps.append(bundle)
    out.append({"cfg": cfg, "init": init, "steps": steps, "explicit_ids": rnd.random() < 0.3})
  return out


def _arrange(inputs, nshards):
  """Order the histories so that fnspec.run_cases (shard i = inputs[i::nshards]) hands every worker
  a contiguous run of the histories sorted by configuration."""
  inputs = sorted(inputs, key=lambda h: json.dumps(h["cfg"], sort_keys=True))
  n = len(inputs)
  nshards = max(1, min(nshards, n))
  sizes = [len(range(i, n, nshards)) for i in range(nshards)]
  chunks, pos = [], 0
  for size in sizes:
    chunks.append(inputs[pos:pos + size])
    pos += size
  out = [None] * n
  for i, chunk in enumerate(chunks):
    out[i::nshards] = chunk
  return out


# ---------------------------------------------------------------------------------------------
# judging (TLC) and violation records
# ---------------------------------------------------------------------------------------------
def _show_cfg(cfg):
  return "; ".join("%s: recalcWhen=%s recalcDeps=[%s] formula#%d"
                   % (kc["id"], WHEN.get(kc["when"], kc["when"]), ",".join(kc["deps"]), kc["fm"]) for kc in cfg)


def _show_act(a):
  vals = "{%s}" % ", ".join("%s: %s" % (p["c"], p["v"]) for p in a["vals"])
  name = {"Add": "AddRecord", "Upd": "UpdateRecord", "Rem": "RemoveRecord", "Ren": "RenameColumn A",
          "Mod": "ModifyColumn A type"}[a["op"]]
  if a["op"] in ("Ren", "Mod"):
    return name
  return "%s%s(%d%s)" % ("Bulk" if a.get("bulk") else "", name, a["r"], "" if a["op"] == "Rem" else ", " + vals)


def _show_rows(cfg, rows):
  return "{%s}" % "; ".join("%d: A=%s B=%s F=%s %s" % (
    x["r"], x["A"], x["B"], x["F"], " ".join("%s=%s" % (kc["id"], v) for kc, v in zip(cfg, x["k"]))) for x in rows)


def _what(case, n, cells):
  cfg = case["inp"]["cfg"]
  before, after = case["out"][n - 1], case["out"][n]
  return "[%s] bundle %d [%s]: %s -> %s%s; failing cells %s" % (
    _show_cfg(cfg), n, ", ".join(_show_act(a) for a in case["inp"]["steps"][n - 1]),
    _show_rows(cfg, before["rows"]), _show_rows(cfg, after["rows"]),
    (" raised " + after["exc"]) if after["exc"] else "",
    ", ".join("%s[%s]" % (c["col"], c["r"]) for c in cells))


def judge(files, workdir):
  """Run Trace_Trigger over the case files. Returns (violations, n_histories, n_steps, wall)."""
  _failures, n, wall = fnspec.judge(TRACE, files, workdir, parallel=12, xmx="2g")
  steps = 0
  viol, seen = [], set()
  for f in files:
    cases = json.load(open(f))
    steps += sum(len(c["inp"]["steps"]) for c in cases)
    for b in json.load(open(f + ".verdict.json")):
      case = cases[b["i"] - 1]
      for n0, fails in enumerate(b["s"]):
        n_step = n0 + 1
        for clause in sorted({x["c"] for x in fails}):
          cells = sorted(({"r": x["r"], "col": x["col"]} for x in fails if x["c"] == clause),
                         key=lambda c: (c["r"], c["col"]))
          if len(case["out"]) != len(case["inp"]["steps"]) + 1:
            cut = case
          else:            # the failing bundle and what led to it; later bundles do not matter
            cut = {"inp": dict(case["inp"], steps=case["inp"]["steps"][:n_step]),
                   "out": case["out"][:n_step + 1], "exc": case["exc"]}
          key = (clause, json.dumps(cut["inp"], sort_keys=True))
          if key in seen:
            continue
          seen.add(key)
          ok_shape = len(cut["out"]) > n_step
          viol.append({"clause": clause, "step": n_step, "cells": cells, "case": cut,
                       "what": _what(cut, n_step, cells) if ok_shape else str(cut)[:300]})
  return viol, n, steps, wall


def _selftest(files, viol, workdir):
  """The binding: take a recorded bundle that the trace specification accepted - UpdateRecord changing
  A in a row of a DEFAULT column whose recalcDeps hold A, the cell went up by one - put the old value
  back into the record (no recalculation) and require that the trace specification rejects it."""
  failing = {json.dumps(v["case"]["inp"], sort_keys=True) for v in viol}
  base = None
  for f in files:
    for c in json.load(open(f)):
      kc = c["inp"]["cfg"][0]
      if len(c["inp"]["cfg"]) != 1 or kc["when"] != DEFAULT or "A" not in kc["deps"] or "K" in kc["deps"]:
        continue
      if len(c["inp"]["steps"]) != 1 or len(c["inp"]["steps"][0]) != 1 or len(c["out"]) != 2:
        continue
      a = c["inp"]["steps"][0][0]
      if a["op"] != "Upd" or [p["c"] for p in a["vals"]] != ["A"]:
        continue
      old = {x["r"]: x for x in c["out"][0]["rows"]}.get(a["r"])
      new = {x["r"]: x for x in c["out"][1]["rows"]}.get(a["r"])
      if old and new and old["A"] != a["vals"][0]["v"] and new["k"][0] == old["k"][0] + 1 and \
         json.dumps(c["inp"], sort_keys=True) not in failing:
        base = c
        break
    if base:
      break
  if base is None:       # nothing of the kind was served correctly (a broken tree): a synthetic record
    cfg = [{"id": "K", "when": DEFAULT, "deps": ["A"], "fm": 0}]
    rows0 = [{"r": 1, "A": 1, "B": 1, "F": 10, "k": [5]}]
    rows1 = [{"r": 1, "A": 2, "B": 1, "F": 20, "k": [6]}]
    base = {"inp": {"cfg": cfg, "init": rows0,
                    "steps": [[{"op": "Upd", "r": 1, "vals": [{"c": "A", "v": 2}], "bulk": 0}]]},
            "out": [{"exc": "", "rows": rows0, "odd": []}, {"exc": "", "rows": rows1, "odd": []}], "exc": ""}
  p = os.path.join(workdir, "selftest-base.json")
  json.dump([base], open(p, "w"))

  def mutate(case):
    r = case["inp"]["steps"][0][0]["r"]
    old = {x["r"]: x for x in case["out"][0]["rows"]}[r]
    for x in case["out"][1]["rows"]:
      if x["r"] == r:
        x["k"][0] = old["k"][0]
    return case
  if fnspec.mutation_selftest(TRACE, p, lambda c: c, workdir):
    raise tlc.MachineryError("self-test: the unmodified base case was rejected by %s" % TRACE)
  if not fnspec.mutation_selftest(TRACE, p, mutate, workdir):
    raise tlc.MachineryError("self-test: a recorded missing recalculation was accepted by %s" % TRACE)


def _nontrivial(h):
  """a history with a bundle that adds a record or writes a cell (something a trigger column can react to)"""
  return any(a["op"] == "Add" or (a["op"] == "Upd" and a["vals"]) for b in h["steps"] for a in b)


def _observed(files):
  """what the engine did, per (bundle, row, trigger column): descriptive counts only"""
  out = {"cell_unchanged": 0, "cell_plus_one": 0, "cell_other": 0, "row_new": 0, "bundles_raised": 0, "odd_cells": 0}
  for f in files:
    for c in json.load(open(f)):
      for before, after in zip(c["out"], c["out"][1:]):
        if after["exc"]:
          out["bundles_raised"] += 1
        out["odd_cells"] += len([o for o in after["odd"] if " = " in o])
        old = {x["r"]: x for x in before["rows"]}
        for x in after["rows"]:
          if x["r"] not in old:
            out["row_new"] += 1
            continue
          for v0, v1 in zip(old[x["r"]]["k"], x["k"]):
            out["cell_unchanged" if v1 == v0 else "cell_plus_one" if v1 == v0 + 1 else "cell_other"] += 1
  return out


def execute(ctx, histories):
  """engine, judge, self-test"""
  t0 = time.time()
  todo = _arrange(histories, SHARDS[ctx.tier])
  files = fnspec.run_cases(WORKER, todo, ctx.workdir, nshards=SHARDS[ctx.tier])
  ctx.log("the real engine ran %d histories in %.1fs" % (len(histories), time.time() - t0))
  viol, n, steps, wall = judge(files, ctx.workdir)
  ctx.log("TLC judged %d histories / %d bundles in %.1fs" % (n, steps, wall))
  _selftest(files, viol, ctx.workdir)
  return files, viol, n, steps


def run(ctx):
  inputs, model = enumerate_histories(ctx)
  by_len = {}
  for h in inputs:
    key = "%d bundles/%d actions" % (len(h["steps"]), sum(len(b) for b in h["steps"]))
    by_len[key] = by_len.get(key, 0) + 1
  n_cfg = len({json.dumps(h["cfg"], sort_keys=True) for h in inputs})
  ctx.log("TLC enumerated %d histories over %d configurations in %.1fs (%d distinct states): %s"
          % (len(inputs), n_cfg, model["wall"], model["distinct"], by_len))
  extra = random_histories(ctx.seed, 2000 if ctx.quick else 40000, 24 if ctx.quick else 96)
  files, viol, n, steps = execute(ctx, inputs + extra)
  return {
    "states": model["distinct"] + steps, "transitions": model["generated"] + steps,
    "traces_validated_against_impl": n,
    "evaluations": steps,
    "distinct_nontrivial": sum(1 for h in inputs + extra if _nontrivial(h)),
    "rule": "TLC explores the Trigger state machine within the bound of %s (every recalcWhen x recalcDeps "
            "configuration of one trigger column, selected pairs of two; bundles of one or two user actions; "
            "quick: every history of at most 2 bundles / 2 actions; thorough: at most 3 bundles / 3 actions, "
            "every bundle from one history into each state of the abstracting VIEW) "
            "and every transition is replayed on the engine, plus %d seeded random histories of 3-9 bundles "
            "of up to 3 actions over up to 6 rows; an evaluation is one recorded bundle judged by "
            "Trigger!Failures for every (row, trigger column); non-trivial = a history that adds a record "
            "or writes a cell" % (model["cfg"], len(extra)),
    "samples": inputs[:1] + inputs[len(inputs) // 2:len(inputs) // 2 + 1] + extra[:1],
    "exhaustive": True,
    "assumptions": ["TLC",
                    "harness/fn_trigger.py builds the table with user actions, loads the start rows with a "
                    "doc-action level ReplaceTableData and records fetch_table after every bundle; the judge "
                    "starts from the table OBSERVED before a bundle",
                    "the trigger formula (value or 0) + 1 makes every evaluation visible as +1; a supplied "
                    "value and an evaluation are told apart by value",
                    "reading of the property where it is silent or ambiguous: several due recalculations "
                    "within one bundle may be served by one evaluation; a recalcDeps cell written with the "
                    "value it had, and a MANUAL_UPDATES update that writes only values the row had, may or "
                    "may not recalculate; a column that depends on itself may be evaluated any number of "
                    "times once it is evaluated; NEVER columns are never evaluated (schema.py: 'Don't "
                    "calculate automatically')",
                    "recalcDeps range over A, B, F and the column itself (no trigger column depending on "
                    "another trigger column); schema changes are RenameColumn / ModifyColumn(type) of A"],
    "violations": viol,
    "extra": {"histories_enumerated": len(inputs), "histories_random": len(extra),
              "configurations_enumerated": n_cfg, "enumerated_by_length": by_len,
              "design_model_states": model["distinct"], "observed": _observed(files)},
  }


def replay(ctx, data):
  files = fnspec.run_cases(WORKER, [data["case"]["inp"]], ctx.workdir)
  viol, _n, _steps, _ = judge(files, ctx.workdir)
  return {"violations": viol}


# ---------------------------------------------------------------------------------------------
# Matchers for the defects of the unchanged tree.  Every failing cell of the failing bundle must show
# the behaviour of one of the known defects (exactly one spurious evaluation of a supplied value /
# no evaluation next to a schema change), and at least one of them the defect the matcher names.
# ---------------------------------------------------------------------------------------------
def _self_dep(kc):
  return kc["when"] == DEFAULT and kc["id"] in kc["deps"]


def _supplied(a, col):
  for p in a["vals"]:
    if p["c"] == col:
      return p["v"]
  return None


def _kept_cell_classes(v, cell):
  """the defects that explain one cell that failed C15.kept (a supplied value was not kept)"""
  case, n = v["case"], v["step"]
  cfg = {kc["id"]: kc for kc in case["inp"]["cfg"]}
  order = [kc["id"] for kc in case["inp"]["cfg"]]
  bundle = case["inp"]["steps"][n - 1]
  before = {x["r"]: x for x in case["out"][n - 1]["rows"]}
  after = {x["r"]: x for x in case["out"][n]["rows"]}
  r, col = cell["r"], cell["col"]
  kc = cfg.get(col)
  if kc is None or r not in after or _self_dep(kc):
    return set()
  j = order.index(col)
  mine = [(i, a) for i, a in enumerate(bundle) if a["op"] in ("Add", "Upd", "Rem") and a["r"] == r]
  sup = [(i, a) for i, a in mine if a["op"] != "Rem" and _supplied(a, col) is not None]
  if not sup:
    return set()
  i, a = sup[-1]
  x = _supplied(a, col)
  if after[r]["k"][j] != x + 1:           # exactly one evaluation on top of the supplied value
    return set()
  # the value the cell physically holds when action i starts (evaluations happen at the end of the bundle)
  had = before[r]["k"][j] if r in before else None
  for _i2, b in [m for m in mine if m[0] < i]:
    if b["op"] == "Rem":
      had = None
    elif _supplied(b, col) is not None:
      had = _supplied(b, col)
    elif b["op"] == "Add":
      had = 0
  out = set()
  # the row id was used (and removed) earlier in the bundle: a stale pending evaluation of that id
  readded = any(i2 < i for i2, _b in mine)
  # (the plain case - AddRecord supplying a value for a DEFAULT column with recalcDeps - was repaired in
  #  /repo: docactions.BulkAddRecord now calls prevent_recalc; what is left is the re-used row id)
  if a["op"] == "Add" and kc["when"] != NEVER and readded:
    out.add("add")
  if a["op"] == "Upd" and had == x and kc["when"] != NEVER:
    out.add("same")
  if i < len(bundle) - 1 and kc["when"] != NEVER:
    out.add("later")
  return out


def _kept_matcher(name):
  def match(v):
    if v["clause"] != "C15.kept" or not v.get("cells"):
      return False
    classes = [_kept_cell_classes(v, cell) for cell in v["cells"]]
    return all(classes) and any(name in c for c in classes)
  return match


def _m_schema_change_in_bundle(v):
  """A bundle holds a RenameColumn / ModifyColumn of the dependency A next to a record action that has
  to trigger: trigger edges are only rebuilt at the end of the bundle (updates after the schema
  change meet no edge; F pending for ALL_ROWS swallows the row), and rewriting the trigger formula
  on rename drops the pending recalculation: the cell is not recalculated."""
  if v["clause"] != "C15.must" or not v.get("cells"):
    return False
  bundle = v["case"]["inp"]["steps"][v["step"] - 1]
  ops = [a["op"] for a in bundle]
  return any(o in ("Ren", "Mod") for o in ops) and any(o in ("Add", "Upd") for o in ops)


MATCHERS = {
  # AddRecord supplies x for a DEFAULT trigger column with recalcDeps (not itself): the new row's
  # dependency cells invalidate the column and nothing calls prevent_recalc in the add path: x + 1
  # (also: the row id was added and removed earlier in the bundle, its evaluation is still pending)
  "c15_add_supplied_overwritten": _kept_matcher("add"),
  # a user action supplies x (prevent_recalc) while the cell is due for recalculation; a LATER user action
  # of the same bundle clears Engine._prevent_recompute_map before the bundle is calculated: x + 1
  "c15_supplied_lost_to_later_action": _kept_matcher("later"),
  # UpdateRecord supplies the value the cell already holds plus a reason to recalculate:
  # trim_update_action drops the unchanged cell, so prevent_recalc is never called for it: x + 1
  "c15_same_value_supply_dropped": _kept_matcher("same"),
  "c15_schema_change_in_bundle": _m_schema_change_in_bundle,
}
