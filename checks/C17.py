"""C17 - renames inside access rules and conditions are exact (PredicateRename.tla, on top of C40's Predicate.tla)."""
import ast
import json
import os
import re

import fnspec

LEVEL = "model_checking"
tlc = fnspec.tlc

WORKER = "fn_predrename.py"
TRACE = "Trace_PredicateRename"
PAR = max(1, int(os.environ.get("VERIF_PAR", "16") or 16))     # processes / TLC workers run at a time

_DOLLAR = re.compile(r'\$(?=[a-zA-Z_][a-zA-Z_0-9]*)')


def _unesc(s):
  return s.encode("ascii").decode("unicode_escape")


def _python_refuses(text):
  """Python's own parser (module mode, as asttokens.ASTText uses it) refuses the text with $NAME spelled DOLLARNAME."""
  try:
    ast.parse(_DOLLAR.sub("DOLLAR", text))
    return False
  except SyntaxError:
    return True
  except Exception:   # pylint: disable=broad-except
    return False


def _unparsable_text_raises(v):
  """
  predicate_formula.process_renames calls get_dollar_replacer(formula) OUTSIDE its try block; that helper
  parses the text (asttokens.ASTText(..).tree), so a stored condition that Python itself cannot parse makes
  every column rename of the document raise SyntaxError / IndentationError.
  """
  case = v["case"]
  if v.get("clause") != "C17.invalid" or case["out"]["exc"] not in ("SyntaxError", "IndentationError"):
    return False
  texts = case["inp"]["texts"]
  bad = [t for t in texts if _python_refuses(_unesc(t["text"]))]
  # every unparsable text of the document is one Python refuses (nothing else can have raised)
  return bool(bad) and all(x["b"]["pexc"] == "" or _python_refuses(_unesc(x["b"]["text"]))
                           for x in case["out"]["entries"])


MATCHERS = {
  "c17_unparsable_text_raises": _unparsable_text_raises,
}

TEXTS_PER_DOC = {"quick": 5, "thorough": 6}
N_RANDOM = {"quick": 160, "thorough": 1000}       # generated documents (1-4 texts each, 9 contexts per text)


def _items(ctx):
  cfg = "MC_PredicateRename_%s.cfg" % ctx.tier
  space, model = fnspec.enumerate_inputs("MC_PredicateRename", cfg, ctx.workdir, workers=PAR)
  variants, contexts, targets = space["variants"], space["contexts"], space["targets"]
  paths, styles = space["paths"], space["styles"]
  per = TEXTS_PER_DOC[ctx.tier]
  groups = {}      # (variant, target, path) -> [{"expr", "style"}]
  n = 0

  def put(expr, style, v, g, p):
    # the "bulk" path is one BulkUpdateRecord of colId: only different from "colId" for several columns
    groups.setdefault((v, g, p), []).append({"expr": expr, "style": style})

  nt, ns, npth = len(targets), len(styles), len(paths)
  if ctx.quick:
    # wide family: every tree x every rename x two (spelling, path) pairs taken in turn
    for k, e in enumerate(space["wide"]):
      for g in range(nt):
        for s, p in (((k + g) % ns, (k + 2 * g) % npth), ((k + g + 2) % ns, (k + 2 * g + 1) % npth)):
          put(e, styles[s], k % len(variants), g, paths[p])
          n += 1
    # narrow family: every tree x two renames taken in turn x one (spelling, path)
    narrow_targets = lambda k: (k % nt, (k + 3) % nt)   # noqa: E731
  else:
    # wide family (much larger): every tree x four renames (the mentioned column of T, the same-named column of
    # U, two columns at once or a chain, an unrelated column - variants taken in turn) x one (spelling, path)
    for k, e in enumerate(space["wide"]):
      for g in (k % 2, 2, 5 + k % 2, 3 + k % 2):
        put(e, styles[(k + g) % ns], k % len(variants), g, paths[(k // 2 + g) % npth])
        n += 1
    narrow_targets = lambda k: (k % nt,)   # noqa: E731
  for k, e in enumerate(space["narrow"]):
    for g in narrow_targets(k):
      put(e, styles[(k + g) % ns], k % len(variants), g, paths[(k // 2 + g) % npth])
      n += 1
  items = []
  for (v, g, p), exprs in sorted(groups.items()):
    for at in range(0, len(exprs), per):
      items.append({"exprs": exprs[at:at + per], "variant": variants[v], "contexts": contexts,
                    "steps": targets[g], "path": p})
  # texts outside the grammar: alone, and next to valid texts
  valid = [{"expr": e, "style": styles[k % len(styles)]} for k, e in enumerate(space["wide"][:8])]
  for k, b in enumerate(space["bad"]):
    for g in (0, 2, 5):
      items.append({"exprs": [{"bad": b}], "variant": variants[k % len(variants)], "contexts": contexts,
                    "steps": targets[g], "path": paths[(k + g) % len(paths)]})
    items.append({"exprs": [valid[k % len(valid)], {"bad": b}, valid[(k + 1) % len(valid)]],
                  "variant": variants[k % len(variants)], "contexts": contexts,
                  "steps": targets[k % len(targets)], "path": paths[k % len(paths)]})
  return space, model, items, cfg, n


def _single_text_inputs(inp):
  """A recorded multi-text document -> one document per text (same tables, columns, rename)."""
  out = []
  for j in range(len(inp["texts"])):
    entries = [dict(e, txt=1) for e in inp["doc"]["entries"] if e["txt"] == j + 1]
    out.append(dict(inp, texts=[inp["texts"][j]], doc=dict(inp["doc"], entries=entries)))
  return out


def _what(case, failed_entries):
  inp, out = case["inp"], case["out"]
  steps = ", ".join("%s.%s->%s" % (s["t"], s["old"], s["new"]) for s in inp["steps"])
  parts = ["%s [%s]" % (steps, inp["path"])]
  if out["exc"]:
    parts.append("rename raised %s: %s" % (out["exc"], _unesc(out["msg"])[:80]))
  for k in failed_entries[:3]:
    e, x = inp["doc"]["entries"][k - 1], out["entries"][k - 1]
    parts.append("%s on %s%s: %r -> %r%s" % (
      e["kind"], e["self"], ("/choice=" + e["choice"]) if e["choice"] else "", _unesc(x["b"]["text"])[:90],
      _unesc(x["a"]["text"])[:90], "" if x["b"]["pexc"] == "" else " (does not parse: %s)" % x["b"]["pexc"]))
  return "; ".join(parts)


def _verdicts(files):
  """fnspec.judge drops the extra field of the verdict records: read the failed entries here."""
  out = {}
  for f in files:
    for b in json.load(open(f + ".verdict.json")):
      out[(f, b["i"])] = sorted(b.get("e", []))
  return out


def _split(failures, files):
  ents = _verdicts(files)
  viol = []
  for f in failures:
    for c in f["c"]:
      if c.startswith("SPEC."):
        raise tlc.MachineryError("%s: the harness / renderer / specification disagree with the recording on %s"
                                 % (c, json.dumps(f["case"])[:2500]))
      viol.append({"clause": c, "what": _what(f["case"], ents.get((f["file"], f["i"]), [])), "case": f["case"]})
  return viol


def _minimise(ctx, failures):
  """Failing documents with several texts are re-run one text per document; what fails alone is reported."""
  multi = [f for f in failures if len(f["case"]["inp"]["texts"]) > 1]
  if not multi:
    return failures, []
  singles = []
  for f in multi[:200]:
    singles.extend(_single_text_inputs(f["case"]["inp"]))
  files = fnspec.run_cases(WORKER, singles, ctx.workdir, tag="single", nshards=min(PAR, max(1, len(singles) // 8)))
  sfail, _n, _w = fnspec.judge(TRACE, files, ctx.workdir, parallel=PAR)
  if not sfail:
    return failures, files
  return [f for f in failures if len(f["case"]["inp"]["texts"]) == 1] + multi[200:] + sfail, files


def run(ctx):
  space, model, items, cfg, ntrees = _items(ctx)
  ctx.log("TLC enumerated %d + %d trees (%d distinct states) in %.1fs; %d (tree, rename, spelling, path) "
          "combinations in %d documents" % (len(space["wide"]), len(space["narrow"]), model["distinct"],
                                            model["wall"], ntrees, len(items)))
  files = fnspec.run_cases(WORKER, items, ctx.workdir, nshards=PAR if ctx.quick else 3 * PAR)
  nrand = N_RANDOM[ctx.tier]
  per = 20
  rand_items = [{"rand": ctx.seed * 1000003 + k, "n": per} for k in range(nrand // per)]
  rfiles = fnspec.run_cases(WORKER, rand_items, ctx.workdir, tag="rand", nshards=min(PAR, len(rand_items)))
  failures, n, wall = fnspec.judge(TRACE, files + rfiles, ctx.workdir, parallel=PAR)
  ctx.log("TLC judged %d recorded documents in %.1fs" % (n, wall))

  # binding self-tests: corrupted recordings must be rejected by the trace specification
  def reference_not_renamed(case):
    # pretend one rewritten formula kept the old name
    for x in case["out"]["entries"]:
      if x["a"]["text"] != x["b"]["text"]:
        x["a"] = dict(x["b"])
        return case
    case["out"]["entries"][0]["a"]["tree"] = ["Const", ["int", 7]]
    return case

  def stored_form_stale(case):
    for x in case["out"]["entries"]:
      if x["a"]["has"]:
        x["a"]["stored"] = ["Const", ["int", 7]]
        return case
    return case

  def decoy_touched(case):
    x = case["out"]["entries"][-1]
    x["a"]["raw"] = x["a"]["raw"] + " "
    x["a"]["text"] = x["a"]["text"] + " "
    x["a"]["cps"] = x["a"]["cps"] + [32]
    return case

  def colids_forgotten(case):
    r = case["out"]["res"][0]
    r["a"]["colIds"] = list(reversed(r["a"]["colIds"])) + ["Q"]
    return case
  for mut in (reference_not_renamed, stored_form_stale, decoy_touched, colids_forgotten):
    if not fnspec.mutation_selftest(TRACE, files[0], mut, ctx.workdir):
      raise tlc.MachineryError("self-test: corrupted case (%s) was accepted by %s" % (mut.__name__, TRACE))

  failures, sfiles = _minimise(ctx, failures)
  viol = _split(failures, files + rfiles + sfiles)

  # measured coverage facts
  stats = {"documents": n, "entries": 0, "entries_rewritten": 0, "entries_untouched": 0, "entries_unparsable": 0,
           "renames_raised": 0, "generated_documents": 0, "texts": 0,
           "by_kind_rewritten": {}, "by_path": {}, "colids_rewritten": 0, "lookup_rewritten": 0}
  samples = []
  for f in files + rfiles:
    cases = json.load(open(f))
    for c in cases:
      inp, out = c["inp"], c["out"]
      stats["texts"] += len(inp["texts"])
      stats["by_path"][inp["path"]] = stats["by_path"].get(inp["path"], 0) + 1
      stats["renames_raised"] += 1 if out["exc"] else 0
      stats["generated_documents"] += 1 if f in rfiles else 0
      stats["colids_rewritten"] += sum(1 for r in out["res"] if r["a"] != r["b"])
      stats["lookup_rewritten"] += sum(1 for r in out["attrs"] if r["a"] != r["b"])
      for e, x in zip(inp["doc"]["entries"], out["entries"]):
        stats["entries"] += 1
        if x["b"]["pexc"]:
          stats["entries_unparsable"] += 1
        elif x["a"]["text"] != x["b"]["text"]:
          stats["entries_rewritten"] += 1
          stats["by_kind_rewritten"][e["kind"]] = stats["by_kind_rewritten"].get(e["kind"], 0) + 1
        else:
          stats["entries_untouched"] += 1
    if len(samples) < 4 and cases:
      c = cases[len(cases) // 2]
      x = next((x for x in c["out"]["entries"] if x["a"]["text"] != x["b"]["text"]), c["out"]["entries"][0])
      samples.append({"steps": [[s["t"], s["old"], s["new"]] for s in c["inp"]["steps"]], "path": c["inp"]["path"],
                      "before": x["b"]["text"], "after": x["a"]["text"], "exc": c["out"]["exc"]})
  return {
    "states": model["distinct"] + n, "transitions": model["generated"] + n,
    "traces_validated_against_impl": n,
    "evaluations": stats["entries"], "distinct_nontrivial": stats["entries_rewritten"],
    "rule": "TLC enumerates every predicate tree within the bound of %s that some rename changes in some context, "
            "x 7 renames (mentioned column, same-named column of the other table, unrelated columns, two columns in one "
            "bundle, a chain) x spellings (rec.X / $X / blanks and line breaks / comments) x rename paths "
            "(RenameColumn, colId update, label update, bulk colId update) x 3 document variants; every text is put "
            "into 8 contexts of one real document (ACL rule on T / U / '*', dropdown condition of a reference and of "
            "a plain column, trigger on T / U, config-mode trigger); %d further documents are generated from seed %d "
            "(other names, deeper trees, 1-3 renames, unparsable texts mixed in); evaluations = (text, context) "
            "entries judged, non-trivial = entries whose text the rename rewrote" % (cfg, nrand, ctx.seed),
    "samples": samples,
    "exhaustive": True,
    "assumptions": ["TLC", "the code's own parser (parse_predicate_formula, C40) gives the trees that are compared",
                    "harness/fn_predrename.py renders an abstract expression as annotated tokens (checked by TLC: the "
                    "tokens spell the stored text, its parse is the abstract expression, token and tree annotations agree)",
                    "which names each context recognises is read from the collectors in acl.py / dropdown_condition.py / "
                    "trigger_expression.py (triggers: rec and oldRec, not newRec); rec.X in a rule of the '*' resource "
                    "is not judged",
                    "unparsable ACL formulas are placed by loading the document (user actions refuse them)"],
    "violations": viol,
    "extra": stats,
  }


def replay(ctx, data):
  files = fnspec.run_cases(WORKER, [data["case"]["inp"]], ctx.workdir)
  failures, _n, _ = fnspec.judge(TRACE, files, ctx.workdir)
  return {"violations": _split(failures, files)}
