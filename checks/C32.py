"""C32 - the CSV importer keeps every cell (CsvShape.tla)."""
import json
import os

import corpus
import fnspec

LEVEL = "model_checking"
SAMPLE = 100          # rows the importer looks at to guess headers and width (import_csv._parse_open_file)


# ---------------------------------------------------------------------------------------------
# Helpers over one recorded case (used for descriptions, coverage counts and the known-finding
# matchers only - the verdict itself comes from Trace_CsvShape / CsvShape!Clauses).

def kind_rows(case):
  """The written grid as rows of cell kinds (header row included as kind 'h')."""
  inp = case["inp"]
  if inp["src"] == "shape":
    rows = []
    for n, w, kind, hole in inp["segs"]:
      rows.extend([[("e" if c == hole else kind) for c in range(1, w + 1)]] * n)
  else:
    rows = [list(r) for r in inp["rows"]]
  if inp["headers"]:
    rows.insert(0, ["h"] * max([1] + [len(r) for r in rows]))
  return rows


def _count(row):      # number of non-empty cells (import_utils.column_count_modal)
  return sum(1 for k in row if k != "e")


def _span(row):       # position of the last non-empty cell (import_utils._count_nonempty)
  return max([0] + [i + 1 for i, k in enumerate(row) if k != "e"])


def _modal(sample):
  counts = {}
  for row in sample:
    n = _count(row)
    if n > 1:
      counts[n] = counts.get(n, 0) + 1
  if not counts:
    return 0
  return max(list(counts.items()), key=lambda kv: kv[1])[0]


def _cells(runs_per_col, shift=0):
  """{(row, col): (kind, r, c)} of the non-empty cells of a run-length described table."""
  cells = {}
  for j, runs in enumerate(runs_per_col, 1):
    for k0, n, kind, r0, c in runs:
      for t in range(n):
        cells[(k0 + t + shift, j)] = (kind, (r0 + t) if r0 else 0, c)
  return cells


def _significant(out):
  return [j for j in range(len(out["cols"])) if out["names"][j][0] != "e" or out["cols"][j]]


def _required(grid):
  return [c for c in range(len(grid["cols"])) if grid["cols"][c]]


def describe(case):
  inp, out = case["inp"], case["out"]
  what = json.dumps(inp["segs"]) if inp["src"] == "shape" else "grid of %d rows" % len(inp["rows"])
  return "%s delim=%s quote=%s headers=%d: %d rows x %d cols written -> %s" % (
    what, inp["delim"], inp["quote"], inp["headers"], case["grid"]["n"], len(case["grid"]["cols"]),
    case["exc"] or "tables=%d lens=%s" % (out["nt"], out["lens"]))


# ---------------------------------------------------------------------------------------------
# Known-finding matchers: each recognises exactly one defect class of the unchanged tree by the
# failing input shape AND the way the output deviates.  Anything else stays a VIOLATION.
# One file can show several of the classes at once, so the matchers share `_analyse`: a case is only
# matched if EVERY deviation it shows is accounted for by the known classes.

def _analyse(case):
  """
  Account for the deviations of one recorded case.  Returns None if the result is not a single table
  of equally long columns, else a dict:
    first      leading rows that have cells but were skipped as a 'preamble' (0 if that did not happen)
    lost       non-empty cells of those rows
    width      the width the importer took from the 100-row sample if a later row is wider, else None
    missing    number of columns (that still have cells after `first`, below `width`) not returned
    changed    [(row, col, want, got)] cells returned with another token (columns paired by position)
    preamble_col  True if a column disappeared because its only cells were in the skipped rows
    cut_col    True if a column disappeared because it lies beyond `width`
  """
  inp, grid, out = case["inp"], case["grid"], case["out"]
  if case["exc"] or out["nt"] != 1 or len(set(out["lens"])) != 1:
    return None
  rows = kind_rows(case)
  nrows, nout, hdr = grid["n"], out["lens"][0], inp["headers"]
  # (a) the preamble: rows before the first row whose last non-empty cell reaches the most common
  #     cell count minus one (import_utils.find_first_non_empty_row), if any of them has a cell
  first = 0
  if not hdr:
    modal = _modal(rows[:SAMPLE])
    i = next((i for i, r in enumerate(rows[:SAMPLE]) if _span(r) >= modal - 1), None)
    if i and any(_count(r) for r in rows[:i]) and nout == nrows - i:
      first = i
  # (b) the sampled width, if a row beyond the sample is wider than every sampled row
  width = None
  if not hdr:
    ws = max([0] + [_span(r) for r in rows[first:SAMPLE]])
    wl = max([0] + [_span(r) for r in rows[SAMPLE:]])
    if wl > ws:
      width = ws
  cells = _cells(grid["cols"])
  lost = sorted(p for p in cells if hdr < p[0] <= first)
  req_all = _required(grid)
  req = sorted(set(c - 1 for (k, c) in cells if k > first or k <= hdr))
  sig = _significant(out)
  res = {"first": first, "lost": lost, "width": width, "preamble_col": len(req) < len(req_all),
         "cut_col": False, "missing": 0, "changed": []}
  if width is not None and len(sig) < len(req):
    # the row taken as header counts in full, so the cut may lie a little beyond `width`
    wmax = max([width] + [len(r) for r in rows[:SAMPLE]])
    for w in range(width, wmax + 1):
      if len([c for c in req if c < w]) == len(sig):
        res["cut_col"] = True
        req = [c for c in req if c < w]
        break
  res["missing"] = len(req) - len(sig)
  got = _cells(out["cols"])
  shift = nout - nrows
  for j in range(min(len(req), len(sig))):
    for (k, c), t in cells.items():
      if c - 1 == req[j] and k > max(first, hdr) and got.get((k + shift, sig[j] + 1)) != t:
        res["changed"].append((k, c, t, got.get((k + shift, sig[j] + 1))))
  return res


def _blank_lost(out, change):
  """The text of kind x is " x_r<r>_c<c>"; it came back without its leading blank and the importer
  reports skipinitialspace."""
  _k, _c, want, got = change
  return bool(out.get("skip")) and want[0] == "x" and got is not None and \
    got[0] == "?" + ascii("x_r%d_c%d" % (want[1], want[2]))


def _explained(case, res):
  return res is not None and res["missing"] == 0 and all(_blank_lost(case["out"], ch) for ch in res["changed"])


def wide_row_after_sample(v):
  """headers=false and a row beyond the 100-row sample is wider than every sampled row: the columns
  beyond the sampled width are lost (expand_headers only sees the sample; get_table_data zips every
  row against len(headers))."""
  case = v["case"]
  if v["clause"] != "C32.kept" or case["inp"]["headers"]:
    return False
  if case["out"]["nt"] == 0 and not case["exc"]:
    # every column that has a cell lies beyond the sampled width: nothing is left, no table is returned
    rows = kind_rows(case)
    ws = max([0] + [_span(r) for r in rows[:SAMPLE]])
    wl = max([0] + [_span(r) for r in rows[SAMPLE:]])
    req = _required(case["grid"])
    return wl > ws and bool(req) and min(req) >= ws
  res = _analyse(case)
  return _explained(case, res) and res["cut_col"]


def blank_first_line_narrow_sample(v):
  """headers=false, the file starts with an empty line and no sampled row has two non-empty cells:
  headers_guess takes the empty first row for 'no non-empty rows' and the import returns no table."""
  case = v["case"]
  if v["clause"] != "C32.kept" or case["inp"]["headers"] or case["exc"] or case["out"]["nt"] != 0:
    return False
  rows = kind_rows(case)
  return bool(rows) and len(rows[0]) == 0 and _modal(rows[:SAMPLE]) == 0


def sparse_leading_rows_skipped(v):
  """headers=false and the file starts with rows that have cells but fewer (by 2 or more) than the
  most common row of the sample: find_first_non_empty_row skips them as a preamble (a column whose
  only cells are in those rows disappears with them)."""
  case = v["case"]
  if v["clause"] not in ("C32.rows", "C32.cell", "C32.kept") or case["inp"]["headers"]:
    return False
  res = _analyse(case)
  if res is None or not res["first"]:
    return False
  if v["clause"] == "C32.rows":
    return True
  if v["clause"] == "C32.kept":
    return _explained(case, res) and res["preamble_col"]
  return _explained(case, res) and bool(res["lost"])


def sniffed_skipinitialspace(v):
  """the importer reports skipinitialspace=true (csv.Sniffer's guess, applied although delimiter and
  quote character were given explicitly) and the only change is that cells lost their leading blank."""
  case = v["case"]
  if v["clause"] != "C32.cell" or not case["out"].get("skip"):
    return False
  res = _analyse(case)
  return _explained(case, res) and bool(res["changed"])


MATCHERS = {
  "wide_row_after_sample": wide_row_after_sample,
  "blank_first_line_narrow_sample": blank_first_line_narrow_sample,
  "sparse_leading_rows_skipped": sparse_leading_rows_skipped,
  "sniffed_skipinitialspace": sniffed_skipinitialspace,
}


# ---------------------------------------------------------------------------------------------

def _nontrivial(inp):
  rows = kind_rows({"inp": inp})
  widths = set(len(r) for r in rows)
  kinds = set(k for r in rows for k in r)
  return len(rows) > SAMPLE or len(widths) > 1 or bool(kinds & {"d", "q", "n"})


def _violations(failures):
  binding = [f for f in failures if "C32.binding" in f["c"]]
  if binding:
    raise fnspec.tlc.MachineryError(
      "the grid written by fn_csv.py is not the grid CsvShape!GridOf denotes: %s" %
      json.dumps(binding[0]["case"])[:2000])
  return [{"clause": c, "what": describe(f["case"]), "case": f["case"]} for f in failures for c in f["c"]]


def run(ctx):
  cfg = "MC_CsvShape_%s.cfg" % ctx.tier
  inputs, model = fnspec.enumerate_inputs("MC_CsvShape", cfg, ctx.workdir)
  ctx.log("TLC enumerated %d inputs (%d distinct states, %.0fs)" % (len(inputs), model["distinct"], model["wall"]))
  files = fnspec.run_cases("fn_csv.py", inputs, ctx.workdir, extra={"tmp": ctx.workdir}, per_shard=1500)
  # C->S: Hypothesis grids beyond the bound (more columns, mixed rows, other row counts)
  nhyp_shards, nhyp = (4, 100) if ctx.quick else (16, 400)
  hyp_args = [{"hyp": {"seed": ctx.seed * 1000 + i, "n": nhyp}, "tmp": ctx.workdir, "shard": "h%d" % i,
               "out": os.path.join(ctx.workdir, "hyp-%02d.json" % i)} for i in range(nhyp_shards)]
  corpus.run_workers("fn_csv.py", hyp_args)
  hyp_files = [a["out"] for a in hyp_args]
  hyp_inputs = [c["inp"] for f in hyp_files for c in json.load(open(f))]
  ctx.log("workers done: %d shape cases, %d Hypothesis grids" % (len(inputs), len(hyp_inputs)))
  failures, n, wall = fnspec.judge("Trace_CsvShape", files + hyp_files, ctx.workdir)
  ctx.log("TLC judged %d cases in %.0fs: %d fail some clause" % (n, wall, len(failures)))

  # binding self-test: a recorded output that lost its last column / last row must be rejected
  def drop_col(case):
    case["inp"] = {"src": "shape", "segs": [[2, 2, "a", 0]], "rows": [], "delim": "comma", "quote": "dq",
                   "headers": 0}
    case["grid"] = {"n": 2, "cols": [[[1, 2, "a", 1, 1]], [[1, 2, "a", 1, 2]]]}
    case["out"] = {"nt": 1, "names": [["e", 0, 0]], "lens": [2], "cols": [[[1, 2, "a", 1, 1]]]}
    case["exc"] = ""
    return case
  def shift_row(case):
    drop_col(case)
    case["out"] = {"nt": 1, "names": [["e", 0, 0], ["e", 0, 0]], "lens": [2, 2],
                   "cols": [[[1, 2, "a", 1, 1]], [[1, 1, "a", 2, 2]]]}
    return case
  def good(case):
    drop_col(case)
    case["out"] = {"nt": 1, "names": [["e", 0, 0], ["e", 0, 0]], "lens": [2, 2],
                   "cols": [[[1, 2, "a", 1, 1]], [[1, 2, "a", 1, 2]]]}
    return case
  for mut in (drop_col, shift_row):
    if not fnspec.mutation_selftest("Trace_CsvShape", files[0], mut, ctx.workdir):
      raise fnspec.tlc.MachineryError("self-test: corrupted case (%s) was accepted by Trace_CsvShape" % mut.__name__)
  if fnspec.mutation_selftest("Trace_CsvShape", files[0], good, ctx.workdir):
    raise fnspec.tlc.MachineryError("self-test: a correct case was rejected by Trace_CsvShape")

  viol = _violations(failures)
  everything = inputs + hyp_inputs
  return {
    "states": model["distinct"] + n, "transitions": model["generated"] + n,
    "traces_validated_against_impl": n,
    "evaluations": n, "distinct_nontrivial": sum(1 for i in everything if _nontrivial(i)),
    "rule": "TLC enumerates every run-length shape within the bound of %s (x dialect x headers); each is "
            "expanded to a CSV file and imported by import_csv.parse_file; non-trivial = more than 100 "
            "rows, or rows of different widths, or cells containing delimiter / quote / newline" % cfg,
    "samples": inputs[len(inputs) // 2: len(inputs) // 2 + 3],
    "exhaustive": True,
    "assumptions": ["TLC", "harness/fn_csv.py: expansion of a shape to a grid (cross-checked against "
                    "CsvShape!GridOf on every case), the text<->token map and the run-length encoding",
                    "Python's csv.writer produces the CSV text of a grid"],
    "violations": viol,
    "extra": {"hypothesis_grids": len(hyp_inputs), "shape_inputs": len(inputs),
              "cases_failing_some_clause": len(failures), "judge_wall_s": round(wall, 1),
              "model_wall_s": round(model["wall"], 1)},
  }


def replay(ctx, data):
  files = fnspec.run_cases("fn_csv.py", [data["case"]["inp"]], ctx.workdir, extra={"tmp": ctx.workdir})
  failures, _n, _ = fnspec.judge("Trace_CsvShape", files, ctx.workdir)
  return {"violations": _violations(failures)}
