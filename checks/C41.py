"""C41 - fetch_table queries return exactly the matching rows and the requested kinds of columns
(FetchQuery.tla)."""
import json
import os
import random

import fnspec

LEVEL = "model_checking"
MC = "MC_FetchQuery"
SPEC = "Trace_FetchQuery"
WORKER = "fn_fetchquery.py"
N_CODES = 40          # size of FetchQuery!Universe (compared with what TLC writes)

# No known defect of the unchanged tree.
MATCHERS = {}


# ---------------------------------------------------------------------------------------------
# Random tables / queries beyond the bound of the design model (C->S).  Only inputs are produced
# here; every judgement is made by TLC through the same trace specification.
# Pools of codes whose members are Python-equal to each other or easily confused.
POOLS = [
  [1, 3, 10, 28, 7, 30],          # 1, True, 1.0, "1", [1], [True]
  [0, 2, 9, 4, 6, 36, 37, 29],    # 0, False, 0.0, "", None, [0], [False], []
  [8, 31, 32, 39, 19, 11],        # [1,2], [1.0,2], [2,1], [1,[2]], 2, 2.0
  [5, 27, 34, 33, 6],             # "a", "b", ["a"], [None], None
  [35, 38, 7, 18, 26, 20, 12],    # [[1]], [[1.0]], [1], 1.5, -1, 3, 3.0
]


def random_inputs(seed, count):
  rng = random.Random("C41-%d" % seed)
  out = []
  while len(out) < count:
    pool = rng.choice(POOLS) if rng.random() < 0.7 else list(range(N_CODES))
    n = rng.choice((0, 1, 2, 3, 4, 4, 5, 6, 8))
    x = rng.choice(("none", "formula", "lookup"))
    ids = []
    if n and rng.random() < 0.5:
      ids = rng.sample(range(1, 9), n)          # distinct, unordered, with gaps
    t = [[rng.choice(pool), rng.choice(pool)] for _ in range(n)]
    cols = ["A", "B", "id", "manualSort"] + (["F"] if x != "none" else [])
    q = []
    for c in rng.sample(cols, rng.choice((0, 1, 1, 1, 2, 2, 3))):
      if c == "id":
        cand = [1, 19, 20, 21, 22, 23, 24, 25, 10, 11, 3, 0]      # 1..8, 1.0, 2.0, True, 0
      elif c == "manualSort":
        cand = [10, 11, 12, 13, 1, 19, 20, 3, 18]                 # 1.0.. 4.0, 1, 2, 3, True, 1.5
      else:
        j = 0 if c in ("A", "F") else 1
        cand = [r[j] for r in t] + [rng.choice(pool) for _ in range(3)]
      q.append({"c": c, "v": [rng.choice(cand) for _ in range(rng.choice((0, 1, 1, 2, 2, 3, 4)))]})
    out.append({"tab": "T", "x": x, "ids": ids, "t": t, "q": q, "f": rng.random() < 0.5,
                "p": rng.random() < 0.3, "e": (not q) and rng.random() < 0.5, "rnd": True})
  return out


# ---------------------------------------------------------------------------------------------
_UNIVERSE = []      # FetchQuery!Universe as written by TLC; used only to print values instead of codes


def _py(t):
  """Python literal of a tagged value [k, n, s, l] (display only)."""
  k = t["k"]
  if k == "i":
    return str(t["n"] // 2)
  if k == "f":
    return repr(t["n"] / 2.0)
  if k == "b":
    return "True" if t["n"] else "False"
  if k == "s":
    return repr(t["s"])
  if k == "z":
    return "None"
  return "[" + ", ".join(_py(x) for x in t["l"]) + "]"


def _val(code):
  return _py(_UNIVERSE[code]) if code < len(_UNIVERSE) else "<code %d>" % code


def _describe(case):
  inp = case["inp"]
  query = "{" + ", ".join("%r: [%s]" % (e["c"], ", ".join(_val(c) for c in e["v"])) for e in inp["q"]) + "}"
  if not inp["q"] and not inp["e"]:
    query = "None"
  rows = "[" + ", ".join("(%s, %s)" % (_val(r[0]), _val(r[1])) for r in inp["t"]) + "]"
  return "fetch_table(%r, formulas=%r, private=%r, query=%s) on T with (A, B) rows %s%s, extra columns %s -> rows %s " \
         "columns %s%s" % (inp["tab"], inp["f"], inp["p"], query, rows,
                          " ids %s" % inp["ids"] if inp["ids"] else "", inp["x"], case["out"]["rows"],
                          [c["id"] for c in case["out"]["cols"]], " raised " + case["exc"] if case["exc"] else "")


def violations_of(failures):
  if any("C41.undecidable" in f["c"] for f in failures):
    bad = [f for f in failures if "C41.undecidable" in f["c"]][0]
    raise fnspec.tlc.MachineryError("a queried column holds values outside the modelled universe "
                                    "(the specification cannot decide the case): %s" % json.dumps(bad["case"])[:2000])
  return [{"clause": c, "what": _describe(f["case"]), "case": f["case"]} for f in failures for c in f["c"]]


def _cap(viol, per_class=40):
  """A broken tree fails thousands of cases: keep the smallest of every clause / known class."""
  classes = {}
  for v in viol:
    known = tuple(n for n, fn in sorted(MATCHERS.items()) if fn(v))
    classes.setdefault((v["clause"], known), []).append(v)
  kept = []
  for key in sorted(classes):
    vs = sorted(classes[key], key=lambda v: len(json.dumps(v["case"]["inp"])))
    kept.extend(vs[:per_class])
  return kept, {"%s%s" % (k[0], "/" + ",".join(k[1]) if k[1] else ""): len(v) for k, v in classes.items()}


def _selftest_case(rows):
  """A = 1, True, "a"; query A in [1]: Python equality selects rows 1 and 2."""
  col = lambda cid, fm, v: {"id": cid, "h": cid[:1] == "#", "fm": fm, "pv": False, "v": v}
  st = {"ids": [1, 2, 3], "cols": [col("id", False, [1, 19, 20]), col("manualSort", False, [10, 11, 12]),
                                   col("A", False, [1, 3, 5]), col("B", False, [0, 1, 2]),
                                   col("F", True, [1, 3, 5]), col("#lookup#", True, [1000, 1001, 1002])]}
  pick = lambda v: [v[r - 1] for r in rows]
  return {"inp": {"tab": "T", "x": "formula", "ids": [], "t": [[1, 0], [3, 1], [5, 2]],
                  "q": [{"c": "A", "v": [1]}], "f": False, "p": False, "e": False},
          "st": st, "dk": [{"id": "A", "fm": False}, {"id": "B", "fm": False}, {"id": "F", "fm": True}],
          "out": {"rows": rows, "cols": [{"id": "manualSort", "v": pick([10, 11, 12])},
                                         {"id": "A", "v": pick([1, 3, 5])}, {"id": "B", "v": pick([0, 1, 2])}]},
          "exc": ""}


def _selftests(files, failures, workdir):
  """
  The demonstration of the binding, one TLC run over four cases:
    1 a result that drops the row holding True for the query [1] (1 == True)   -> must be rejected
    2 a result with the formula column although formulas=False                 -> must be rejected
    3 the correct result of 1/2 (the rejection is not blanket)                 -> must be accepted
    4 a recorded case of the real engine that the judge accepted, with its last returned row
      dropped                                                                  -> must be rejected
  (case 4 is left out if the tree is so broken that no accepted case has a non-empty result)
  """
  failed = set((f["file"], f["i"]) for f in failures)
  recorded = None
  for f in files:
    for k, case in enumerate(json.load(open(f))):
      if case["out"]["rows"] and not case["exc"] and (f, k + 1) not in failed:
        recorded = json.loads(json.dumps(case))
        break
    if recorded:
      break
  with_formula = _selftest_case([1, 2])
  with_formula["out"]["cols"].append({"id": "F", "v": [1, 3]})
  cases = [_selftest_case([1]), with_formula, _selftest_case([1, 2])]
  want = {1: ["C41.rows"], 2: ["C41.cols"]}
  if recorded is not None:
    recorded["out"]["rows"].pop()
    for c in recorded["out"]["cols"]:
      c["v"].pop()
    cases.append(recorded)
    want[4] = ["C41.rows"]
  p = os.path.join(workdir, "selftest.json")
  json.dump(cases, open(p, "w"))
  results, _ = fnspec.tlc.validate_shards(SPEC, [p], workdir, parallel=1)
  got = {r["i"]: sorted(r["c"]) for r in results}
  if got != want:
    raise fnspec.tlc.MachineryError("self-test: Trace_FetchQuery judged the corrupted/correct cases %r, "
                                    "expected %r" % (got, want))


def _stats(files):
  tot = {}
  for f in files:
    for src, d in json.load(open(f + ".stats.json")).items():
      t = tot.setdefault(src, {})
      for k, v in d.items():
        t[k] = t.get(k, 0) + v
  return tot


def run(ctx):
  cfg = "%s_%s.cfg" % (MC, ctx.tier)
  data, model = fnspec.enumerate_inputs(MC, cfg, ctx.workdir)
  universe = data["U"]
  _UNIVERSE[:] = universe
  # the families of the design model overlap: keep one copy of every input (no input is added or judged here)
  inputs, seen = [], set()
  for i in data["inputs"]:
    k = json.dumps(i, sort_keys=True)
    if k not in seen:
      seen.add(k)
      inputs.append(i)
  if len(inputs) != model["distinct"]:
    raise fnspec.tlc.MachineryError("TLC found %d distinct inputs but wrote %d" % (model["distinct"], len(inputs)))
  if len(universe) != N_CODES:
    raise fnspec.tlc.MachineryError("FetchQuery!Universe has %d values, expected %d" % (len(universe), N_CODES))
  upath = os.path.join(ctx.workdir, "universe.json")
  json.dump(universe, open(upath, "w"))
  ctx.log("TLC enumerated %d inputs (%d distinct states) in %.1fs" % (len(inputs), model["distinct"], model["wall"]))
  rnd = random_inputs(ctx.seed, 3000 if ctx.quick else 60000)
  # enumerated and random inputs share the worker processes and the judge JVMs
  files = fnspec.run_cases(WORKER, inputs + rnd, ctx.workdir, nshards=8 if ctx.quick else 16,
                           extra={"universe": upath})
  failures, n, wall = fnspec.judge(SPEC, files, ctx.workdir)
  ctx.log("judged %d cases (%d enumerated, %d random) in %.1fs" % (n, len(inputs), len(rnd), wall))
  if n != len(inputs) + len(rnd):
    raise fnspec.tlc.MachineryError("recorded %d cases for %d inputs" % (n, len(inputs) + len(rnd)))
  _selftests(files, failures, ctx.workdir)

  stats = _stats(files)
  nontrivial = sum(1 for i in inputs if i["q"] and i["t"])
  viol, classes = _cap(violations_of(failures))
  mid = len(inputs) // 2
  return {
    "states": model["distinct"] + n, "transitions": model["generated"] + n,
    "traces_validated_against_impl": n,
    "evaluations": n, "distinct_nontrivial": nontrivial,
    "rule": "TLC enumerates every (table, query, flags) input of the families of %s (tables of <= 3 rows x 2 "
            "Any columns over {0, 1, False, True, '', 'a', None, [1], [1,2]}, queries of <= 2 values per column "
            "on 0-2 columns, plus the column-kind family on the user table and two metadata tables); one "
            "evaluation = one real fetch_table call judged by TLC; non-trivial = enumerated input with a "
            "non-empty table and at least one queried column" % cfg,
    "samples": inputs[mid: mid + 3],
    "exhaustive": True,
    "assumptions": ["TLC", "harness/fn_fetchquery.py transcribes Python values type-exactly into the codes of "
                    "FetchQuery!Universe (the two tables are compared structurally on every run) and reads the "
                    "stored table from the engine's column objects (raw_get, is_formula, is_private)",
                    "the enumerated space is a union of fully enumerated families, not the full product of "
                    "tables x queries; random tables (seeded, <= 8 rows, 40-value universe, explicit row ids, "
                    "queries on up to 3 columns incl. id / manualSort / formula column) are a sample"],
    "violations": viol,
    "extra": {"enumerated_inputs": len(inputs), "random_inputs": len(rnd),
              "enumerated_paths": stats.get("enum", {}), "random_paths": stats.get("rnd", {}),
              "violation_classes": classes,
              "model_wall_s": round(model["wall"], 1), "judge_wall_s": round(wall, 1)},
  }


def replay(ctx, data):
  files = fnspec.run_cases(WORKER, [data["case"]["inp"]], ctx.workdir)
  failures, _, _ = fnspec.judge(SPEC, files, ctx.workdir)
  return {"violations": violations_of(failures)}
