"""C28 - upserts follow their specification (Upsert.tla).

S->C: TLC (MC_Upsert) enumerates tables x requests x option combinations (invalid argument shapes
included), checks that the admissible-outcome relation is satisfiable on each of them, and writes the
three factors out; harness/fn_upsert.py runs the real BulkAddOrUpdateRecord / AddOrUpdateRecord user
action on every element of their product; Trace_Upsert judges every recorded execution with
Upsert!Clauses.
C->S: seeded random inputs beyond the bound (tables of up to 8 rows with id gaps, alt-text and blank
cells, up to 4 input rows, any of the three columns in `require` and in `col_values`, repeated and
type-converted-equal require rows, wrong list lengths), a third of them after a short history of
user actions on the table (ReplaceTableData / BulkRemoveRecord / BulkUpdateRecord following an
earlier lookup), go through the same judge.
"""
import json
import os
import random
import time

import fnspec
import tlc

LEVEL = "model_checking"
WORKER = "fn_upsert.py"
TRACE = "Trace_Upsert"
COLS = ("k1", "k2", "v")
INT_COLS = ("k1", "v")


# ---------------------------------------------------------------------------------------------
# cell values (enumeration / display only; TLC judges)
# ---------------------------------------------------------------------------------------------
def I(n):
  return {"t": "i", "n": int(n), "s": ""}


def NS(n):
  return {"t": "ns", "n": int(n), "s": ""}


def S(x):
  return {"t": "s", "n": 0, "s": x}


def show(val):
  if val["t"] == "i":
    return repr(int(val["n"]))
  if val["t"] == "ns":
    return repr(str(val["n"]))
  return repr(val["s"])


def conv(col, val):
  """What a cell of that column holds / is looked up by (display and matchers only)."""
  if col in INT_COLS:
    return I(val["n"]) if val["t"] == "ns" else val
  return NS(val["n"]) if val["t"] == "i" else val


def show_rows(rows):
  return "[%s]" % ", ".join("%d:(%s)" % (r["id"], ", ".join(show(r[c]) for c in COLS)) for r in rows)


def show_cols(spec, single):
  return "{%s}" % ", ".join("%s: %s" % (c["col"], show(c["vals"][0]) if single and c["vals"] else
                                        "[%s]" % ", ".join(show(x) for x in c["vals"])) for c in spec)


def show_opts(o):
  names = (("on_many", "on_many"), ("update", "update"), ("add", "add"), ("allow", "allow_empty_require"))
  return "{%s}" % ", ".join("%s: %s" % (n, {"T": "True", "F": "False"}.get(o[k], repr(o[k])))
                            for k, n in names if o[k] != "-")


def what(case):
  inp, ob = case["inp"], case["out"]
  single = inp["kind"] == "single"
  prep = inp.get("prep") or {"kind": "doc"}
  hist = "" if prep["kind"] == "doc" else " (after %s from %s)" % (prep["kind"], show_rows(prep["pre"]))
  if ob["exc"]:
    res = "raised %s%s" % (ob["exc"], " (document unchanged)" if ob["same"] else " (DOCUMENT CHANGED)")
  elif not ob["retok"]:
    res = "returned a value of another shape"
  elif single:
    res = "returned recordIds %s action %s" % (ob["recs"][0], ob["action"])
  else:
    res = "returned recordIds %s add %s update %s" % (ob["recs"], ob["adds"], ob["upds"])
  return "T(k1 Int, k2 Text, v Int) = %s%s; %s(%s, %s, %s) %s; table now %s" % (
    show_rows(inp["rows"]), hist, "AddOrUpdateRecord" if single else "BulkAddOrUpdateRecord",
    show_cols(inp["require"], single), show_cols(inp["colvals"], single), show_opts(inp["opts"]),
    res, show_rows(ob["after"]))


# ---------------------------------------------------------------------------------------------
# inputs beyond the TLC bound
# ---------------------------------------------------------------------------------------------
K1_POOL = [I(n) for n in (-1, 0, 1, 1, 2, 2, 3)] + [S("x")]
K2_POOL = [S("a"), S("a"), S("b"), S(""), NS(1), NS(2), NS(-1)]
V_POOL = [I(0), I(0), I(1), I(5), I(7), S("x")]
POOL = {"k1": K1_POOL, "k2": K2_POOL, "v": V_POOL}
ON_MANY = ["-", "first", "first", "all", "all", "all", "none", "none"]
BAD_ON_MANY = ["other", "First", "", "ALL", "any"]


def _row(rnd, rid):
  return {"id": rid, "k1": dict(rnd.choice(K1_POOL)), "k2": dict(rnd.choice(K2_POOL)),
          "v": dict(rnd.choice(V_POOL))}


def _as_given(rnd, col, stored):
  """A value that converts to the stored one: the other spelling of a number now and then."""
  if rnd.random() < 0.35:
    if stored["t"] == "i":
      return NS(stored["n"])
    if stored["t"] == "ns":
      return I(stored["n"])
  return dict(stored)


def _value(rnd, col, rows):
  if rows and rnd.random() < 0.65:
    return _as_given(rnd, col, rnd.choice(rows)[col])
  if rnd.random() < 0.15:
    return I(rnd.choice((4, 6, 8)))
  return _as_given(rnd, col, rnd.choice(POOL[col]))


def _subset(rnd, sizes):
  k = rnd.choice(sizes)
  return sorted(rnd.sample(COLS, k))


def random_inputs(seed, n):
  rnd = random.Random("C28-%d" % seed)
  out = []
  for _ in range(n):
    n_rows = rnd.choice((0, 1, 2, 2, 3, 3, 4, 6, 8))
    ids = sorted(rnd.sample(range(1, 13), n_rows))
    rows = [_row(rnd, rid) for rid in ids]
    # crowd the keys so that several records match
    if rows and rnd.random() < 0.5:
      src = rnd.choice(rows)
      for r in rows:
        if rnd.random() < 0.5:
          col = rnd.choice(COLS)
          r[col] = dict(src[col])
    prep = {"kind": "doc", "pre": []}
    x = rnd.random()
    if x < 0.33:
      kind = rnd.choice(("replace", "remove", "update"))
      if kind == "update":
        pre = [_row(rnd, r["id"]) for r in rows]
      else:
        free = [i for i in range(1, 15) if i not in ids]
        extra = rnd.sample(free, rnd.choice((1, 1, 2, 3)))
        kept = rows if kind == "remove" else [rnd.choice((r, _row(rnd, r["id"]))) for r in rows
                                              if rnd.random() < 0.7]
        pre = sorted([dict(r) for r in kept] + [_row(rnd, i) for i in extra], key=lambda r: r["id"])
      prep = {"kind": kind, "pre": pre}
    source = rows + prep["pre"]          # values worth asking for: what is or was in the table
    single = rnd.random() < 0.25
    length = 1 if single else rnd.choice((0, 1, 1, 2, 2, 2, 3, 3, 4))
    rcols = _subset(rnd, (0, 1, 1, 1, 1, 2, 2, 2, 3))
    ccols = _subset(rnd, (0, 1, 1, 1, 2, 2, 3))
    require = [{"col": c, "vals": [_value(rnd, c, source) for _i in range(length)]} for c in rcols]
    colvals = [{"col": c, "vals": [_value(rnd, c, []) for _i in range(length)]} for c in ccols]
    if length >= 2 and require and rnd.random() < 0.12:      # the same key twice, as given or converted
      i, j = rnd.sample(range(length), 2)
      for c in require:
        c["vals"][j] = _as_given(rnd, c["col"], conv(c["col"], c["vals"][i])) if rnd.random() < 0.5 \
          else dict(c["vals"][i])
    if not single and (require or colvals) and rnd.random() < 0.06:   # wrong list lengths
      c = rnd.choice(require + colvals)
      if c["vals"] and rnd.random() < 0.5:
        c["vals"].pop()
      else:
        c["vals"].append(_value(rnd, c["col"], rows))
    opts = {"on_many": rnd.choice(BAD_ON_MANY) if rnd.random() < 0.05 else rnd.choice(ON_MANY),
            "update": rnd.choice("-TTTF"), "add": rnd.choice("-TTTF"),
            "allow": rnd.choice("-TF") if require else rnd.choice("-TTTTF")}
    out.append({"kind": "single" if single else "bulk", "rows": rows, "require": require,
                "colvals": colvals, "opts": opts, "prep": prep})
  return out


# ---------------------------------------------------------------------------------------------
# judging (TLC) and violation records
# ---------------------------------------------------------------------------------------------
def judge(files, workdir):
  failures, n, wall = fnspec.judge(TRACE, files, workdir, xmx="1g")
  viol, seen = [], set()
  for f in failures:
    for clause in f["c"]:
      key = (clause, json.dumps(f["case"]["inp"], sort_keys=True))
      if key in seen:
        continue
      seen.add(key)
      viol.append({"clause": clause, "what": what(f["case"]), "case": f["case"]})
  return viol, n, wall


def _selftest(files, viol, workdir):
  """The binding: take a recorded execution that the trace specification accepted and that left
  rows in the table, overwrite the v cell of the last row in the record, and require that the trace
  specification now rejects it."""
  failing = {json.dumps(v["case"]["inp"], sort_keys=True) for v in viol}
  base = None
  for f in files:
    for c in json.load(open(f)):
      if not c["out"]["exc"] and c["out"]["after"] and c["out"]["after"] != c["inp"]["rows"] and \
         json.dumps(c["inp"], sort_keys=True) not in failing:
        base = c
        break
    if base:
      break
  if base is None:      # nothing was served correctly (a badly broken tree): use a synthetic record
    row = {"id": 1, "k1": I(1), "k2": S(""), "v": I(7)}
    base = {"inp": {"kind": "bulk", "rows": [], "require": [{"col": "k1", "vals": [I(1)]}],
                    "colvals": [{"col": "v", "vals": [I(7)]}],
                    "opts": {"on_many": "-", "update": "-", "add": "-", "allow": "-"},
                    "prep": {"kind": "doc", "pre": []}},
            "out": {"exc": "", "same": 0, "retok": 1, "recs": [[1]], "adds": [1], "upds": [], "action": "",
                    "after": [row]}, "exc": ""}
  p = os.path.join(workdir, "selftest-base.json")
  json.dump([base], open(p, "w"))
  if fnspec.mutation_selftest(TRACE, p, lambda case: case, workdir):
    raise tlc.MachineryError("self-test: the unmodified record is rejected by %s" % TRACE)

  def mutate(case):
    case["out"]["after"][-1]["v"] = I(99)
    return case
  if not fnspec.mutation_selftest(TRACE, p, mutate, workdir):
    raise tlc.MachineryError("self-test: a record with an overwritten cell was accepted by %s" % TRACE)


def _product(factors):
  return [{"kind": q["kind"], "rows": t, "require": q["require"], "colvals": q["colvals"], "opts": o}
          for t in factors["tables"] for q in factors["requests"] for o in factors["options"]]


def run(ctx):
  cfg = "MC_Upsert_%s.cfg" % ctx.tier
  factors, model = fnspec.enumerate_inputs("MC_Upsert", cfg, ctx.workdir)
  inputs = _product(factors)
  n_t, n_q, n_o = (len(factors[k]) for k in ("tables", "requests", "options"))
  if model["distinct"] != len(inputs) + n_t:
    raise tlc.MachineryError("TLC explored %d states, the written factors give %d inputs + %d tables"
                             % (model["distinct"], len(inputs), n_t))
  ctx.log("TLC enumerated %d inputs = %d tables x %d requests x %d option sets (%.1fs)"
          % (len(inputs), n_t, n_q, n_o, model["wall"]))
  extra = random_inputs(ctx.seed, 4000 if ctx.quick else 40000)
  todo = inputs + extra
  t0 = time.time()
  files = fnspec.run_cases(WORKER, todo, ctx.workdir, nshards=16 if ctx.quick else 64)
  ctx.log("the real engine ran %d upserts in %.1fs" % (len(todo), time.time() - t0))
  viol, n, wall = judge(files, ctx.workdir)
  ctx.log("TLC judged %d executions in %.1fs" % (n, wall))
  _selftest(files, viol, ctx.workdir)
  outcomes, nontrivial = {}, 0
  for f in files:
    for c in json.load(open(f)):
      ob = c["out"]
      changed = ob["after"] != c["inp"]["rows"]
      key = "%s:%s" % (c["inp"]["kind"], ob["exc"] or ("changed" if changed else "unchanged"))
      outcomes[key] = outcomes.get(key, 0) + 1
      nontrivial += 1 if (changed or ob["exc"]) else 0
  return {
    "states": model["distinct"] + n, "transitions": model["generated"] + n,
    "traces_validated_against_impl": n,
    "evaluations": n, "distinct_nontrivial": nontrivial,
    "rule": "TLC enumerates every input within the bound of %s (tables of <= %d rows over k1 in {1,2} x "
            "k2 in {'a','1'}; BulkAddOrUpdateRecord with <= 2 input rows and AddOrUpdateRecord; require "
            "over {}, {k1}, {k2}, {k1,k2} incl. '1' for the Int and 1 for the Text column; col_values "
            "{}, {v}, or overwriting a key column; wrong list lengths; %d option sets) plus %d seeded "
            "random inputs beyond the bound, a third of them after a short history of user actions; an "
            "evaluation is one recorded execution judged by Upsert!Clauses; non-trivial = the table "
            "changed or the action raised"
            % (cfg, max(len(t) for t in factors["tables"]), n_o, len(extra)),
    "samples": [inputs[len(inputs) // 3], inputs[-1], extra[0]],
    "exhaustive": True,
    "assumptions": ["TLC",
                    "harness/fn_upsert.py prepares the table at doc-action level (or by the user-action "
                    "history named in the input), records retValues, fetch_table of the table and, on an "
                    "exception, a digest of every other table",
                    "cell values are integers, decimal numerals and a few other ASCII texts, for which "
                    "Int/Text conversion is the one written in Upsert!Conv (no blank text for Int columns)",
                    "the docstring leaves open whether a later input row of the same request sees the "
                    "effects of earlier ones, which fresh ids are used, whether require rows that are "
                    "equal only after type conversion are duplicates, and what AddOrUpdateRecord does with "
                    "valid arguments and nothing in require and col_values: every choice is admitted"],
    "violations": viol,
    "extra": {"tables": n_t, "requests": n_q, "option_sets": n_o, "inputs_enumerated": len(inputs),
              "inputs_random": len(extra),
              "inputs_with_history": sum(1 for e in extra if e["prep"]["kind"] != "doc"),
              "observed_outcomes": outcomes},
  }


def replay(ctx, data):
  files = fnspec.run_cases(WORKER, [data["case"]["inp"]], ctx.workdir)
  viol, _n, _ = judge(files, ctx.workdir)
  return {"violations": viol}


# ---------------------------------------------------------------------------------------------
# Matchers for defects of the unchanged tree
# ---------------------------------------------------------------------------------------------
def _m_single_nothing_given(v):
  """AddOrUpdateRecord returns {'recordIds': [], 'action': 'NONE'} for empty require and empty
  col_values BEFORE any argument is validated: an invalid on_many / a missing allow_empty_require
  is not rejected.  Recognised only in exactly that shape, document unchanged."""
  inp, ob = v["case"]["inp"], v["case"]["out"]
  return v["clause"] == "C28.reject" and inp["kind"] == "single" and not inp["require"] and \
    not inp["colvals"] and not ob["exc"] and ob["retok"] == 1 and ob["recs"] == [[]] and \
    ob["action"] == "NONE" and ob["after"] == inp["rows"]


def _m_stale_lookup_after_replace(v):
  """Engine.load_table (doc action ReplaceTableData) clears the columns but not the lookup maps, so
  a row that ReplaceTableData made disappear is still found by lookup_records (as record #0).
  Recognised only for a ReplaceTableData history in which an input row's converted `require` matches
  a row that was in the table before ReplaceTableData and is no longer."""
  inp = v["case"]["inp"]
  prep = inp.get("prep") or {}
  if prep.get("kind") != "replace" or v["clause"] not in ("C28.raised", "C28.result", "C28.ret"):
    return False
  ids = {r["id"] for r in inp["rows"]}
  gone = [r for r in prep["pre"] if r["id"] not in ids]
  lens = {len(c["vals"]) for c in inp["require"] + inp["colvals"]}
  if len(lens) != 1:
    return False
  for i in range(lens.pop()):
    for r in gone:
      if all(conv(c["col"], c["vals"][i]) == r[c["col"]] for c in inp["require"]):
        return True
  return False


def _existing_rows_by_start_lookup(inp, trim):
  """The rows that existed before the request, after every input row has been applied to the records
  it selects in the table AT THE START (what BulkAddOrUpdateRecord collects into one
  BulkUpdateRecord); trim=True drops the values of an input row for a record if they all equal the
  record's cells before the request (Engine.trim_update_action, which assumes distinct row ids).
  Returns (rows, repeated)."""
  o = inp["opts"]
  on_many = "first" if o["on_many"] == "-" else o["on_many"]
  before = {r["id"]: r for r in inp["rows"]}
  now = {rid: dict(r) for rid, r in before.items()}
  lens = {len(c["vals"]) for c in inp["require"] + inp["colvals"]}
  if len(lens) != 1 or o["update"] == "F":
    return now, False
  hits = {}
  for i in range(lens.pop()):
    ids = sorted(rid for rid, r in before.items()
                 if all(conv(c["col"], c["vals"][i]) == r[c["col"]] for c in inp["require"]))
    if len(ids) > 1:
      ids = ids[:1] if on_many == "first" else ids if on_many == "all" else []
    for rid in ids:
      hits[rid] = hits.get(rid, 0) + 1
      vals = {c["col"]: conv(c["col"], c["vals"][i]) for c in inp["colvals"]}
      if not (trim and all(val == before[rid][col] for col, val in vals.items())):
        now[rid].update(vals)
  return now, any(n > 1 for n in hits.values())


def _m_repeated_update_trimmed(v):
  """Several input rows of one request select the same record (empty `require`, or require values
  that differ only in type): BulkAddOrUpdateRecord hands BulkUpdateRecord the same row id more than
  once, and trim_update_action drops the values of an input row that equal the record's cells before
  the request, so an earlier input row's values survive a later one's.  Recognised only if the rows that existed before
  are exactly what that trimming gives and not what applying the input rows in order gives."""
  inp, ob = v["case"]["inp"], v["case"]["out"]
  # (C28.ret: when the table happens to be what another lookup discipline gives, but the returned ids
  # are not the ones that go with it)
  if v["clause"] not in ("C28.result", "C28.ret") or ob["exc"]:
    return False
  trimmed, repeated = _existing_rows_by_start_lookup(inp, True)
  inorder, _ = _existing_rows_by_start_lookup(inp, False)
  seen = {r["id"]: r for r in ob["after"] if r["id"] in trimmed}
  return repeated and seen == trimmed and seen != inorder


MATCHERS = {
  "c28_single_nothing_given": _m_single_nothing_given,
  "c28_stale_lookup_after_replace": _m_stale_lookup_after_replace,
  "c28_repeated_update_trimmed": _m_repeated_update_trimmed,
}
