"""
S->C binding of spec/Core.tla (the relational core in small scope), shared by C01, C04, C05, C10, C11, C12.

MC_Core explores every valid state of the bounded universe with every user action (one step + undo from
every state: an inductive argument, see the module) and exports the (state, action) cases; harness/fn_core.py
brings the real engine to each state, applies the action, undoes it; spec/Trace_Core.tla judges what the
engine reported.  The result is cached under /verif/.cache like the shared corpora (key: every file under
<repo>/sandbox/grist, the Core files, tier, seed).
"""
import hashlib
import json
import os
import random

import corpus
import fnspec
import shared
import tlc

FILES = ["spec/Core.tla", "spec/MC_Core.tla", "spec/MC_Core_quick.cfg", "spec/Trace_Core.tla", "spec/Trace_Core.cfg",
         "harness/fn_core.py", "harness/adapter.py", "harness/fnspec.py", "harness/tlc.py", "harness/corpus.py",
         "checks/_core.py"]
QUICK_CASES = 100000
QUICK_PAIRS2 = 40000        # two-action bundles
THOROUGH_PAIRS2 = 400000
REUSE = 200        # harness/fn_core.py REUSE: cases served by one engine
NWORK = 16


def _key(ctx):
  h = hashlib.sha256()
  h.update(shared.tree_hash([os.path.join(corpus.REPO, "sandbox/grist")]).encode())
  for rel in FILES:
    with open(os.path.join(shared.VERIF, rel), "rb") as f:
      h.update(rel.encode())
      h.update(f.read())
  h.update(("core|%s|%s" % (ctx.tier, ctx.seed)).encode())
  return h.hexdigest()[:24]


def _judge(files, workdir):
  fails, n, wall = fnspec.judge("Trace_Core", files, workdir)
  return fails, n, wall


def get(ctx):
  key = _key(ctx)
  cdir = os.path.join(shared.VERIF, ".cache", "core-" + key)
  res_path = os.path.join(cdir, "result.json")
  if os.path.exists(res_path):
    r = json.load(open(res_path))
    r["reused"] = True
    return r
  os.environ["GRIST_VERIF_WRAP"] = os.environ.get("GRIST_VERIF_WRAP", "")
  wd = os.path.join(ctx.workdir, "core")
  os.makedirs(wd, exist_ok=True)
  space_path = os.path.join(wd, "space.json")
  res = tlc.run_model("MC_Core", "MC_Core_quick.cfg", wd, workers=16, timeout=3000,
                      env_extra={"OUT_FILE": space_path}, coverage=False)
  if res["violated"] or res["rc"] != 0:
    raise tlc.MachineryError("Core design model failed:\n%s" % res["out"][-3000:])
  space = json.load(open(space_path))
  pairs = space["pairs"]
  n_pairs = len(pairs)
  if ctx.quick and len(pairs) > QUICK_CASES:
    pairs = random.Random("core-%d" % ctx.seed).sample(pairs, QUICK_CASES)
  ctx.log("Core: %d distinct model states; %d of %d (state, action) cases go to the engine" % (
    res["distinct"], len(pairs), n_pairs))
  # bundles of TWO actions (a seeded sample of first steps, each followed by a seeded second action; where the
  # second is refused the whole bundle must be rolled back): applicability is decided by the judge
  rnd = random.Random("core2-%d" % ctx.seed)
  n2 = QUICK_PAIRS2 if ctx.quick else THOROUGH_PAIRS2
  firsts = [rnd.choice(space["pairs"]) for _ in range(n2)]
  cases = [{"S": space["states"][i - 1], "as": [space["actions"][j - 1]]} for i, j in pairs]
  cases += [{"S": space["states"][i - 1], "as": [space["actions"][j - 1], rnd.choice(space["actions"])]}
            for i, j in firsts]
  rnd.shuffle(cases)
  args = []
  for w in range(NWORK):
    p = os.path.join(wd, "cases-%02d.json" % w)
    json.dump(cases[w::NWORK], open(p, "w"))
    args.append({"inp": p, "out": os.path.join(wd, "obs-%02d.json" % w)})
  corpus.run_workers("fn_core.py", args)
  files = [a["out"] for a in args]
  fails, n, wall = _judge(files, wd)
  # binding self-test: corrupted observations must be rejected, each by the clause that is about it
  _selftest(files[0], wd)
  viol, notes = [], {}
  ops = {}
  for f in files:
    for c in json.load(open(f)):
      k = "%s/%s" % ("+".join(a["op"] for a in c["as"]), "rejected" if c["exc"] else "accepted")
      ops[k] = ops.get(k, 0) + 1
  for f in fails:
    cases = None
    for cl in f["c"]:
      if cl.startswith("Core."):
        notes[cl] = notes.get(cl, 0) + 1
        continue
      if cases is None:
        cases = json.load(open(f["file"]))
      start = ((f["i"] - 1) // REUSE) * REUSE
      chunk = [{"S": c["S"], "as": c["as"]} for c in cases[start:f["i"]]]
      c = f["case"]
      viol.append({"clause": cl, "core_chunk": chunk,
                   "what": "Core case %s from %s: exc=%r; after %s; after undo %s" % (
                     json.dumps(c["as"]), json.dumps(c["S"]), c["exc"], json.dumps(c["after"]), json.dumps(c["undo"]))})
  if n and notes.get("Core.load-failed", 0) + notes.get("Core.load-mismatch", 0) > n // 2:
    raise tlc.MachineryError("Core: most cases could not be brought to their state: %r" % (notes,))
  out = {"violations": viol, "notes": notes, "n_cases": n, "n_pairs": n_pairs, "distinct": res["distinct"],
         "generated": res["generated"], "ops": ops, "tlc_wall": round(wall, 1), "key": key, "reused": False}
  os.makedirs(cdir, exist_ok=True)
  json.dump(out, open(res_path, "w"))
  return out


def _selftest(case_file, wd):
  def pick(pred):
    for c in json.load(open(case_file)):
      if not c["exc"] and not c["fail"] and pred(c):
        return json.loads(json.dumps(c))
    return None
  muts = []
  c = pick(lambda c: c["after"]["o"] and c["after"]["p"])
  if c:
    c["after"]["o"][0]["who"] = 9
    muts.append(("C10.model", c))
  c = pick(lambda c: any(p["orders"] for p in c["after"]["p"]))
  if c:
    next(p for p in c["after"]["p"] if p["orders"])["orders"] = []
    muts.append(("C11.model", c))
  c = pick(lambda c: c["after"]["s"])
  if c:
    c["after"]["s"][0]["count"] += 1
    muts.append(("C12.model", c))
  c = pick(lambda c: c["after"]["p"])
  if c:
    c["after"]["p"][0]["total"] += 1
    muts.append(("C05.model", c))
  c = pick(lambda c: c["undo"]["o"])
  if c:
    c["undo"]["o"][0]["amt"] += 1
    muts.append(("C01.model", c))
  if len(muts) < 5:
    raise tlc.MachineryError("Core self-test: no suitable recorded case")
  p = os.path.join(wd, "selftest-core.json")
  json.dump([m[1] for m in muts], open(p, "w"))
  fails, _, _ = _judge([p], wd)
  got = {f["i"]: f["c"] for f in fails}
  for k, (cl, _) in enumerate(muts):
    if not any(x.startswith(cl) for x in got.get(k + 1, [])):
      raise tlc.MachineryError("Core self-test: corrupted observation not rejected by %s (got %r)" % (cl, got.get(k + 1)))


def merge(ctx, out, prefix):
  """Add the Core results to the evidence dict of a history-based check; prefix like 'C10.'."""
  r = get(ctx)
  out["violations"] = list(out.get("violations", [])) + [v for v in r["violations"] if v["clause"].startswith(prefix)]
  out["states"] = out.get("states", 0) + r["distinct"]
  out["transitions"] = out.get("transitions", 0) + r["generated"]
  out["traces_validated_against_impl"] = out.get("traces_validated_against_impl", 0) + r["n_cases"]
  out["evaluations"] = out.get("evaluations", 0) + r["n_cases"]
  out.setdefault("extra", {})["core_model"] = {
    "module": "Core.tla / MC_Core / Trace_Core", "distinct_states": r["distinct"], "generated": r["generated"],
    "cases_replayed_into_engine": r["n_cases"], "applicable_cases": r["n_pairs"], "by_action": r["ops"],
    "notes_not_verdicts": r["notes"], "reused": r["reused"], "key": r["key"]}
  out["rule"] = out.get("rule", "") + (
    "; in addition spec/Core.tla (two linked tables, reverse column, lookup and reference formulas, summary table): "
    "TLC takes every action from every valid state of the bounded universe, each case is replayed into the real engine "
    "and Trace_Core evaluates the property predicates on what the engine reports after loading, after the action and "
    "after its undo")
  return out


def replay(ctx, data, prefix):
  wd = os.path.join(ctx.workdir, "core")
  os.makedirs(wd, exist_ok=True)
  p = os.path.join(wd, "cases.json")
  json.dump(data["core_chunk"], open(p, "w"))
  outp = os.path.join(wd, "obs.json")
  corpus.run_workers("fn_core.py", [{"inp": p, "out": outp}])
  fails, _, _ = _judge([outp], wd)
  n = len(data["core_chunk"])
  viol = []
  for f in fails:
    if f["i"] == n:
      for cl in f["c"]:
        if cl.startswith(prefix):
          viol.append({"clause": cl, "core_chunk": data["core_chunk"], "what": json.dumps(f["case"])[:600]})
  return {"violations": viol}
