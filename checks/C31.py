"""C31 - decided on the shared engine-history corpus by the C31.* clauses of spec/Trace_Doc.tla."""
from checks import _shared

LEVEL = "model_checking"


def run(ctx):
  return _shared.run_clauses(ctx, "C31.", lambda e: e['k'] == 'B' and e['tag'] == 'ua',
                             "every reply: direct flags parallel to stored actions (further C31 clauses in Trace_Doc)",
                             corpora=_shared.BOTH)


def replay(ctx, data):
  return _shared.replay_clause(ctx, data, "C31.")
