"""C14 - sorted searches (find.lt/le/gt/ge/eq) and PREVIOUS / NEXT / RANK agree with a linear scan
(SortedSearch.tla).

S->C: TLC (MC_SortedSearch) enumerates small histories of a table T(g, s) - every table of its
families, optionally followed by edits - shows on each that the linear-scan definitions accept a
bisection model of the code, and writes them out together with the value universes and the observers
(the formulas).  harness/fn_sortedsearch.py builds each table in a real engine, watches it through
those formulas (probe table O(g0, q) for find.*, columns of T for PREVIOUS/NEXT/RANK) after the set-up
and after every edit; Trace_SortedSearch judges every recorded table state against the content
recorded at that state.
C->S: seeded random larger tables (<= 8 rows, gaps in row ids, fractional / repeated manualSort,
floats, bools, longer and non-ASCII strings, up to 4 edits) go through the same judge.
"""
import json
import os
import random

import fnspec
import tlc

LEVEL = "model_checking"
MC = "MC_SortedSearch"
TRACE = "Trace_SortedSearch"
WORKER = "fn_sortedsearch.py"
FIND_OPS = ("lt", "le", "gt", "ge", "eq")
POS_OPS = ("prev", "next", "rank", "rankd")


# ---------------------------------------------------------------------------------------------
# tagged values (display and input generation only; see SortedSearch.tla)
# ---------------------------------------------------------------------------------------------
def Z():
  return {"k": "z", "n": 0, "s": []}


def I(x):
  return {"k": "i", "n": 2 * x, "s": []}


def F2(x2):
  return {"k": "f", "n": x2, "s": []}


def B(b):
  return {"k": "b", "n": 2 if b else 0, "s": []}


def S(text):
  return {"k": "s", "n": 0, "s": [ord(c) for c in text]}


def show(v):
  k = v["k"]
  if k == "z":
    return "None"
  if k == "i":
    return str(v["n"] // 2)
  if k == "f":
    return repr(v["n"] / 2.0)
  if k == "b":
    return "True" if v["n"] else "False"
  if k == "s":
    return repr("".join(chr(c) for c in v["s"]))
  return "<?>"


def norm(v):
  """The JSON written by TLC names the same fields in another order; [] may be missing nothing."""
  return {"k": v["k"], "n": v["n"], "s": list(v["s"])}


# ---------------------------------------------------------------------------------------------
# inputs
# ---------------------------------------------------------------------------------------------
def expand(inp, universes):
  """An input as enumerated by TLC (rows (g, s), msv, steps, u, set) in the worker's explicit form."""
  n = len(inp["rows"])
  rows = [{"id": i + 1, "ms": 2 * (i + 1) if inp["msv"] == "asc" else 2 * (n - i),
           "g": r["g"], "s": norm(r["s"])} for i, r in enumerate(inp["rows"])]
  U = universes[inp["u"] - 1]
  pr = [{"g0": g0, "q": norm(q)} for g0 in (0, 1) for q in U]
  steps = [{"op": s["op"], "id": s["id"], "g": s["g"], "s": norm(s["s"])} for s in inp["steps"]]
  return {"set": inp["set"], "rows": rows, "pr": pr, "steps": steps}


POOLS = [
  [Z(), I(0), I(1), I(2), S("a")],
  [Z(), I(1), B(True), F2(2), F2(3), I(2), B(False), I(0), F2(0)],           # 1 = True = 1.0, 0 = False = 0.0
  [S(""), S("a"), S("A"), S("aa"), S("ab"), S("b"), S("B"), S(u"\xe9"), S(u"中"), S("a ")],
  [Z(), I(-3), I(-1), F2(-1), I(0), F2(1), I(1), F2(3), I(7), I(100000), S("1"), S("-1"), S("None")],
  [Z(), Z(), I(5), I(5), S("x"), S("x")],
]


def random_inputs(seed, count):
  rng = random.Random("C14-%d" % seed)
  out = []
  while len(out) < count:
    pool = rng.choice(POOLS)
    if rng.random() < 0.3:
      pool = pool + rng.choice(POOLS)
    n = rng.choice((0, 1, 2, 3, 4, 5, 5, 6, 6, 7, 8))
    ids = sorted(rng.sample(range(1, 13), n))
    gmax = rng.choice((0, 1, 1, 2))
    x = rng.random()
    if x < 0.4:
      ms = [2 * i for i in ids]                                   # manualSort = id
    elif x < 0.8:
      ms = rng.sample(range(1, 41), n)                            # distinct, some fractional
    else:
      ms = [rng.choice((2, 3, 4)) for _ in ids]                   # repeated manualSort
    rows = [{"id": i, "ms": m, "g": rng.randint(0, gmax), "s": dict(rng.choice(pool))} for i, m in zip(ids, ms)]
    qs = [r["s"] for r in rows] + [rng.choice(pool) for _ in range(4)]
    pr = []
    for _ in range(rng.choice((4, 8, 12))):
      pr.append({"g0": rng.randint(0, gmax), "q": dict(rng.choice(qs))})
    steps, live = [], list(ids)
    for _ in range(rng.choice((0, 0, 1, 2, 3, 4))):
      op = rng.choice(("set_s", "set_s", "set_g", "rm", "add"))
      if op != "add" and not live:
        op = "add"
      st = {"op": op, "id": 0, "g": 0, "s": Z()}
      if op != "add":
        st["id"] = rng.choice(live)        # only rows of the set-up are named: their ids are known
      if op == "rm":
        live.remove(st["id"])
      if op in ("set_g", "add"):
        st["g"] = rng.randint(0, gmax)
      if op in ("set_s", "add"):
        st["s"] = dict(rng.choice(pool))
      steps.append(st)
    out.append({"set": "std", "rows": rows, "pr": pr, "steps": steps, "rnd": True})
  return out


# ---------------------------------------------------------------------------------------------
# judging (TLC) and violation records
# ---------------------------------------------------------------------------------------------
def _table(t):
  return "[" + ", ".join("(id %d, manualSort %s, g %d, s %s)" % (r["id"], r["ms"] / 2.0, r["g"], show(r["s"]))
                         for r in t) + "]"


def _formula(formulas, oset, kind, o, op):
  table = "O" if kind == "f" else "T"
  ops = FIND_OPS if kind == "f" else POS_OPS
  want = "%s%d_%s" % (kind, o, ops[op])
  for col, text in formulas.get(oset, {}).get(table, []):
    if col == want:
      return text
  return want


def _what(case, state, d, formulas):
  ob = case["out"][state]
  oset = case["inp"]["set"]
  steps = case["inp"]["steps"][:state]
  hist = "" if not steps else " after " + ", ".join(
    "%s(%s)" % (s["op"], ", ".join(str(x) for x in ([s["id"]] if s["op"] != "add" else []) +
                                   ([s["g"]] if s["op"] in ("set_g", "add") else []) +
                                   ([show(s["s"])] if s["op"] in ("set_s", "add") else []))) for s in steps)
  errs = [e for e in case.get("errs", []) if e.startswith("%d:" % state)]
  if d["k"].startswith("C14.find."):
    op = d["op"] - 1
    p = ob["pr"][d["r"] - 1]
    text = _formula(formulas, oset, "f", d["o"], op)
    col = "O.f%d_%s:%d:" % (d["o"], FIND_OPS[op], d["r"])
    where = "with $g0 = %d, $q = %s" % (p["g0"], show(p["q"]))
  elif d["k"] in ("C14.prev", "C14.next", "C14.rank"):
    op = d["op"] - 1
    text = _formula(formulas, oset, "p", d["o"], op)
    col = "T.p%d_%s:%d:" % (d["o"], POS_OPS[op], d["r"])
    where = "in row id %d" % ob["t"][d["r"] - 1]["id"]
  else:
    return "%s on T = %s%s" % (d["k"], _table(ob["t"]) if case["out"] else "?", hist)
  err = [e.rsplit(":", 1)[1] for e in errs if (":" + col) in (":" + e.split(":", 1)[1] + ":")]
  got = "raised %s" % err[0] if d["got"] == -1 and err else ("raised" if d["got"] == -1 else str(d["got"]))
  return "%s %s on T = %s%s -> %s, the linear scan gives %d" % (text, where, _table(ob["t"]), hist, got, d["want"])


def judge(files, workdir, obs, formulas):
  """Run Trace_SortedSearch over the case files.  Returns (violations, n_cases, n_states, n_results, wall)."""
  _failures, n, wall = fnspec.judge(TRACE, files, workdir, xmx="2g")
  states = results = 0
  viol, seen = [], set()
  for f in files:
    cases = json.load(open(f))
    for c in cases:
      states += len(c["out"])
      for ob in c["out"]:
        results += sum(len(x) * 5 for x in ob["f"]) + sum(len(x) * 4 for x in ob["p"])
    for b in json.load(open(f + ".verdict.json")):
      case = cases[b["i"] - 1]
      if "C14.undecidable" in b["c"]:
        raise tlc.MachineryError("a recorded table holds values outside the modelled universe (the "
                                 "specification cannot decide the case): %s" % json.dumps(case)[:2000])
      for state, fails in enumerate(b["d"]):
        by_clause = {}
        for d in fails:
          by_clause.setdefault(d["k"], []).append(d)
        for clause in sorted(by_clause):
          ds = sorted(by_clause[clause], key=lambda d: (d["o"], d["r"]))
          if clause == "C14.raised":
            cut = case
          else:     # the failing state and what led to it; later edits do not matter
            cut = {"inp": dict(case["inp"], steps=case["inp"]["steps"][:state]), "out": case["out"][:state + 1],
                   "exc": case["exc"], "errs": [e for e in case.get("errs", []) if int(e.split(":")[0]) <= state]}
          key = (clause, json.dumps(cut["inp"], sort_keys=True))
          if key in seen:
            continue
          seen.add(key)
          oset = case["inp"]["set"]
          viol.append({"clause": clause, "state": state, "case": cut, "fail": ds[0], "n_fail": len(ds),
                       "failing_observers": sorted({d["o"] for d in ds}),
                       "obs": {"F": {oset: obs["F"][oset]}, "P": {oset: obs["P"][oset]}},
                       "what": _what(cut, state, ds[0], formulas) if clause != "C14.raised"
                               else "a user action raised %s: %s" % (case["exc"], json.dumps(case["inp"])[:300])})
  return viol, n, states, results, wall


def _cap(viol, per_class=12):
  """A broken tree fails thousands of cases: keep the smallest of every clause / known class."""
  classes = {}
  for v in viol:
    known = tuple(n for n, fn in sorted(MATCHERS.items()) if fn(v))
    classes.setdefault((v["clause"], known), []).append(v)
  kept = []
  for key in sorted(classes):
    vs = sorted(classes[key], key=lambda v: (len(v["case"]["inp"]["rows"]), len(v["case"]["inp"]["steps"]),
                                             len(json.dumps(v["case"]["inp"]))))
    kept.extend(vs[:per_class])
  return kept, {"%s%s" % (k[0], "/" + ",".join(k[1]) if k[1] else ""): len(v) for k, v in classes.items()}


def _run_worker(inputs, workdir, obs, nshards=None, tag="cases", fresh=False):
  opath = os.path.join(workdir, "observers.json")
  if not os.path.exists(opath):
    json.dump(obs, open(opath, "w"))
  files = fnspec.run_cases(WORKER, inputs, workdir, nshards=nshards, tag=tag,
                           extra={"obs": opath, "fresh": fresh})
  formulas = json.load(open(files[0] + ".formulas.json"))
  return files, formulas


def _regroup(files, n, workdir):
  """The recorded cases of the worker shards, unchanged, in n files (one judge JVM per file)."""
  out = []
  for k in range(n):
    cases = []
    for f in files[k::n]:
      cases.extend(json.load(open(f)))
    p = os.path.join(workdir, "judge-%02d.json" % k)
    json.dump(cases, open(p, "w"))
    out.append(p)
  return out


def _confirm(viol, workdir, obs):
  """Histories share an engine (T and O are re-loaded in between): run every violating history again
  in an engine of its own and let TLC judge that run; say whether the violation is still there."""
  if not viol:
    return viol
  files, formulas = _run_worker([v["case"]["inp"] for v in viol], workdir, obs, nshards=min(8, len(viol)),
                                tag="confirm", fresh=True)
  again, _n, _s, _r, _w = judge(files, workdir, obs, formulas)
  still = {(a["clause"], json.dumps(a["case"]["inp"], sort_keys=True)): a for a in again}
  out = []
  for v in viol:
    a = still.get((v["clause"], json.dumps(v["case"]["inp"], sort_keys=True)))
    if a is not None:
      a["own_engine"] = True
      out.append(a)
    else:
      v["own_engine"] = False
      v["what"] += " (only after earlier histories in the same engine)"
      out.append(v)
  return out


def _selftest(files, viol, workdir):
  """The binding, one TLC run over three copies of a recorded table state that the judge accepted:
       1 unchanged                                              -> must be accepted
       2 one find.le result replaced by the find.lt result      -> must fail exactly C14.find.le
       3 one RANK result raised by one                          -> must fail exactly C14.rank
  (if the tree is so broken that no suitable record was accepted, a rejected record corrected with
  the values TLC reported as wanted is used)."""
  def spots(c):
    ob = c["out"][0]
    return [(fi, j) for fi, col in enumerate(ob["f"]) for j, r in enumerate(col) if r[0] != r[1] and min(r) >= 0]

  def usable(c):
    return not c["exc"] and c["inp"]["set"] == "std" and not c["inp"]["steps"] and len(c["out"]) == 1 and \
      len(c["out"][0]["t"]) >= 2

  base = None
  for f in files:
    rejected = {b["i"] for b in json.load(open(f + ".verdict.json"))}
    for k, c in enumerate(json.load(open(f))):
      if usable(c) and (k + 1) not in rejected and spots(c) and \
         all(min(r) >= 0 for col in c["out"][0]["p"] for r in col):
        base = (c, spots(c)[0])
        break
    if base:
      break
  if base is None:
    # a tree so broken that no suitable record was accepted: take a rejected record and put in the
    # values TLC itself reported as wanted (nothing is computed here); copy 1 shows TLC accepts it
    for f in files:
      cases = json.load(open(f))
      for b in json.load(open(f + ".verdict.json")):
        c = cases[b["i"] - 1]
        if not usable(c) or "C14.undecidable" in b["c"] or "C14.raised" in b["c"]:
          continue
        for d in b["d"][0]:
          if d["k"].startswith("C14.find."):
            c["out"][0]["f"][d["o"] - 1][d["r"] - 1][d["op"] - 1] = d["want"]
          else:
            c["out"][0]["p"][d["o"] - 1][d["r"] - 1][d["op"] - 1] = d["want"]
        if spots(c):
          base = (c, spots(c)[0])
          break
      if base:
        break
  if base is None:
    raise tlc.MachineryError("self-test: no recorded table state is usable for %s" % TRACE)
  c, (fi, j) = base
  good = json.loads(json.dumps(c))
  bad_find = json.loads(json.dumps(c))
  bad_find["out"][0]["f"][fi][j][1] = bad_find["out"][0]["f"][fi][j][0]
  bad_rank = json.loads(json.dumps(c))
  bad_rank["out"][0]["p"][0][0][2] += 1
  p = os.path.join(workdir, "selftest.json")
  json.dump([good, bad_find, bad_rank], open(p, "w"))
  results, _ = tlc.validate_shards(TRACE, [p], workdir, parallel=1)
  got = {r["i"]: sorted(r["c"]) for r in results}
  want = {2: ["C14.find.le"], 3: ["C14.rank"]}
  if got != want:
    raise tlc.MachineryError("self-test: %s judged the unchanged/corrupted records %r, expected %r"
                             % (TRACE, got, want))


def _nontrivial(ob):
  """A table state with a tie or with mixed classes among the sort values of one group."""
  groups = {}
  for r in ob["t"]:
    groups.setdefault(r["g"], []).append(r["s"])
  for vals in groups.values():
    cls = {"n" if v["k"] in "ifb" else v["k"] for v in vals}
    keys = [(("n", v["n"]) if v["k"] in "ifb" else (v["k"], tuple(v["s"]))) for v in vals]
    if len(cls) > 1 or len(set(keys)) < len(keys):
      return True
  return False


def run(ctx):
  cfg = "%s_%s.cfg" % (MC, ctx.tier)
  data, model = fnspec.enumerate_inputs(MC, cfg, ctx.workdir)
  obs = {"F": data["F"], "P": data["P"]}
  raw = {json.dumps(i, sort_keys=True) for i in data["inputs"]}
  if len(raw) != model["distinct"] // 2:          # every input is two states: not judged / judged
    raise tlc.MachineryError("TLC found %d distinct inputs but wrote %d" % (model["distinct"] // 2, len(raw)))
  inputs, seen = [], set()
  for i in data["inputs"]:       # the families overlap, and a one-row table is the same for both manualSort
    e = expand(i, data["U"])     # variants: keep one copy of every history
    k = json.dumps(e, sort_keys=True)
    if k not in seen:
      seen.add(k)
      inputs.append(e)
  ctx.log("TLC enumerated %d histories (%d states) in %.1fs" % (len(inputs), model["distinct"], model["wall"]))
  rnd = random_inputs(ctx.seed, 150 if ctx.quick else 2500)
  todo = inputs + rnd
  random.Random(14).shuffle(todo)          # spread the long histories evenly
  files, formulas = _run_worker(todo, ctx.workdir, obs, nshards=16)
  if ctx.quick:      # a JVM takes longer to start than to judge a sixteenth of the quick cases
    files = _regroup(files, 4, ctx.workdir)
  viol, n, states, results, wall = judge(files, ctx.workdir, obs, formulas)
  ctx.log("TLC judged %d histories / %d table states / %d formula results in %.1fs" % (n, states, results, wall))
  if n != len(todo):
    raise tlc.MachineryError("recorded %d cases for %d inputs" % (n, len(todo)))
  _selftest(files, viol, ctx.workdir)
  viol, classes = _cap(viol)
  # violations of a known class are not run again (their matcher names the failing shape)
  known = [v for v in viol if any(fn(v) for fn in MATCHERS.values())]
  viol = known + _confirm([v for v in viol if not any(fn(v) for fn in MATCHERS.values())], ctx.workdir, obs)
  nontrivial = 0
  raised = {}
  for f in files:
    for c in json.load(open(f)):
      nontrivial += sum(1 for ob in c["out"] if _nontrivial(ob))
      for e in c.get("errs", []):
        raised[e.rsplit(":", 1)[1]] = raised.get(e.rsplit(":", 1)[1], 0) + 1
  return {
    "states": model["distinct"] + states, "transitions": model["generated"] + states,
    "traces_validated_against_impl": n,
    "evaluations": results, "distinct_nontrivial": nontrivial,
    "rule": "TLC enumerates every history of the families of %s (tables T(g, s) of <= 4 rows, g in {0,1}, s over "
            "{None, 0, 1, 2, 'a'} and, for smaller tables, also True, 'b', 1.5, ''; manualSort with or against the "
            "row id; 0-2 edits set_s / set_g / rm / add; probes = {0,1} x the whole universe) plus %d seeded random "
            "histories; every table state is watched by 9 find observers x 5 operations per probe and 7 position "
            "observers x 4 operations per row; an evaluation is one formula result judged by TLC against the table "
            "content recorded at that state; non-trivial = a table state with a tie or mixed classes among the "
            "sort values of a group" % (cfg, len(rnd)),
    "samples": inputs[len(inputs) // 2: len(inputs) // 2 + 2] + rnd[:1],
    "exhaustive": True,
    "assumptions": ["TLC",
                    "harness/fn_sortedsearch.py renders the observers of SortedSearch!FindObs / PosObs into "
                    "formulas, loads T and O at doc-action level, applies the edits as user actions and reads "
                    "rows, probes and formula results back with Engine.fetch_table",
                    "values are None, int, float (halves), bool and str: a sort-key pre-order that is total "
                    "(SortedSearch!Cmp; shown total and transitive on the universe by MC_SortedSearch)",
                    "the ordered record set is the one the specification derives from the recorded table "
                    "(order_by columns, then manualSort unless 'id' is given, then row id)",
                    "the enumerated space is a union of fully enumerated families, not the full product"],
    "violations": viol,
    "extra": {"histories_enumerated": len(inputs), "histories_random": len(rnd), "table_states": states,
              "formulas_that_raised": raised, "violation_classes": classes,
              "model_wall_s": round(model["wall"], 1), "judge_wall_s": round(wall, 1)},
  }


def replay(ctx, data):
  obs = data["obs"]
  files, formulas = _run_worker([data["case"]["inp"]], ctx.workdir, obs, fresh=True)
  viol, _n, _s, _r, _w = judge(files, ctx.workdir, obs, formulas)
  return {"violations": viol}


# ---------------------------------------------------------------------------------------------
# Matcher for the defect of the unchanged tree: order_by="id" (alone or first) gives lookupRecords an
# EMPTY sort specification (table.make_sort_spec cuts at 'id'), the record set is ordered by row id
# but carries no sort key, and PREVIOUS / NEXT / RANK raise ValueError("Can only use 'find' methods
# in a sorted reference list").  Recognised only by exactly that shape: every failing observer of
# the state orders by a literal 'id' first, and the formula raised ValueError.
# ---------------------------------------------------------------------------------------------
def _m_order_by_id(v):
  if v.get("clause") not in ("C14.prev", "C14.next", "C14.rank") or v["fail"]["got"] != -1:
    return False
  oset = v["case"]["inp"]["set"]
  pobs = v["obs"]["P"][oset]
  for o in v["failing_observers"]:
    ob = pobs[o - 1]["ob"]
    if not ob or ob[0]["c"] != "id" or ob[0]["desc"]:
      return False
  d = v["fail"]
  col = "%d:T.p%d_%s:%d:ValueError" % (v["state"], d["o"], POS_OPS[d["op"] - 1], d["r"])
  return col in v["case"].get("errs", [])


MATCHERS = {
  "c14_order_by_id_no_sort_key": _m_order_by_id,
}
