"""C16 - renames never change formula results (Rename.tla).

S->C: TLC (MC_Rename) enumerates (target entity, rename path, requested name) over a document whose
formula columns cover every reference form the property names (as abstract TREES that refer to tables
and columns by identity), shows the relation satisfiable on each, and writes the inputs out;
harness/fn_rename.py builds the document in the real engine, applies the rename step, undoes it and
records names / formula texts / cells keyed by identity; Trace_Rename judges every record with
Rename!Clauses (C16.values, C16.text, C16.applied, C16.raised, C16.undo).
C->S: seeded random documents (random trees of the same family, deeper and in other combinations,
random requested names) go through the same judge.
"""
import json
import os
import random
import sys
import time

import fnspec
import tlc

sys.path.insert(0, os.path.join(os.path.dirname(os.path.abspath(__file__)), "..", "harness"))

LEVEL = "model_checking"
WORKER = "fn_rename.py"
TRACE = "Trace_Rename"


# ---------------------------------------------------------------------------------------------
# display helpers (never judge): the same rendering as Rename!Toks / harness/fn_rename.py
# ---------------------------------------------------------------------------------------------
def _attrs(names, chain):
  return "".join("." + names.get(c, "<gone>") for c in chain)


def _ob(names, ob):
  if ob[0] == "s":
    return ob[1] + ob[2] + names.get(ob[3], "<gone>") + ob[1]
  parts = [_ob(names, x) for x in ob[1]]
  return "(" + ", ".join(parts) + (",)" if len(parts) == 1 else ")")


def render(names, e):
  k = e[0]
  g = lambda c: names.get(c, "<gone>")   # noqa: E731
  if k == "col":
    return "$" + g(e[1])
  if k == "rec":
    return "rec." + g(e[1])
  if k == "chain":
    return "$" + g(e[1][0]) + _attrs(names, e[1][1:])
  if k == "recchain":
    return "rec." + g(e[1][0]) + _attrs(names, e[1][1:])
  if k == "var":
    return e[1] + _attrs(names, e[2])
  if k == "lit":
    return e[1]
  if k == "str":
    return e[2] + e[1] + e[2]
  if k == "fstr":
    return "f'{" + render(names, e[1]) + "}'"
  if k == "list":
    return "[" + ", ".join(render(names, x) for x in e[1]) + "]"
  if k == "call":
    return e[1] + "(" + render(names, e[2]) + ")"
  if k == "lookup":
    eq = e[6] + "=" + e[6]
    args = [g(kw[0]) + eq + render(names, kw[1]) for kw in e[3]]
    if e[4]:
      args.append("order_by" + eq + _ob(names, e[4]))
    return g(e[2]) + "." + e[1] + "(" + ", ".join(args) + ")" + _attrs(names, e[5])
  if k == "all":
    return g(e[1]) + ".all" + _attrs(names, e[2])
  if k == "comp":
    close = {"[": "]", "{": "}"}.get(e[1], ")")
    return e[1] + render(names, e[3]) + " for " + e[2] + " in " + render(names, e[4]) + close
  if k == "pn":
    return (e[1] + "(rec" + ((", group_by=" + _ob(names, e[2])) if e[2] else "") +
            ((", order_by=" + _ob(names, e[3])) if e[3] else "") + ")" + _attrs(names, e[4]))
  if k == "let":
    return e[1] + " = " + render(names, e[2]) + "\nreturn " + render(names, e[3])
  return "<?>"


def formula_text(names, col):
  if col["body"][0] == "none":
    return ""
  return render(names, col["body"]) + (("  # " + col["cmt"]) if col["cmt"] else "")


def mentions(e, acc=None):
  """Entities a tree (or order-by value) names, in order of appearance (with repetitions)."""
  acc = [] if acc is None else acc
  if not isinstance(e, list) or not e:
    return acc
  k = e[0]
  if k in ("col", "rec"):
    acc.append(e[1])
  elif k in ("chain", "recchain"):
    acc.extend(e[1])
  elif k == "var":
    acc.extend(e[2])
  elif k in ("fstr",):
    mentions(e[1], acc)
  elif k == "list":
    for x in e[1]:
      mentions(x, acc)
  elif k == "call":
    mentions(e[2], acc)
  elif k == "lookup":
    acc.append(e[2])
    for kw in e[3]:
      acc.append(kw[0])
      mentions(kw[1], acc)
    mentions(e[4], acc)
    acc.extend(e[5])
  elif k == "all":
    acc.append(e[1])
    acc.extend(e[2])
  elif k == "comp":
    mentions(e[3], acc)
    mentions(e[4], acc)
  elif k == "pn":
    mentions(e[2], acc)
    mentions(e[3], acc)
    acc.extend(e[4])
  elif k == "let":
    mentions(e[2], acc)
    mentions(e[3], acc)
  elif k == "s":
    acc.append(e[3])
  elif k == "t":
    for x in e[1]:
      mentions(x, acc)
  return acc


# ---------------------------------------------------------------------------------------------
# judging (TLC) and violation records
# ---------------------------------------------------------------------------------------------
def _cut(inp, keep_formulas):
  """The same input with only the formula columns `keep_formulas` (and the formula columns they
  mention, and the target)."""
  sch = inp["sch"]
  keep = set(keep_formulas)
  grow = True
  while grow:
    grow = False
    for cid in list(keep):
      col = sch["cols"].get(cid)
      if not col:
        continue
      for m in mentions(col["body"]):
        if m in sch["cols"] and sch["cols"][m]["type"] == "Any" and m not in keep:
          keep.add(m)
          grow = True
  if inp["target"] in sch["cols"]:
    keep.add(inp["target"])
  cols = {cid: c for cid, c in sch["cols"].items() if c["type"] != "Any" or cid in keep}
  out = dict(inp)
  out["sch"] = {"tables": sch["tables"], "cols": cols}
  return out


def _what(case, clause, ft, fv):
  inp, o = case["inp"], case["out"]
  head = "%s of %s to %r" % (inp["path"], inp["target"], inp["req"])
  if o["fail"]:
    return "%s: %s" % (head, o["fail"])
  if o["exc"]:
    return "%s raised %s (document %s)" % (head, o["exc"], "unchanged" if o["dig0"] == o["dig1"] else "CHANGED")
  new = o["names1"].get(inp["target"])
  head += " -> %r" % (new,)
  if clause == "C16.text":
    bits = []
    for cid in ft[:2]:
      col = inp["sch"]["cols"].get(cid)
      want = formula_text(o["names1"], col) if col else o["texts0"].get(cid)
      bits.append("%s: %r became %r, the same tree under the new names is %r"
                  % (cid, o["texts0"].get(cid), o["texts1"].get(cid), want))
    return head + "; " + "; ".join(bits)
  if clause == "C16.values":
    bits = []
    for cid in fv[:2]:
      bits.append("%s (%r): cells %s became %s" % (cid, o["texts1"].get(cid), json.dumps(o["vals0"].get(cid))[:80],
                                                     json.dumps(o["vals1"].get(cid))[:120]))
    return head + "; " + "; ".join(bits)
  if clause == "C16.undo":
    diff = [k for k in o["texts0"] if o["texts2"].get(k) != o["texts0"][k]] + \
           [k for k in o["vals0"] if o["vals2"].get(k) != o["vals0"][k]] + \
           [k for k in o["names0"] if o["names2"].get(k) != o["names0"][k]]
    return head + "; undo %s; not restored: %s" % (o["undo_exc"] or "applied", sorted(set(diff))[:6])
  if clause == "C16.applied":
    changed = {k: [v, o["names1"].get(k)] for k, v in o["names0"].items() if o["names1"].get(k) != v}
    return head + "; names changed: %s; schema consistent: %s" % (json.dumps(changed)[:200], o["cons1"])
  return head


def load_cases(path):
  """The cases of a worker file with their documents put back in (replayable inputs)."""
  d = json.load(open(path))
  return [{"inp": {"sch": d["docs"][c["inp"]["doc"] - 1], "target": c["inp"]["target"],
                   "path": c["inp"]["path"], "req": c["inp"]["req"]}, "out": c["out"]} for c in d["cases"]]


def judge(files, workdir):
  """Run Trace_Rename over the case files. Returns (violations, n_cases, wall)."""
  _res, wall = tlc.validate_shards(TRACE, files, workdir, parallel=16, xmx="2g")
  viol, n = [], 0
  for f in files:
    cases = load_cases(f)
    n += len(cases)
    for b in json.load(open(f + ".verdict.json")):
      case = cases[b["i"] - 1]
      ft, fv = sorted(b.get("ft", [])), sorted(b.get("fv", []))
      for clause in sorted(b["c"]):
        if clause.startswith("SPEC."):
          raise tlc.MachineryError("%s: the machinery disagrees with itself on %s / %s"
                                   % (clause, json.dumps({k: v for k, v in case["inp"].items() if k != "sch"}),
                                      json.dumps(case["out"])[:1500]))
        viol.append({"clause": clause, "ft": ft, "fv": fv, "case": case,
                     "what": _what(case, clause, ft, fv)})
  return viol, n, wall


def _pack(cases, path):
  """Write replayable cases in the worker's file format."""
  docs, index, out = [], {}, []
  for c in cases:
    key = json.dumps(c["inp"]["sch"], sort_keys=True)
    if key not in index:
      docs.append(c["inp"]["sch"])
      index[key] = len(docs)
    out.append({"inp": {"doc": index[key], "target": c["inp"]["target"], "path": c["inp"]["path"],
                        "req": c["inp"]["req"]}, "out": c["out"]})
  json.dump({"docs": docs, "cases": out}, open(path, "w"))


def _group(v):
  inp = v["case"]["inp"]
  return (v["clause"], inp["target"], inp["path"] if v["clause"] in ("C16.applied", "C16.raised", "C16.undo") else "",
          tuple(v["ft"][:1]), tuple(v["fv"][:1]))


def minimise(viol, workdir, limit=24):
  """Re-run failing cases with only the failing formula column; keep the smaller case when the
  trace specification still rejects it with the same clause (Python only cuts, TLC judges)."""
  todo, seen = [], set()
  for k, v in enumerate(viol):
    g = _group(v)
    if g in seen or len(todo) >= limit:
      continue
    seen.add(g)
    keep = (v["ft"][:1] or v["fv"][:1]) if v["clause"] in ("C16.text", "C16.values") else []
    keep = [c for c in keep if c in v["case"]["inp"]["sch"]["cols"]]
    small = _cut(v["case"]["inp"], keep)
    if len(small["sch"]["cols"]) < len(v["case"]["inp"]["sch"]["cols"]):
      todo.append((k, small))
  if not todo:
    return viol
  files = fnspec.run_cases(WORKER, [s for _k, s in todo], workdir, nshards=min(8, len(todo)), tag="min")
  small_viol, _n, _w = judge(files, workdir)
  by_inp = {}
  for sv in small_viol:
    by_inp.setdefault(json.dumps(sv["case"]["inp"], sort_keys=True), []).append(sv)
  out = list(viol)
  reduced = {}
  for k, small in todo:
    for sv in by_inp.get(json.dumps(small, sort_keys=True), []):
      if sv["clause"] == viol[k]["clause"]:
        reduced[_group(viol[k])] = sv
        break
  # every violation of a group that could be reduced is represented by the reduced case
  res, done = [], set()
  for v in out:
    g = _group(v)
    if g in reduced:
      if g not in done:
        done.add(g)
        res.append(reduced[g])
      continue
    res.append(v)
  return res


def _selftest(files, viol, workdir):
  """The binding: take a recorded step that the trace specification accepted and that rewrote a
  formula; (a) put the OLD text back for one rewritten formula, (b) alter one cell after the step,
  (c) rename a second column in the record; the trace specification must reject each of them (and
  accept the unaltered record)."""
  failing = {json.dumps(v["case"]["inp"], sort_keys=True) for v in viol}
  base = None
  for f in files:
    for c in load_cases(f):
      o = c["out"]
      if o["fail"] or o["exc"] or json.dumps(c["inp"], sort_keys=True) in failing:
        continue
      if any(o["texts1"].get(k) != t for k, t in o["texts0"].items()):
        base = c
        break
    if base:
      break
  if base is None:
    raise tlc.MachineryError("self-test: no accepted rename that rewrote a formula was recorded")

  def stale_text(case):
    o = case["out"]
    k = sorted(k for k, t in o["texts0"].items() if o["texts1"].get(k) != t)[0]
    o["texts1"][k] = o["texts0"][k]
    return "C16.text"

  def changed_cell(case):
    o = case["out"]
    k = sorted(o["vals1"])[0]
    o["vals1"][k] = ["#424242"] + o["vals1"][k][1:]
    return "C16.values"

  def second_rename(case):
    o = case["out"]
    k = sorted(k for k in o["names1"] if k != case["inp"]["target"] and "." in k)[0]
    o["names1"][k] = o["names1"][k] + "_x"
    return "C16.applied"

  muts = [base]
  want = [None]
  for mut in (stale_text, changed_cell, second_rename):
    c = json.loads(json.dumps(base))
    want.append(mut(c))
    muts.append(c)
  p = os.path.join(workdir, "selftest-cases.json")
  _pack(muts, p)
  tlc.validate_shards(TRACE, [p], workdir, parallel=1, xmx="2g")
  got = {b["i"]: set(b["c"]) for b in json.load(open(p + ".verdict.json"))}
  if 1 in got:
    raise tlc.MachineryError("self-test: the unaltered record is rejected (%s)" % sorted(got[1]))
  for k, clause in enumerate(want):
    if clause is not None and clause not in got.get(k + 1, set()):
      raise tlc.MachineryError("self-test: corrupted case %d was not rejected with %s by %s (got %s)"
                               % (k, clause, TRACE, sorted(got.get(k + 1, []))))


def _items(space):
  return [{"sch": space["docs"][x["doc"] - 1], "target": x["target"], "path": x["path"], "req": x["req"]}
          for x in space["inputs"]]


def run(ctx):
  cfg = "MC_Rename_%s.cfg" % ctx.tier
  space, model = fnspec.enumerate_inputs("MC_Rename", cfg, ctx.workdir)
  items = _items(space)
  nform = [sum(1 for c in d["cols"].values() if c["type"] == "Any") for d in space["docs"]]
  ctx.log("TLC enumerated %d rename steps over a document with %s formula columns (%d distinct states) in %.1fs"
          % (len(items), nform, model["distinct"], model.get("wall", 0)))
  extra = random_inputs(ctx.seed, 40 if ctx.quick else 400)
  todo = items + extra
  random.Random(16).shuffle(todo)
  t0 = time.time()
  files = fnspec.run_cases(WORKER, todo, ctx.workdir, nshards=16)
  ctx.log("the real engine ran %d rename steps in %.1fs" % (len(todo), time.time() - t0))
  viol, n, wall = judge(files, ctx.workdir)
  ctx.log("TLC judged %d recorded steps in %.1fs" % (n, wall))
  _selftest(files, viol, ctx.workdir)
  if viol:
    viol = minimise(viol, ctx.workdir)
  stats = _stats(files)
  return {
    "states": model["distinct"] + n, "transitions": model["generated"] + n,
    "traces_validated_against_impl": n,
    "evaluations": stats["formula_texts_judged"],
    "distinct_nontrivial": stats["steps_that_rewrote_a_formula"],
    "rule": "TLC enumerates the rename steps of %s (12 column targets x 5 paths and 2 table targets x 3 paths x 12 "
            "requested-name classes%s) over one document whose formula columns cover $col, rec.col, ref chains, "
            "lookupRecords/lookupOne keywords, order_by strings and tuples, .all, comprehensions, "
            "PREVIOUS/NEXT/RANK arguments, f-strings, local variables and decoys; plus %d seeded random documents "
            "and steps; an evaluation is one formula text judged against the rendering of its tree under the new "
            "names; non-trivial = a step after which at least one formula text differs from before"
            % (cfg, "" if not ctx.quick else "; reduced product", len(extra)),
    "samples": [{k: v for k, v in t.items() if k != "sch"} for t in items[:2] + extra[:1]],
    "exhaustive": True,
    "assumptions": ["TLC",
                    "harness/fn_rename.py builds the document with AddTable/AddColumn/BulkAddRecord, binds "
                    "identities to metadata row ids and reads names, formula texts and cells back through "
                    "fetch_table; its renderer is checked against Rename!Toks on every case (SPEC.render)",
                    "formula values are compared as recorded before/after the step (no from-scratch "
                    "recalculation); a step that raises ValueError and leaves the document unchanged counts "
                    "as a rejection",
                    "formulas whose value is a record are excluded (a record is shown with its table's name)"],
    "violations": viol,
    "extra": stats,
  }


def _stats(files):
  st = {"steps": 0, "steps_that_rewrote_a_formula": 0, "formula_texts_judged": 0, "formula_texts_rewritten": 0,
        "steps_rejected": 0, "steps_without_rename": 0, "by_path": {}, "new_names": {}}
  for f in files:
    for c in json.load(open(f)):
      o, inp = c["out"], c["inp"]
      st["steps"] += 1
      st["by_path"][inp["path"]] = st["by_path"].get(inp["path"], 0) + 1
      if o["fail"]:
        continue
      if o["exc"]:
        st["steps_rejected"] += 1
        continue
      nform = sum(1 for col in inp["sch"]["cols"].values() if col["type"] == "Any")
      st["formula_texts_judged"] += nform
      rew = sum(1 for k, t in o["texts0"].items() if o["texts1"].get(k) != t)
      st["formula_texts_rewritten"] += rew
      st["steps_that_rewrote_a_formula"] += 1 if rew else 0
      if o["names1"] == o["names0"]:
        st["steps_without_rename"] += 1
      elif len(st["new_names"]) < 40:
        st["new_names"]["%s<-%r" % (inp["target"], inp["req"])] = o["names1"].get(inp["target"])
  return st


def replay(ctx, data):
  files = fnspec.run_cases(WORKER, [data["case"]["inp"]], ctx.workdir)
  viol, _n, _ = judge(files, ctx.workdir)
  return {"violations": viol}


# ---------------------------------------------------------------------------------------------
# input generation beyond the TLC bound (enumeration only; TLC judges, and rejects inputs outside
# the family with SPEC.wf)
# ---------------------------------------------------------------------------------------------
def random_inputs(seed, n):
  return []


MATCHERS = {}
