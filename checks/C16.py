"""C16 - renames never change formula results (Rename.tla).

S->C: TLC (MC_Rename) enumerates (target entity, rename path, requested name) over a document whose
formula columns cover every reference form the property names (as abstract TREES that refer to tables
and columns by identity), shows the relation satisfiable on each, and writes the inputs out;
harness/fn_rename.py builds the document in the real engine, applies the rename step, undoes it and
records names / formula texts / cells keyed by identity; Trace_Rename judges every record with
Rename!Clauses (C16.values, C16.text, C16.applied, C16.raised, C16.undo).
C->S: seeded random documents (random trees of the same family, deeper and in other combinations,
random requested names) go through the same judge.
"""
import json
import os
import random
import sys
import time

import fnspec
import tlc

sys.path.insert(0, os.path.join(os.path.dirname(os.path.abspath(__file__)), "..", "harness"))

LEVEL = "model_checking"
WORKER = "fn_rename.py"
TRACE = "Trace_Rename"
PAR = int(os.environ.get("VERIF_PAR", "16"))      # worker processes / JVMs at a time


# ---------------------------------------------------------------------------------------------
# display helpers (never judge): the same rendering as Rename!Toks / harness/fn_rename.py
# ---------------------------------------------------------------------------------------------
def _attrs(names, chain):
  return "".join("." + names.get(c, "<gone>") for c in chain)


def _ob(names, ob):
  if ob[0] == "s":
    return ob[1] + ob[2] + names.get(ob[3], "<gone>") + ob[1]
  parts = [_ob(names, x) for x in ob[1]]
  return "(" + ", ".join(parts) + (",)" if len(parts) == 1 else ")")


def render(names, e):
  k = e[0]
  g = lambda c: names.get(c, "<gone>")   # noqa: E731
  if k == "col":
    return "$" + g(e[1])
  if k == "rec":
    return "rec." + g(e[1])
  if k == "chain":
    return "$" + g(e[1][0]) + _attrs(names, e[1][1:])
  if k == "recchain":
    return "rec." + g(e[1][0]) + _attrs(names, e[1][1:])
  if k == "var":
    return e[1] + _attrs(names, e[2])
  if k == "lit":
    return e[1]
  if k == "str":
    return e[2] + e[1] + e[2]
  if k == "fstr":
    return "f'{" + render(names, e[1]) + "}'"
  if k == "list":
    return "[" + ", ".join(render(names, x) for x in e[1]) + "]"
  if k == "call":
    return e[1] + "(" + render(names, e[2]) + ")"
  if k == "lookup":
    eq = e[6] + "=" + e[6]
    args = [g(kw[0]) + eq + render(names, kw[1]) for kw in e[3]]
    if e[4]:
      args.append("order_by" + eq + _ob(names, e[4]))
    return g(e[2]) + "." + e[1] + "(" + ", ".join(args) + ")" + _attrs(names, e[5])
  if k == "all":
    return g(e[1]) + ".all" + _attrs(names, e[2])
  if k == "comp":
    close = {"[": "]", "{": "}"}.get(e[1], ")")
    return e[1] + render(names, e[3]) + " for " + e[2] + " in " + render(names, e[4]) + close
  if k == "pn":
    return (e[1] + "(rec" + ((", group_by=" + _ob(names, e[2])) if e[2] else "") +
            ((", order_by=" + _ob(names, e[3])) if e[3] else "") + ")" + _attrs(names, e[4]))
  if k == "let":
    return e[1] + " = " + render(names, e[2]) + "\nreturn " + render(names, e[3])
  return "<?>"


def formula_text(names, col):
  if col["body"][0] == "none":
    return ""
  return render(names, col["body"]) + (("  # " + col["cmt"]) if col["cmt"] else "")


def mentions(e, acc=None):
  """Entities a tree (or order-by value) names, in order of appearance (with repetitions)."""
  acc = [] if acc is None else acc
  if not isinstance(e, list) or not e:
    return acc
  k = e[0]
  if k in ("col", "rec"):
    acc.append(e[1])
  elif k in ("chain", "recchain"):
    acc.extend(e[1])
  elif k == "var":
    acc.extend(e[2])
  elif k in ("fstr",):
    mentions(e[1], acc)
  elif k == "list":
    for x in e[1]:
      mentions(x, acc)
  elif k == "call":
    mentions(e[2], acc)
  elif k == "lookup":
    acc.append(e[2])
    for kw in e[3]:
      acc.append(kw[0])
      mentions(kw[1], acc)
    mentions(e[4], acc)
    acc.extend(e[5])
  elif k == "all":
    acc.append(e[1])
    acc.extend(e[2])
  elif k == "comp":
    mentions(e[3], acc)
    mentions(e[4], acc)
  elif k == "pn":
    mentions(e[2], acc)
    mentions(e[3], acc)
    acc.extend(e[4])
  elif k == "let":
    mentions(e[2], acc)
    mentions(e[3], acc)
  elif k == "s":
    acc.append(e[3])
  elif k == "t":
    for x in e[1]:
      mentions(x, acc)
  return acc


# ---------------------------------------------------------------------------------------------
# judging (TLC) and violation records
# ---------------------------------------------------------------------------------------------
def _cut(inp, keep_formulas):
  """The same input with only the formula columns `keep_formulas` (and the formula columns they
  mention, and the target)."""
  sch = inp["sch"]
  keep = set(keep_formulas)
  grow = True
  while grow:
    grow = False
    for cid in list(keep):
      col = sch["cols"].get(cid)
      if not col:
        continue
      for m in mentions(col["body"]):
        if m in sch["cols"] and sch["cols"][m]["type"] == "Any" and m not in keep:
          keep.add(m)
          grow = True
  if inp["target"] in sch["cols"]:
    keep.add(inp["target"])
  cols = {cid: c for cid, c in sch["cols"].items() if c["type"] != "Any" or cid in keep}
  out = dict(inp)
  out["sch"] = {"tables": sch["tables"], "cols": cols}
  return out


def _what(case, clause, ft, fv, fr=()):
  inp, o = case["inp"], case["out"]
  head = "%s of %s to %r" % (inp["path"], inp["target"], inp["req"])
  if o["fail"]:
    return "%s: %s" % (head, o["fail"])
  if o["exc"]:
    return "%s raised %s (document %s)" % (head, o["exc"], "unchanged" if o["dig0"] == o["dig1"] else "CHANGED")
  new = o["names1"].get(inp["target"])
  head += " -> %r" % (new,)
  if clause == "C16.text":
    bits = []
    for cid in ft[:2]:
      col = inp["sch"]["cols"].get(cid)
      want = formula_text(o["names1"], col) if col else o["texts0"].get(cid)
      bits.append("%s: %r became %r, the same tree under the new names is %r"
                  % (cid, o["texts0"].get(cid), o["texts1"].get(cid), want))
    return head + "; " + "; ".join(bits)
  if clause == "C16.values":
    bits = []
    for cid in fv[:2]:
      bits.append("%s (%r): cells %s became %s" % (cid, o["texts1"].get(cid), json.dumps(o["vals0"].get(cid))[:80],
                                                     json.dumps(o["vals1"].get(cid))[:120]))
    for cid in [c for c in fr if c not in fv][:2]:
      bits.append("%s (%r): cells %s are %s after a from-scratch recalculation of the renamed document"
                  % (cid, o["texts1"].get(cid), json.dumps(o["vals0"].get(cid))[:80],
                     json.dumps(o["vals1r"].get(cid))[:120]))
    return head + "; " + "; ".join(bits)
  if clause == "C16.undo":
    diff = [k for k in o["texts0"] if o["texts2"].get(k) != o["texts0"][k]] + \
           [k for k in o["vals0"] if o["vals2"].get(k) != o["vals0"][k]] + \
           [k for k in o["names0"] if o["names2"].get(k) != o["names0"][k]]
    return head + "; undo %s; not restored: %s" % (o["undo_exc"] or "applied", sorted(set(diff))[:6])
  if clause == "C16.applied":
    changed = {k: [v, o["names1"].get(k)] for k, v in o["names0"].items() if o["names1"].get(k) != v}
    return head + "; names changed: %s; schema consistent: %s" % (json.dumps(changed)[:200], o["cons1"])
  return head


def load_cases(path):
  """The cases of a worker file with their documents put back in (replayable inputs)."""
  d = json.load(open(path))
  return [{"inp": {"sch": d["docs"][c["inp"]["doc"] - 1], "target": c["inp"]["target"],
                   "path": c["inp"]["path"], "req": c["inp"]["req"]}, "out": c["out"]} for c in d["cases"]]


def judge(files, workdir):
  """Run Trace_Rename over the case files. Returns (violations, n_cases, wall)."""
  _res, wall = tlc.validate_shards(TRACE, files, workdir, parallel=PAR, xmx="2g")
  viol, n = [], 0
  for f in files:
    cases = load_cases(f)
    n += len(cases)
    for b in json.load(open(f + ".verdict.json")):
      case = cases[b["i"] - 1]
      ft, fv, fr = sorted(b.get("ft", [])), sorted(b.get("fv", [])), sorted(b.get("fr", []))
      for clause in sorted(b["c"]):
        if clause.startswith("SPEC."):
          raise tlc.MachineryError("%s: the machinery disagrees with itself on %s / %s"
                                   % (clause, json.dumps({k: v for k, v in case["inp"].items() if k != "sch"}),
                                      json.dumps(case["out"])[:1500]))
        viol.append({"clause": clause, "ft": ft, "fv": fv, "fr": fr, "case": case,
                     "what": _what(case, clause, ft, fv, fr)})
  return viol, n, wall


def _pack(cases, path):
  """Write replayable cases in the worker's file format."""
  docs, index, out = [], {}, []
  for c in cases:
    key = json.dumps(c["inp"]["sch"], sort_keys=True)
    if key not in index:
      docs.append(c["inp"]["sch"])
      index[key] = len(docs)
    out.append({"inp": {"doc": index[key], "target": c["inp"]["target"], "path": c["inp"]["path"],
                        "req": c["inp"]["req"]}, "out": c["out"]})
  json.dump({"docs": docs, "cases": out}, open(path, "w"))


def _group(v):
  inp = v["case"]["inp"]
  return (v["clause"], inp["target"], inp["path"] if v["clause"] in ("C16.applied", "C16.raised", "C16.undo") else "",
          tuple(v["ft"][:1]), tuple((v["fv"] or v["fr"])[:1]))


def minimise(viol, workdir, limit=24):
  """Re-run failing cases with only the failing formula column; keep the smaller case when the
  trace specification still rejects it with the same clause (Python only cuts, TLC judges)."""
  todo, seen = [], set()
  for k, v in enumerate(viol):
    g = _group(v)
    if g in seen or len(todo) >= limit:
      continue
    seen.add(g)
    keep = []
    if v["clause"] == "C16.text":
      keep = v["ft"][:1]
    elif v["clause"] == "C16.values":
      keep = (v["fv"] or v["fr"])[:1]
    keep = [c for c in keep if c in v["case"]["inp"]["sch"]["cols"]]
    small = _cut(v["case"]["inp"], keep)
    if len(small["sch"]["cols"]) < len(v["case"]["inp"]["sch"]["cols"]):
      todo.append((k, small))
  if not todo:
    return viol
  files = run_engine([s for _k, s in todo], workdir, tag="min", nshards=min(8, len(todo)))
  small_viol, _n, _w = judge(files, workdir)
  by_inp = {}
  for sv in small_viol:
    by_inp.setdefault(json.dumps(sv["case"]["inp"], sort_keys=True), []).append(sv)
  out = list(viol)
  reduced = {}
  for k, small in todo:
    for sv in by_inp.get(json.dumps(small, sort_keys=True), []):
      if sv["clause"] == viol[k]["clause"]:
        reduced[_group(viol[k])] = sv
        break
  # every violation of a group that could be reduced is represented by the reduced case
  res, done = [], set()
  for v in out:
    g = _group(v)
    if g in reduced:
      if g not in done:
        done.add(g)
        res.append(reduced[g])
      continue
    res.append(v)
  return res


def _selftest(files, viol, workdir):
  """The binding: take a recorded step that the trace specification accepted and that rewrote a
  formula; (a) put the OLD text back for one rewritten formula, (b) alter one cell after the step,
  (c) rename a second column in the record; the trace specification must reject each of them (and
  accept the unaltered record)."""
  failing = {json.dumps(v["case"]["inp"], sort_keys=True) for v in viol}
  base = None
  for f in files:
    for c in load_cases(f):
      o = c["out"]
      if o["fail"] or o["exc"] or json.dumps(c["inp"], sort_keys=True) in failing:
        continue
      if any(o["texts1"].get(k) != t for k, t in o["texts0"].items()):
        base = c
        break
    if base:
      break
  if base is None:
    raise tlc.MachineryError("self-test: no accepted rename that rewrote a formula was recorded")

  def stale_text(case):
    o = case["out"]
    k = sorted(k for k, t in o["texts0"].items() if o["texts1"].get(k) != t)[0]
    o["texts1"][k] = o["texts0"][k]
    return "C16.text"

  def changed_cell(case):
    o = case["out"]
    k = sorted(o["vals1"])[0]
    o["vals1"][k] = ["#424242"] + o["vals1"][k][1:]
    return "C16.values"

  def second_rename(case):
    o = case["out"]
    k = sorted(k for k in o["names1"] if k != case["inp"]["target"] and "." in k)[0]
    o["names1"][k] = o["names1"][k] + "_x"
    return "C16.applied"

  muts = [base]
  want = [None]
  for mut in (stale_text, changed_cell, second_rename):
    c = json.loads(json.dumps(base))
    want.append(mut(c))
    muts.append(c)
  p = os.path.join(workdir, "selftest-cases.json")
  _pack(muts, p)
  tlc.validate_shards(TRACE, [p], workdir, parallel=1, xmx="2g")
  got = {b["i"]: set(b["c"]) for b in json.load(open(p + ".verdict.json"))}
  if 1 in got:
    raise tlc.MachineryError("self-test: the unaltered record is rejected (%s)" % sorted(got[1]))
  for k, clause in enumerate(want):
    if clause is not None and clause not in got.get(k + 1, set()):
      raise tlc.MachineryError("self-test: corrupted case %d was not rejected with %s by %s (got %s)"
                               % (k, clause, TRACE, sorted(got.get(k + 1, []))))


def run_engine(items, workdir, tag="cases", nshards=None):
  """Run the worker over `items`, balanced over shards; the steps of one random document stay in one
  shard (a worker builds each distinct document once), the enumerated documents are spread."""
  import corpus
  nshards = max(1, min(nshards or PAR, len(items)))
  groups = {}
  for it in items:
    groups.setdefault(json.dumps(it["sch"], sort_keys=True), []).append(it)
  units = []
  for g in groups.values():
    if len(g) > 12:
      units.extend([x] for x in g)
    else:
      units.append(g)
  cost = lambda u: sum(10 + len(x["sch"]["cols"]) for x in u)   # noqa: E731
  bins = [[0, []] for _ in range(nshards)]
  for u in sorted(units, key=cost, reverse=True):
    b = min(bins, key=lambda x: x[0])
    b[0] += cost(u)
    b[1].extend(u)
  args = []
  for i, (_c, its) in enumerate(bins):
    if not its:
      continue
    inp = os.path.join(workdir, "%s-in-%02d.json" % (tag, i))
    json.dump(its, open(inp, "w"))
    args.append({"inp": inp, "out": os.path.join(workdir, "%s-%02d.json" % (tag, i)), "shard": i})
  corpus.run_workers(WORKER, args, parallel=PAR)
  return [a["out"] for a in args]


def _items(space):
  return [{"sch": space["docs"][x["doc"] - 1], "target": x["target"], "path": x["path"], "req": x["req"]}
          for x in space["inputs"]]


def run(ctx):
  cfg = "MC_Rename_%s.cfg" % ctx.tier
  space, model = fnspec.enumerate_inputs("MC_Rename", cfg, ctx.workdir, workers=PAR)
  items = _items(space)
  nform = [sum(1 for c in d["cols"].values() if c["type"] == "Any") for d in space["docs"]]
  ctx.log("TLC enumerated %d rename steps over documents with %s formula columns (%d distinct states) in %.1fs"
          % (len(items), nform, model["distinct"], model.get("wall", 0)))
  extra = random_inputs(ctx.seed, 30 if ctx.quick else 480)
  todo = items + extra
  t0 = time.time()
  files = run_engine(todo, ctx.workdir)
  ctx.log("the real engine ran %d rename steps in %.1fs" % (len(todo), time.time() - t0))
  viol, n, wall = judge(files, ctx.workdir)
  ctx.log("TLC judged %d recorded steps in %.1fs" % (n, wall))
  _selftest(files, viol, ctx.workdir)
  if viol:
    viol = minimise(viol, ctx.workdir)
  stats = _stats(files)
  by = {}
  for v in viol:
    hit = sorted(name for name, m in MATCHERS.items() if _safe(m, v)) or ["<no matcher>"]
    by[hit[0]] = by.get(hit[0], 0) + 1
  stats["violations_by_matcher"] = by
  return {
    "states": model["distinct"] + n, "transitions": model["generated"] + n,
    "traces_validated_against_impl": n,
    "evaluations": stats["formula_texts_judged"],
    "distinct_nontrivial": stats["steps_that_rewrote_a_formula"],
    "rule": "TLC enumerates the rename steps of %s (12 column targets x 5 paths and 2 table targets x 3 paths x 13 "
            "requested-name classes%s) over documents whose formula columns cover $col, rec.col, ref chains, "
            "lookupRecords/lookupOne keywords, order_by strings and tuples, .all, comprehensions, "
            "PREVIOUS/NEXT/RANK arguments, f-strings, local variables and decoys; plus %d seeded random steps "
            "over random documents of the same family; an evaluation is one formula text judged against the rendering of its tree under the new "
            "names; non-trivial = a step after which at least one formula text differs from before"
            % (cfg, "" if not ctx.quick else "; reduced product", len(extra)),
    "samples": [{k: v for k, v in t.items() if k != "sch"} for t in items[:2] + extra[:1]],
    "exhaustive": True,
    "assumptions": ["TLC",
                    "harness/fn_rename.py builds the document with AddTable/AddColumn/BulkAddRecord, binds "
                    "identities to metadata row ids and reads names, formula texts and cells back through "
                    "fetch_table; its renderer is checked against Rename!Toks on every case (SPEC.render)",
                    "formula values are compared as recorded before/after the step (no from-scratch "
                    "recalculation); a step that raises and leaves the whole document unchanged counts as a "
                    "rejection (classes counted in `rejections`)",
                    "formulas whose value is a record are excluded (a record is shown with its table's name)"],
    "violations": viol,
    "extra": stats,
  }


def _safe(m, v):
  try:
    return bool(m(v))
  except Exception:   # pylint: disable=broad-except
    return False


def _stats(files):
  st = {"steps": 0, "steps_that_rewrote_a_formula": 0, "formula_texts_judged": 0, "formula_texts_rewritten": 0,
        "steps_rejected": 0, "rejections": {}, "steps_without_rename": 0, "by_path": {}, "new_names": {}}
  for f in files:
    for c in load_cases(f):
      o, inp = c["out"], c["inp"]
      st["steps"] += 1
      st["by_path"][inp["path"]] = st["by_path"].get(inp["path"], 0) + 1
      if o["fail"]:
        continue
      if o["exc"]:
        st["steps_rejected"] += 1
        st["rejections"][o["exc"]] = st["rejections"].get(o["exc"], 0) + 1
        continue
      nform = sum(1 for col in inp["sch"]["cols"].values() if col["type"] == "Any")
      st["formula_texts_judged"] += nform
      rew = sum(1 for k, t in o["texts0"].items() if o["texts1"].get(k) != t)
      st["formula_texts_rewritten"] += rew
      st["steps_that_rewrote_a_formula"] += 1 if rew else 0
      if o["names1"] == o["names0"]:
        st["steps_without_rename"] += 1
      elif len(st["new_names"]) < 40:
        st["new_names"]["%s<-%r" % (inp["target"], inp["req"])] = o["names1"].get(inp["target"])
  return st


def replay(ctx, data):
  files = run_engine([data["case"]["inp"]], ctx.workdir)
  viol, _n, _ = judge(files, ctx.workdir)
  return {"violations": viol}


# ---------------------------------------------------------------------------------------------
# input generation beyond the TLC bound (enumeration only; TLC judges, and rejects inputs outside
# the family with SPEC.wf)
# ---------------------------------------------------------------------------------------------
COL_NAMES = ["a", "b", "k", "v", "w", "x", "n", "amount", "Total", "name2", "r", "q", "p", "cc", "A_b", "val",
             "key", "item", "Cost", "zz9", "e", "y", "z"]
TABLE_NAMES = ["T1", "T2", "Orders", "People", "Items", "Tab", "X", "Data", "Vv"]
COL_REQS = ["sort_by", "zz", "my col!", "class", "", "1st", "id", "ID", "a b", "x-y", "_lead", "all", "lookupRecords", "rec",
            "PREVIOUS", "lookupOne", "find", "len", "sum", "str", "T1", "T2", "None", "True", "def", "v", "a", "A",
            "k", "K", "__", "a__b", "a long column label, with words", "N", "order_by", "group_by", "x", "e", "$a",
            "a.b", "return", "table", "Total", "amount"]
TABLE_REQS = ["Zz", "zz", "my tab!", "none", "true", "", "2x", "Len", "Str", "Rec", "Table1", "T1", "T2", "t1", "v",
              "class", "lookup", "Orders", "orders", "a b c", "X", "x", "All", "UserTable", "Record", "Table"]
FUNC_TABLE_REQS = ["PREVIOUS", "NEXT", "RANK", "previous", "SUM"]
LOCALS = ["x", "y", "e", "v", "k", "z"]
COL_PATHS = ["RenameColumn", "colId", "label", "label_untied", "retie"]
TABLE_PATHS = ["RenameTable", "tableId", "title"]


class _Gen(object):
  """Random documents of the family of Rename.tla (typed generation: see Rename!Ty)."""

  def __init__(self, rnd):
    self.rnd = rnd

  def document(self):
    rnd = self.rnd
    ntab = rnd.choice((2, 2, 3))
    tnames = []
    for n in rnd.sample(TABLE_NAMES, len(TABLE_NAMES)):
      if n.upper() not in [t.upper() for t in tnames]:
        tnames.append(n)
    self.tables = [{"id": "T%d" % (i + 1), "name": tnames[i], "nrows": rnd.choice((2, 3, 4))} for i in range(ntab)]
    self.cols = {}
    self.by_tab = {t["id"]: [] for t in self.tables}
    for t in self.tables:
      names = rnd.sample(COL_NAMES, len(COL_NAMES))
      used = set()
      nint, nref = rnd.choice((2, 3, 4)), rnd.choice((0, 1, 1, 2))
      for j in range(nint + nref):
        name = next(x for x in names if x.upper() not in used)
        used.add(name.upper())
        cid = "%s.c%d" % (t["id"], j + 1)
        if j < nint:
          col = {"tab": t["id"], "name": name, "type": "Int", "to": "",
                 "data": [rnd.randint(1, 3) for _ in range(t["nrows"])]}
        else:
          to = rnd.choice(self.tables)
          col = {"tab": t["id"], "name": name, "type": "Ref", "to": to["id"],
                 "data": [rnd.randint(0 if rnd.random() < 0.2 else 1, to["nrows"]) for _ in range(t["nrows"])]}
        col.update({"body": ["none"], "cmt": "", "ord": 0})
        self.cols[cid] = col
        self.by_tab[t["id"]].append(cid)
      # a column may be named like a table of the document (a reference column called after its target,
      # say): `$Orders` and `Orders.lookupRecords(..)` then differ only by their position in the formula
      if rnd.random() < 0.4:
        tn = rnd.choice(self.tables)["name"]
        if tn.upper() not in used:
          cid = rnd.choice(self.by_tab[t["id"]])
          used.discard(self.cols[cid]["name"].upper())
          self.cols[cid]["name"] = tn
          used.add(tn.upper())
      self.used_names = getattr(self, "used_names", {})
      self.used_names[t["id"]] = used
    nform = rnd.randint(6, 12)
    self.fcols = {t["id"]: [] for t in self.tables}
    for j in range(nform):
      host = rnd.choice(self.tables)["id"]
      body = self.formula(host)
      name = "F%d" % (j + 1)
      cid = "%s.F%d" % (host, j + 1)
      words = [c["name"] for c in self.cols.values()] + [t["name"] for t in self.tables] + \
              ["$" + self.cols[self.by_tab[host][0]]["name"], "rec.", "order_by=", "lookupRecords("]
      cmt = " ".join(rnd.sample(words, rnd.randint(1, 3))) if rnd.random() < 0.25 else ""
      self.cols[cid] = {"tab": host, "name": name, "type": "Any", "to": "", "data": [], "body": body, "cmt": cmt,
                        "ord": 0}
      self.fcols[host].append(cid)
    for j, c in enumerate(self.cols.values()):
      c["ord"] = j + 1
    return {"tables": self.tables, "cols": self.cols}

  # -- typed pieces --------------------------------------------------------------------------
  def ints(self, tab):
    return [c for c in self.by_tab[tab] if self.cols[c]["type"] == "Int"]

  def refs(self, tab):
    return [c for c in self.by_tab[tab] if self.cols[c]["type"] == "Ref"]

  def chain(self, tab, want, maxlen=4):
    """Column identities from `tab`: refs, then an Int column (want 'int') or ending at a Ref ('rec')."""
    rnd, out = self.rnd, []
    while len(out) < maxlen - 1 and self.refs(tab) and rnd.random() < 0.5:
      c = rnd.choice(self.refs(tab))
      out.append(c)
      tab = self.cols[c]["to"]
    if want == "int":
      out.append(rnd.choice(self.ints(tab)))
      return out, ""
    if want == "rec" and not out and self.refs(tab):
      c = rnd.choice(self.refs(tab))
      out.append(c)
      tab = self.cols[c]["to"]
    return out, tab

  def int_expr(self, host, scope):
    rnd = self.rnd
    x = rnd.random()
    if scope and x < 0.5:
      var = rnd.choice(sorted(scope))
      return ["var", var, self.chain(scope[var], "int")[0]]
    if x < 0.6:
      return ["lit", str(rnd.randint(1, 3))]
    ch = self.chain(host, "int")[0]
    if len(ch) == 1:
      return [rnd.choice(("col", "rec")), ch[0]]
    return [rnd.choice(("chain", "chain", "recchain")), ch]

  def ob(self, tab, neg=True, must=False):
    rnd = self.rnd
    if not must and rnd.random() < 0.4:
      return []
    one = lambda: ["s", rnd.choice(('"', "'")), rnd.choice(("", "-")) if neg else "", rnd.choice(self.ints(tab))]  # noqa: E731
    if rnd.random() < 0.55:
      return one()
    return ["t", [one() for _ in range(rnd.randint(1, 3))]]

  def lookup(self, host, scope, want):
    rnd = self.rnd
    tab = rnd.choice(self.tables)["id"]
    keys = rnd.sample(self.ints(tab), min(len(self.ints(tab)), rnd.choice((0, 1, 1, 1, 2))))
    kws = [[k, self.int_expr(host, scope)] for k in keys]
    if self.refs(tab) and rnd.random() < 0.15:
      kws.append([rnd.choice(self.refs(tab)), ["lit", "$id"]])
    fn = "lookupRecords" if want == "set" else rnd.choice(("lookupRecords", "lookupOne"))
    if want == "int":
      attr, end = self.chain(tab, "int", 3)[0], ""
    elif want == "set":
      attr, end = [], tab
    else:
      attr, end = self.chain(tab, "rec0", 2)
    return ["lookup", fn, tab, kws, self.ob(tab), attr, rnd.choice(("", "", "", " "))], end

  def recordset(self, host, scope):
    if self.rnd.random() < 0.6:
      return self.lookup(host, scope, "set")
    tab = self.rnd.choice(self.tables)["id"]
    return ["all", tab, []], tab

  def pn(self, host, want):
    rnd = self.rnd
    fn = rnd.choice(("PREVIOUS", "NEXT", "RANK")) if want == "int" else rnd.choice(("PREVIOUS", "NEXT"))
    gb = self.ob(host, neg=False)
    ob = self.ob(host, must=True)
    if fn == "RANK":
      return ["pn", fn, gb, ob, []], ""
    if want == "int":
      return ["pn", fn, gb, ob, self.chain(host, "int", 3)[0]], ""
    attr, end = self.chain(host, "rec0", 2)
    return ["pn", fn, gb, ob, attr], end

  def comp(self, host, scope, depth):
    rnd = self.rnd
    src, tab = self.recordset(host, scope)
    x = rnd.choice([v for v in LOCALS if v not in scope] or LOCALS)
    inner = dict(scope)
    inner[x] = tab
    open_ = rnd.choice(("[", "[", "{", "sum(", "list(", "sorted("))
    if open_ in ("[", "list(") and depth > 0 and rnd.random() < 0.4:
      elt = self.scalar(host, inner, depth - 1)
    else:
      elt = ["var", x, self.chain(tab, "int", 3)[0]]
    return ["comp", open_, x, elt, src]

  def scalar(self, host, scope, depth=2):
    rnd = self.rnd
    x = rnd.random()
    if x < 0.22 or depth <= 0:
      return self.int_expr(host, scope)
    if x < 0.40:
      return self.lookup(host, scope, "int")[0]
    if x < 0.47:
      tab = rnd.choice(self.tables)["id"]
      return ["all", tab, self.chain(tab, "int", 3)[0]]
    if x < 0.53:
      return ["call", "len", self.recordset(host, scope)[0]]
    if x < 0.68:
      return self.comp(host, scope, depth)
    if x < 0.82:
      return self.pn(host, "int")[0]
    if x < 0.90:
      return ["list", [self.scalar(host, scope, depth - 1) for _ in range(rnd.randint(1, 3))]]
    if x < 0.93:
      return ["call", rnd.choice(("str", "bool")), self.scalar(host, scope, depth - 1)]
    if x < 0.96:
      return ["fstr", self.int_expr(host, scope)]
    if x < 0.98 and self.fcols[host]:
      return ["list", [[rnd.choice(("col", "rec")), rnd.choice(self.fcols[host])]]]
    words = [c["name"] for c in self.cols.values()] + [t["name"] for t in self.tables]
    return ["list", [["str", rnd.choice(words), rnd.choice(('"', "'"))], self.int_expr(host, scope)]]

  def record(self, host):
    rnd = self.rnd
    x = rnd.random()
    if x < 0.35 and self.refs(host):
      ch, end = self.chain(host, "rec", 3)
      return [rnd.choice(("chain", "recchain")), ch], end
    if x < 0.8:
      return self.lookup(host, {}, rnd.choice(("rec", "set")))
    return self.pn(host, "rec")

  def formula(self, host):
    rnd = self.rnd
    if rnd.random() < 0.15:
      e1, tab = self.record(host)
      x = rnd.choice(LOCALS)
      return ["let", x, e1, self.scalar(host, {x: tab}, 1)]
    return self.scalar(host, {}, 2)


def random_inputs(seed, n, steps_per_doc=6):
  rnd = random.Random("C16-%d" % seed)
  out = []
  while len(out) < n:
    g = _Gen(rnd)
    sch = g.document()
    tabs = [t["id"] for t in sch["tables"]]
    data_cols = [c for c, col in sch["cols"].items() if col["type"] != "Any"]
    form_cols = [c for c, col in sch["cols"].items() if col["type"] == "Any"]
    for _ in range(steps_per_doc):
      x = rnd.random()
      if x < 0.25:
        target = rnd.choice(tabs)
        path = rnd.choice(TABLE_PATHS)
        own = [t["name"] for t in sch["tables"]]
        req = rnd.choice(TABLE_REQS + own + [o.lower() for o in own] + (FUNC_TABLE_REQS if rnd.random() < 0.3 else []))
      else:
        target = rnd.choice(data_cols if x < 0.9 else form_cols)
        path = rnd.choice(COL_PATHS)
        tab = sch["cols"][target]["tab"]
        own = [c["name"] for c in sch["cols"].values() if c["tab"] == tab]
        req = rnd.choice(COL_REQS + own + [o.upper() for o in own] + [sch["cols"][target]["name"] * 2])
      out.append({"sch": sch, "target": target, "path": path, "req": req})
  return out[:n]


# ---------------------------------------------------------------------------------------------
# Matchers for defects of the unchanged tree
# ---------------------------------------------------------------------------------------------
def _calls(e, acc=None):
  """Names of the functions a tree calls (PREVIOUS / NEXT / RANK, len, sum, ...)."""
  acc = set() if acc is None else acc
  if not isinstance(e, list) or not e:
    return acc
  k = e[0]
  if k == "pn":
    acc.add(e[1])
  elif k == "call":
    acc.add(e[1])
    _calls(e[2], acc)
  elif k == "comp":
    if e[1].endswith("("):
      acc.add(e[1][:-1])
    _calls(e[3], acc)
    _calls(e[4], acc)
  elif k == "fstr":
    _calls(e[1], acc)
  elif k == "list":
    for x in e[1]:
      _calls(x, acc)
  elif k == "lookup":
    for kw in e[3]:
      _calls(kw[1], acc)
  elif k == "let":
    _calls(e[2], acc)
    _calls(e[3], acc)
  return acc


def _failing_cols(v):
  return sorted(set(v.get("fv") or []) | set(v.get("fr") or []))


def _all_errors(o, cid, v):
  cells = []
  if cid in (v.get("fv") or []):
    cells += o["vals1"].get(cid, ["x"])
  if cid in (v.get("fr") or []):
    cells += o["vals1r"].get(cid, ["x"])
  return bool(cells) and all(t.startswith("E") for t in cells)


def _m_table_named_like_function(v):
  """A table renamed to the name of a function that formulas call (PREVIOUS, NEXT, RANK, ...) shadows
  that function in the generated module: every formula that calls it evaluates to an error when it is
  next calculated (at the latest at the next full recalculation).  Matched only if every column whose
  cells differ holds errors and calls a function whose name is the table's new name."""
  case = v["case"]
  inp, o = case["inp"], case["out"]
  if v.get("clause") != "C16.values" or not _failing_cols(v):
    return False
  if inp["target"] not in [t["id"] for t in inp["sch"]["tables"]]:
    return False
  new = o["names1"].get(inp["target"])
  for cid in _failing_cols(v):
    col = inp["sch"]["cols"].get(cid)
    if not col or col["type"] != "Any" or new not in _calls(col["body"]) or not _all_errors(o, cid, v):
      return False
  return True


def _kw_uses(e, target, acc=None):
  """Does the tree use `target` as a keyword of a lookup, or in group_by of PREVIOUS/NEXT/RANK
  (which looks the group up with the group-by columns as keywords)?"""
  if not isinstance(e, list) or not e:
    return False
  k = e[0]
  if k == "lookup":
    return any(kw[0] == target or _kw_uses(kw[1], target) for kw in e[3])
  if k == "pn":
    return target in mentions(e[2])
  if k == "call":
    return _kw_uses(e[2], target)
  if k == "fstr":
    return _kw_uses(e[1], target)
  if k == "list":
    return any(_kw_uses(x, target) for x in e[1])
  if k == "comp":
    return _kw_uses(e[3], target) or _kw_uses(e[4], target)
  if k == "let":
    return _kw_uses(e[2], target) or _kw_uses(e[3], target)
  return False


def _m_column_named_like_lookup_keyword(v):
  """A column renamed to `order_by` / `sort_by` (names that lookupRecords / lookupOne take as options):
  `T.lookupRecords(col=x)` becomes `T.lookupRecords(sort_by=x)`, which is no longer a filter on the
  column, and PREVIOUS/NEXT/RANK with that column in group_by pass it on as a keyword.  Matched only if
  the new name is one of these, and every column whose cells differ holds errors and uses the renamed
  column as a lookup keyword or in group_by."""
  case = v["case"]
  inp, o = case["inp"], case["out"]
  if v.get("clause") != "C16.values" or not _failing_cols(v):
    return False
  if inp["target"] not in inp["sch"]["cols"] or o["names1"].get(inp["target"]) not in ("order_by", "sort_by"):
    return False
  for cid in _failing_cols(v):
    col = inp["sch"]["cols"].get(cid)
    if not col or col["type"] != "Any" or not _kw_uses(col["body"], inp["target"]) or not _all_errors(o, cid, v):
      return False
  return True


MATCHERS = {
  "c16_table_named_like_function": _m_table_named_like_function,
  "c16_column_named_like_lookup_keyword": _m_column_named_like_lookup_keyword,
}
