"""C25 - migrations are total and reach the current schema (Migrate.tla = DocActions.tla interpreter)."""
import json
import math
import os

import corpus
import fnspec
import tlc

LEVEL = "model_checking"

PAR = int(os.environ.get("VERIF_PAR", "16") or 16)
HYP = {"quick": 480, "thorough": 3200}       # Hypothesis documents per run (spread over the shards)


# ---- pipeline --------------------------------------------------------------------------------------

def _history(ctx):
  hist = os.path.join(ctx.workdir, "history.json")
  corpus.run_workers("fn_migrate.py", [{"mode": "history", "out": hist}], parallel=1)
  os.environ["HIST_FILE"] = hist       # read by MC_Migrate (tlc.run_model passes the environment on)
  return hist


def _run_cases(ctx, inputs, hyp, tag="cases", dump=False):
  total = len(inputs) + hyp
  n = max(1, min(64, total // 300))
  args = []
  for i in range(n):
    inp = os.path.join(ctx.workdir, "%s-in-%02d.json" % (tag, i))
    json.dump(inputs[i::n], open(inp, "w"))
    args.append({"mode": "cases", "inp": inp, "out": os.path.join(ctx.workdir, "%s-%02d.json" % (tag, i)),
                 "shard": i, "seed": ctx.seed, "hyp": hyp // n + (1 if i < hyp % n else 0), "dump": dump})
  corpus.run_workers("fn_migrate.py", args, parallel=PAR)
  return [a["out"] for a in args]


def _judge(ctx, files):
  """[(case, verdict, doc or None)] for the cases TLC rejected, number of cases, wall time."""
  _, wall = tlc.validate_shards("Trace_Migrate", files, ctx.workdir, parallel=PAR, xmx="3g")
  failures, n = [], 0
  for f in files:
    data = json.load(open(f))
    cases = data["cases"]
    n += len(cases)
    verdicts = json.load(open(f + ".verdict.json"))
    docs = json.load(open(f + ".docs.json")) if verdicts else {}
    for b in verdicts:
      case = cases[b["i"] - 1]
      case["actions"] = [data["pool"][k - 1] for k in case["actions"]]
      failures.append((case, b, docs.get(str(b["i"]))))
  return failures, n, wall


def _selftest(ctx, case_file):
  """A recorded migration whose final schemaVersion update is cut off must be rejected."""
  data = json.load(open(case_file))
  good = [c for c in data["cases"] if not c["exc"] and c["actions"]]
  if not good:
    return False
  bad = json.loads(json.dumps(good[0]))
  bad["actions"] = bad["actions"][:-1]
  data["cases"] = [good[0], bad]
  p = os.path.join(ctx.workdir, "selftest-" + os.path.basename(case_file))
  json.dump(data, open(p, "w"))
  results, _ = tlc.validate_shards("Trace_Migrate", [p], ctx.workdir, parallel=1)
  return [r["i"] for r in results if "C25.version" in r["c"]] == [2]


def _violations(failures):
  """One violation per failed clause; C25.applicable: one per ill-formed action."""
  out = []
  for case, verdict, doc in failures:
    inp = dict(case["inp"])
    if inp["k"] in ("hyp", "doc"):
      if doc is None:
        raise tlc.MachineryError("no recorded document for a Hypothesis case")
      inp = dict(inp, k="doc", doc=doc)
    d = verdict["d"]
    base = {"inp": inp, "v": case["v"], "mo": case["mo"], "exc": case["exc"], "where": case["where"],
            "inner": case["inner"], "msg": case.get("msg", "")}
    if doc is not None and "doc" not in inp:
      base["doc"] = doc
    head = "v=%d %s" % (case["v"], {k: inp[k] for k in ("k", "t", "c", "cls", "old", "mo") if k in inp})
    for clause in sorted(verdict["c"]):
      if clause == "C25.total":
        out.append({"clause": clause, "case": base, "what": head + " raised %s in %s/%s: %s" % (
          case["exc"], case["where"], case["inner"], case.get("msg", ""))})
      elif clause == "C25.applicable":
        for pos in sorted(d["ill"]):
          a = dict(case["actions"][pos - 1])
          a["c"] = sorted(a["c"])         # the cells of the action do not matter here
          out.append({"clause": clause, "case": dict(base, pos=pos, ill=a),
                      "what": head + " action %d %s %s %s r=%s" % (pos, a["n"], a["t"], a["id"], a["r"][:4])})
      elif clause == "C25.user":
        out.append({"clause": clause, "case": dict(base, touched=sorted(map(list, d["user"]))),
                    "what": head + " touched %s" % (sorted(map(list, d["user"]))[:5],)})
      else:
        out.append({"clause": clause, "case": dict(base, tables=sorted(d["schema"]),
                                                    n_actions=len(case["actions"])),
                    "what": head + " %s" % (sorted(d["schema"])[:6],)})
  return out


def run(ctx):
  _history(ctx)
  cfg = "MC_Migrate_%s.cfg" % ctx.tier
  inputs, model = fnspec.enumerate_inputs("MC_Migrate", cfg, ctx.workdir, workers=PAR)
  kinds = {}
  for d in inputs:
    kinds[d["k"]] = kinds.get(d["k"], 0) + 1
  ctx.log("TLC enumerated %d case descriptors %s (%d distinct states, %.0fs)"
          % (len(inputs), kinds, model["distinct"], model["wall"]))
  files = _run_cases(ctx, inputs, HYP[ctx.tier])
  failures, n, wall = _judge(ctx, files)
  ctx.log("judged %d recorded calls in %.0fs: %d rejected" % (n, wall, len(failures)))
  if not _selftest(ctx, files[0]):
    raise tlc.MachineryError("self-test: a migration without its schemaVersion update was accepted")
  versions, nontrivial, raised, nacts, placed = set(), 0, 0, 0, 0
  for f in files:
    for c in json.load(open(f))["cases"]:
      versions.add(c["v"])
      raised += 1 if c["exc"] else 0
      nacts += len(c["actions"])
      placed += 1 if c["placed"] else 0
      nontrivial += 1 if (c["nrows"] > 1 or c["placed"]) else 0
  sample = json.load(open(files[0]))["cases"][:2]
  return {
    "states": model["distinct"] + n, "transitions": model["generated"] + n,
    "traces_validated_against_impl": n,
    "evaluations": n, "distinct_nontrivial": nontrivial,
    "rule": "TLC enumerates (start version, populated table groups, text class per Text cell) within %s from "
            "the schema history of the tree under test; non-trivial = the document has rows beyond "
            "_grist_DocInfo or carries a hostile text cell" % cfg,
    "samples": [{"inp": c["inp"], "exc": c["exc"], "n_actions": len(c["actions"]), "rows": c["nrows"]}
                for c in sample],
    "exhaustive": False,
    "assumptions": [
      "TLC and spec/DocActions.tla as the meaning of doc actions (a transcription of table_data_set.py / DocStorage)",
      "harness/fn_migrate.py builds version-v metadata with the code's own migrations 1..v from the version-0 "
      "fixture of test_migrations.py; metadata references are kept resolvable; cells use the stored (DocStorage) "
      "representation of their declared type",
      "row id None in BulkAddRecord means the next free id (SQLite)",
      "the current schema is compared by table, column and base type",
    ],
    "violations": _violations(failures),
    "extra": {"descriptors": kinds, "hypothesis_documents": HYP[ctx.tier], "start_versions": len(versions),
              "calls_that_raised": raised, "doc_actions_interpreted": nacts,
              "cases_with_hostile_text": placed, "model_wall_s": round(model["wall"], 1),
              "judge_wall_s": round(wall, 1)},
  }


def replay(ctx, data):
  _history(ctx)
  inp = dict(data["case"]["inp"])
  files = _run_cases(ctx, [inp], 0, tag="replay", dump=True)
  failures, _n, _ = _judge(ctx, files)
  return {"violations": _violations(failures)}


# ---- known defects of the unchanged tree: one narrow predicate each -------------------------------------
# A matcher sees one violation dict.  It identifies the defect by where the call raised and by the shape
# of the input: the text of the cells the failing migration parses (recorded document), or - for
# enumerated cases that carry no document - the (column, text class) the model chose.

def _parse(text):
  """("json", value) if the migration's safe_parse / json.loads would yield a value, else ("no", None)"""
  if not isinstance(text, str):
    return ("no", None)
  try:
    return ("json", json.loads(text))
  except ValueError:
    return ("no", None)


def _cells(v, table, col):
  case = v["case"]
  doc = case.get("doc") or case["inp"].get("doc")
  if not doc:
    return None
  t = doc["tables"].get(table)
  return list(t["cols"].get(col, [])) if t else []


def _texts(v, table, col, classes):
  """Parsed values of the cells table.col; for a case without a document: the class the model placed."""
  cells = _cells(v, table, col)
  if cells is not None:
    return [_parse(x) for x in cells]
  inp = v["case"]["inp"]
  if inp["k"] == "uni" or (inp["k"] == "one" and (inp["t"], inp["c"]) == (table, col)):
    return [("class", inp["cls"])] if inp["cls"] in classes else []
  return []


def _raised(v, where, excs, below):
  c = v["case"]
  return v.get("clause") == "C25.total" and c["where"] == where and c["exc"] in excs and c["v"] < below


def _bad_time(x):
  """x / 1000 is no finite number: text, list, object, inf, nan, an integer beyond the floats"""
  if x is None:
    return False
  if not isinstance(x, (int, float)):
    return True
  try:
    return not math.isfinite(float(x))
  except OverflowError:
    return True


def m45_time_not_a_number(v):
  """migration45: int(time_created / 1000) on a comment whose JSON timeCreated/timeUpdated is no finite number."""
  if not _raised(v, "migration45", ("TypeError", "OverflowError", "ValueError"), 45):
    return False
  for kind, val in _texts(v, "_grist_Cells", "content", ("dstr", "dlist", "dhuge", "ddict")):
    if kind == "class":
      return True
    if kind == "json" and isinstance(val, dict) and (_bad_time(val.get("timeCreated")) or
                                                     _bad_time(val.get("timeUpdated"))):
      return True
  return False


def m15_filterspec_not_an_object(v):
  """migration15: `str(colRef) in filter_spec` / filter_spec[...] on filterSpec JSON that is no object."""
  if not _raised(v, "migration15", ("TypeError",), 15):
    return False
  return any(kind == "class" or (kind == "json" and val and not isinstance(val, dict))
             for kind, val in _texts(v, "_grist_Views_section", "filterSpec",
                                     ("jnum", "jtrue", "jstr", "jlist1", "jlistc", "lok")))


def _bad_widget_options(kind, val):
  if kind == "class":
    return True
  if kind != "json":
    return False
  if not isinstance(val, dict):
    return True
  return isinstance(val.get("visibleCol"), (list, dict))


def m16_widgetoptions_shape(v):
  """migration16 convert_visible_col: parsed widgetOptions .pop('visibleCol', None) on JSON that is no
  object, or an unhashable visibleCol used as a dictionary key."""
  if not _raised(v, "migration16", ("TypeError", "AttributeError"), 16) or \
      v["case"]["inner"] != "convert_visible_col":
    return False
  classes = ("jnum", "jtrue", "jstr", "jnull", "jlist1", "jlistc", "lok", "dlist", "ddict")
  return any(_bad_widget_options(k, x)
             for t in ("_grist_Tables_column", "_grist_Views_section_field")
             for k, x in _texts(v, t, "widgetOptions", classes))


def m29_widgetoptions_not_an_object(v):
  """migration29 -> summary._copy_widget_options: options.items() on widgetOptions JSON that is no object."""
  if not _raised(v, "migration29", ("AttributeError",), 29) or v["case"]["inner"] != "_copy_widget_options":
    return False
  return any(kind == "class" or (kind == "json" and not isinstance(val, dict))
             for kind, val in _texts(v, "_grist_Tables_column", "widgetOptions",
                                     ("jnum", "jtrue", "jnull", "jstr", "jlist1", "jlistc", "lok")))


def m34_options_not_an_object(v):
  """migration34: safe_parse(s.options).get('filterBar') on section options JSON that is no object."""
  if not _raised(v, "migration34", ("AttributeError",), 34):
    return False
  return any(kind == "class" or (kind == "json" and not isinstance(val, dict))
             for kind, val in _texts(v, "_grist_Views_section", "options",
                                     ("jnum", "jtrue", "jstr", "jnull", "jlist1", "jlistc", "lok")))


def _bad_acl(kind, val):
  if kind == "class":
    return True
  if kind != "json" or not val:
    return False
  if isinstance(val, str):
    return False
  if isinstance(val, list):
    return val[0] == "Comment" and len(val) < 3
  return True


def m35_aclformula_shape(v):
  """migration35: acl_formula[0] / acl_formula[2] on aclFormulaParsed JSON that is no ["Comment", _, memo] list."""
  if not _raised(v, "migration35", ("KeyError", "TypeError", "IndexError"), 35):
    return False
  classes = ("jnum", "jtrue", "jlistc", "dstr", "dlist", "dhuge", "ddict", "dok")
  return any(_bad_acl(k, x) for k, x in _texts(v, "_grist_ACLRules", "aclFormulaParsed", classes))


def m34_filters_without_ids(v):
  """migration25 adds the _grist_Filters rows with row id None; migration34, run in the same call, then
  addresses them by that id: BulkUpdateRecord _grist_Filters [None, ...] {pinned} reaches no stored row."""
  c = v["case"]
  a = c.get("ill") or {}
  return v.get("clause") == "C25.applicable" and c["v"] < 25 and a.get("n") == "BulkUpdateRecord" and \
      a["t"] == "_grist_Filters" and a["c"] == ["pinned"] and len(a["auto"]) == len(a["r"]) > 0


def m10_display_helper_added_twice(v):
  """migration10 names every display helper column 'gristHelper_Display' (not the unique id it picked):
  a table with two reference columns that show a visibleCol gets the same AddColumn twice."""
  c = v["case"]
  a = c.get("ill") or {}
  return v.get("clause") == "C25.applicable" and c["v"] < 10 and a.get("n") == "AddColumn" and \
      a["id"] == "gristHelper_Display" and a["t"] in _user_tables(c)


def _user_tables(c):
  doc = c.get("doc") or c["inp"].get("doc")
  return sorted(doc["types"]) if doc else ["T1", "T2", "GristSummary_2_T1", "T1_summary_A"]


def m17_image_cells_converted(v):
  """migration17 (need_all_tables) rewrites the cells of pre-release 'Image' columns into attachment
  lists - on purpose; the only migration that changes user data."""
  c = v["case"]
  if v.get("clause") != "C25.user" or c["v"] >= 17 or not c.get("touched"):
    return False
  doc = c.get("doc") or c["inp"].get("doc")
  if doc:
    return all(doc["types"].get(t, {}).get(col) == "Image" for t, col in c["touched"])
  return bool(c["inp"].get("old")) and c["touched"] == [["T2", "I"]]


MATCHERS = {
  "m45_time_not_a_number": m45_time_not_a_number,
  "m15_filterspec_not_an_object": m15_filterspec_not_an_object,
  "m16_widgetoptions_shape": m16_widgetoptions_shape,
  "m29_widgetoptions_not_an_object": m29_widgetoptions_not_an_object,
  "m34_options_not_an_object": m34_options_not_an_object,
  "m35_aclformula_shape": m35_aclformula_shape,
  "m34_filters_without_ids": m34_filters_without_ids,
  "m10_display_helper_added_twice": m10_display_helper_added_twice,
  "m17_image_cells_converted": m17_image_cells_converted,
}
