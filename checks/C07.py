"""C07 - decided on the shared engine-history corpus by the C07.* clauses of spec/Trace_Doc.tla."""
from checks import _shared

LEVEL = "model_checking"


def run(ctx):
  return _shared.run_clauses(ctx, "C07.", lambda e: e['tag'] == 'reopen',
                             "every 5th bundle of every history the document is reloaded into a fresh engine from the data the engine itself reports (metadata first, all tables with stored formula values, marshalled and decoded with main.table_data_from_db) and Calculate is applied: C07.quiet (no stored actions) and C07.same (same projected data)",
                             corpora=_shared.BOTH)


def replay(ctx, data):
  return _shared.replay_clause(ctx, data, "C07.")
