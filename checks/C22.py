"""C22 - cell value conversion is total and idempotent (Convert.tla).

Thin specification: the membership relation RightType(type, value) of every documented column type and
the contract of usertypes.<Type>.convert (never raises; returns a value of the type, the unchanged
error object or an alt-text string; converting the result again gives the same value), judged by TLC
on real pairs of calls convert(x), convert(convert(x)).  TLC enumerates type x value over a universe
of representative values (S->C); Hypothesis adds generated values (C->S).  Level: exploration.
"""
import json
import os

import fnspec

LEVEL = "exploration"
MC = "MC_Convert"
SPEC = "Trace_Convert"
WORKER = "fn_convert.py"

FLOAT_TYPES = ("Numeric", "ManualSortPos", "PositionNumber")
ALTTEXT_TYPES = ("Date", "DateTime", "ChoiceList", "RefList", "Attachments")


# ---------------------------------------------------------------------------------------------
# Known defects of the unchanged tree (all of clause C22.idempotent).  A matcher looks at the shape
# of the failing input and of the two results; the judgement itself was made by TLC.
def _spec(v):
  return json.loads(v["case"]["spec"])


def _idem(v):
  c = v["case"]
  return v["clause"] == "C22.idempotent" and not c["exc"] and not c["exc2"]


def _int_of(s):
  if s[0] in ("int", "myint"):
    return int(s[1])
  if s[0] == "int10":
    return 10 ** s[1]
  return None


def _float_overflows(i):
  try:
    float(i)
    return False
  except OverflowError:
    return True


def _esc(s):
  return s.encode("unicode_escape").decode("ascii")


def _m_huge_int(v):
  """int beyond the float range in a float-valued type (Numeric, ManualSortPos, PositionNumber): float(x)
  overflows -> alt text str(x) (digits); float(digits) then silently gives inf."""
  c, s = v["case"], _spec(v)
  i = _int_of(s)
  return (_idem(v) and c["t"] in FLOAT_TYPES and i is not None and _float_overflows(i)
          and c["out"]["k"] == "str" and c["out2"]["tok"] in ("#inf", "#-inf"))


def _m_alttext(v):
  """AltText input that the type's do_convert does not unwrap (Date, DateTime, ChoiceList, RefList,
  Attachments: any text the type parses; every type but Text/Choice/Any/ChoiceList/Date/DateTime:
  AltText('')): the result is the bare text, which the same type then converts to a typed value."""
  c, s = v["case"], _spec(v)
  return (_idem(v) and s[0] == "alttext" and c["inp"]["k"] == "alttext" and c["out"]["k"] == "str"
          and c["out"]["tok"] == "s" + _esc(s[1]) and c["out2"]["k"] != "str"
          and (c["t"] in ALTTEXT_TYPES or s[1] == ""))


def _m_choicelist_empty(v):
  """ChoiceList.do_convert returns the empty tuple (text that is a JSON empty list such as '[]', or a truthy
  iterable that yields nothing), but converts the empty tuple to None."""
  c, s = v["case"], _spec(v)
  return (_idem(v) and c["t"] == "ChoiceList" and c["out"]["k"] == "tuple" and c["out"]["tok"] == "L[]"
          and c["out2"]["k"] == "none"
          and ((s[0] in ("str", "mystr") and s[1].startswith("[")) or c["inp"]["k"] == "other"))


def _only_empty_recordsets(s):
  return s[0] == "recordset" and s[2] == [] or \
      (s[0] == "list" and len(s[1]) > 0 and all(e[0] == "recordset" and e[2] == [] for e in s[1]))


def _m_reflist_empty(v):
  """RefList/Attachments.do_convert returns an empty list (an empty RecordSet, a list of empty RecordSets, or a
  truthy iterable that yields nothing), but converts an empty list to None."""
  c, s = v["case"], _spec(v)
  return (_idem(v) and c["t"] in ("RefList", "Attachments") and c["out"]["k"] == "list" and c["out"]["tok"] == "L[]"
          and c["out2"]["k"] == "none" and (_only_empty_recordsets(s) or c["inp"]["k"] == "other"))


def _m_object_str(v):
  """A non-text object that the type does not accept (Decimal, Fraction, ...) falls back to str(value), and
  that text is one the type parses (Bool: '1'/'0', Date/DateTime: '2020')."""
  c, s = v["case"], _spec(v)
  return (_idem(v) and s[0] == "object" and c["inp"]["k"] == "other" and c["out"]["k"] == "str"
          and c["out2"]["k"] not in ("str", "absent") and c["t"] in ("Bool", "Date", "DateTime"))


MATCHERS = {
  "huge_int_alttext_reparsed_as_inf": _m_huge_int,
  "alttext_not_unwrapped": _m_alttext,
  "choicelist_empty_tuple": _m_choicelist_empty,
  "reflist_empty_list": _m_reflist_empty,
  "object_str_reparsed": _m_object_str,
}


# ---------------------------------------------------------------------------------------------
def render(spec):
  """Python-like text of a value expression (display only)."""
  k = spec[0]
  if k == "none":
    return "None"
  if k == "bool":
    return repr(bool(spec[1]))
  if k == "int":
    s = str(spec[1])
    return s if len(s) <= 40 else "%s...(%d digits)" % (s[:12], len(s.lstrip("-")))
  if k == "int10":
    return "10**%d" % spec[1]
  if k == "float":
    return spec[1] if spec[1] in ("nan", "inf", "-inf") else repr(float.fromhex(spec[1]))
  if k == "str":
    return repr(spec[1])
  if k == "bytes":
    return repr(bytes.fromhex(spec[1]))
  if k == "list":
    return "[" + ", ".join(render(s) for s in spec[1]) + "]"
  if k == "tuple":
    return "(" + ", ".join(render(s) for s in spec[1]) + ("," if len(spec[1]) == 1 else "") + ")"
  if k == "dict":
    return "{" + ", ".join("%s: %s" % (render(a), render(b)) for a, b in spec[1]) + "}"
  if k == "date":
    return "date(%d, %d, %d)" % tuple(spec[1:4])
  if k == "datetime":
    return "datetime(%s%s)" % (", ".join(str(x) for x in spec[1:8]), ", tz=%r" % spec[8] if spec[8] else "")
  if k == "record":
    return "%s.Record(%d)" % (spec[1], spec[2])
  if k == "recordset":
    return "%s.RecordSet(%r)" % (spec[1], spec[2])
  if k == "recordlist":
    return "RecordList(%r)" % (spec[1],)
  if k == "alttext":
    return "AltText(%r)" % (spec[1],)
  if k == "error":
    return "RaisedException(%s(%r)%s)" % (spec[1], spec[2], ", user_input=" + render(spec[3]) if len(spec) > 3 else "")
  if k in ("myint", "mystr"):
    return "%s(%r)" % ({"myint": "IntSubclass", "mystr": "StrSubclass"}[k], spec[1])
  if k == "myfloat":
    return "FloatSubclass(%s)" % render(["float", spec[1]])
  return "<%s>" % spec[1]


def _describe(case):
  head = "%s.convert(%s)" % (case["t"], render(json.loads(case["spec"]))[:160])
  if case["exc"]:
    return head + " raised " + case["exc"]
  s = "%s -> %s %s" % (head, case["out"]["k"], case["out"]["tok"][:80])
  if case["exc2"]:
    return s + "; converting that again raised " + case["exc2"]
  return s + "; converted again -> %s %s" % (case["out2"]["k"], case["out2"]["tok"][:80])


def violations_of(failures):
  und = [f for f in failures if "C22.undecidable" in f["c"]]
  if und:
    raise fnspec.tlc.MachineryError("a recorded case is outside the modelled types / kinds: %s"
                                    % json.dumps(und[0]["case"])[:2000])
  return [{"clause": c, "what": _describe(f["case"]), "case": f["case"]} for f in failures for c in f["c"]]


def _cap(viol, per_class=25):
  """Keep the smallest cases of every (clause, type, known class); count all of them."""
  classes = {}
  for v in viol:
    known = tuple(n for n, fn in sorted(MATCHERS.items()) if fn(v))
    classes.setdefault((v["clause"], v["case"]["t"], known), []).append(v)
  kept = []
  for key in sorted(classes):
    vs = sorted(classes[key], key=lambda v: len(v["case"]["spec"]))
    kept.extend(vs[:per_class])
  counts = {}
  for k, vs in classes.items():
    name = "%s/%s" % (k[0], ",".join(k[2]) if k[2] else "unclassified")
    counts[name] = counts.get(name, 0) + len(vs)
  return kept, counts


# ---------------------------------------------------------------------------------------------
def _check_universe(data, workdir):
  """Convert!Atoms (what the specification takes every universe value to be) against the worker's own
  description of the Python values it holds for the same codes.  A table comparison, not a judgement."""
  apath = os.path.join(workdir, "atoms-py.json")
  fnspec.run_cases(WORKER, [], workdir, extra={"atoms_out": apath}, tag="atoms")
  py = json.load(open(apath))
  if sorted(py["types"]) != sorted(data["types"]):
    raise fnspec.tlc.MachineryError("types differ: worker %r, Convert.tla %r" % (py["types"], data["types"]))
  if len(py["atoms"]) != len(data["atoms"]):
    raise fnspec.tlc.MachineryError("universe sizes differ: worker %d, MC_Convert %d"
                                    % (len(py["atoms"]), len(data["atoms"])))
  for code, (a, b) in enumerate(zip(py["atoms"], data["atoms"]), 1):
    b = dict(b, el=list(b["el"]))
    if a != b:
      raise fnspec.tlc.MachineryError("universe code %d differs: worker %r, MC_Convert %r" % (code, a, b))
  return py


def _desc(k, tok, x=True, sh=False, el=()):
  return {"k": k, "x": x, "sh": sh, "rl": False, "el": list(el), "tok": tok}


def _selftests(files, failures, workdir):
  """
  The demonstration of the binding, one TLC run:
    1 a recorded, accepted case of the real code with the token of its second result changed -> idempotent
    2 the same case with the first call marked as raised                                      -> total
    3 the same case, unchanged (the rejection is not blanket)                                 -> accepted
    4 Int.convert('1.5') claimed to return the float 1.5                                      -> kind
    5 Numeric.convert('a') claimed to return a fresh error object                             -> kind
  """
  failed = set((f["file"], f["i"]) for f in failures)
  recorded = None
  for f in files:
    for k, case in enumerate(json.load(open(f))):
      if not case["exc"] and not case["exc2"] and (f, k + 1) not in failed and case["t"] != "Any" \
          and not case["same"]:
        recorded = case
        break
    if recorded:
      break
  if recorded is None:
    raise fnspec.tlc.MachineryError("self-test: no accepted recorded case to corrupt")
  copy = lambda: json.loads(json.dumps(recorded))
  c1 = copy()
  c1["out2"]["tok"] = c1["out2"]["tok"] + "~"
  c2 = copy()
  c2["exc"] = "ValueError"
  c4 = dict(copy(), t="Int", inp=_desc("str", "s1.5"), out=_desc("float", "#1.5"), out2=_desc("float", "#1.5"),
            same=False, same2=True)
  err = _desc("error", 'E["sValueError"]')
  c5 = dict(copy(), t="Numeric", inp=_desc("str", "sa"), out=err, out2=err, same=False, same2=True)
  want = {1: ["C22.idempotent"], 2: ["C22.total"], 4: ["C22.kind"], 5: ["C22.kind"]}
  p = os.path.join(workdir, "selftest.json")
  json.dump([c1, c2, copy(), c4, c5], open(p, "w"))
  results, _ = fnspec.tlc.validate_shards(SPEC, [p], workdir, parallel=1)
  got = {r["i"]: sorted(r["c"]) for r in results}
  if got != want:
    raise fnspec.tlc.MachineryError("self-test: Trace_Convert judged the corrupted/correct cases %r, expected %r"
                                    % (got, want))


def _coverage(files):
  cells, distinct, nontrivial = {}, set(), set()
  n_src = {}
  paths = {}
  samples = []
  for f in files:
    for case in json.load(open(f)):
      n_src[case["src"]] = n_src.get(case["src"], 0) + 1
      key = (case["t"], case["inp"]["k"], case["inp"]["tok"])
      distinct.add(key)
      if not case["same"] and not case["exc"]:
        nontrivial.add(key)
      cell = "%s(%s)" % (case["t"], case["inp"]["k"])
      cells[cell] = cells.get(cell, 0) + 1
      if case["exc"]:
        path = "raised"
      elif case["same"]:
        path = "returned unchanged"
      elif case["out"]["k"] == "str" and case["inp"]["k"] != "str" and case["t"] not in ("Text", "Choice", "Any"):
        path = "alt-text string"
      else:
        path = "converted"
      paths[path] = paths.get(path, 0) + 1
      if len(samples) < 4 and path == "converted" and case["src"] == "hyp" and len(case["spec"]) < 120 \
          and case["t"] not in [s["t"] for s in samples] and case["inp"]["k"] not in [s["kind"] for s in samples] \
          and case["inp"]["k"] != "none":
        samples.append({"t": case["t"], "kind": case["inp"]["k"], "value": render(json.loads(case["spec"])),
                        "out": case["out"]["tok"][:60],
                        "out2": case["out2"]["tok"][:60]})
  return {"cells": cells, "distinct": len(distinct), "nontrivial": len(nontrivial), "src": n_src, "paths": paths,
          "samples": samples}


def run(ctx):
  cfg = "%s_%s.cfg" % (MC, ctx.tier)
  data, model = fnspec.enumerate_inputs(MC, cfg, ctx.workdir)
  inputs = data["inputs"]
  if len(inputs) != model["distinct"]:
    raise fnspec.tlc.MachineryError("TLC found %d distinct inputs but wrote %d" % (model["distinct"], len(inputs)))
  py = _check_universe(data, ctx.workdir)
  ctx.log("TLC enumerated %d (type, value) inputs over %d atoms in %.1fs; universe tables agree"
          % (len(inputs), len(py["atoms"]), model["wall"]))
  nshards = 8 if ctx.quick else 16
  per = 150 if ctx.quick else 1000             # Hypothesis values per shard; each goes through every type
  hyp = [{"hyp": ctx.seed * 1000 + j, "n": per} for j in range(nshards)]
  files = fnspec.run_cases(WORKER, hyp + inputs, ctx.workdir, nshards=nshards)
  failures, n, wall = fnspec.judge(SPEC, files, ctx.workdir)
  cov = _coverage(files)
  ctx.log("judged %d pairs of calls (%s) in %.1fs" % (n, cov["src"], wall))
  if cov["src"].get("enum", 0) != len(inputs):
    raise fnspec.tlc.MachineryError("recorded %d enumerated cases for %d inputs" % (cov["src"].get("enum", 0), len(inputs)))
  _selftests(files, failures, ctx.workdir)
  viol, classes = _cap(violations_of(failures))
  kinds = sorted(set(c.split("(")[1][:-1] for c in cov["cells"]))
  return {
    "states": model["distinct"] + n, "transitions": model["generated"] + n,
    "traces_validated_against_impl": n,
    "evaluations": n, "distinct_nontrivial": cov["nontrivial"],
    "rule": "one evaluation = one pair of real calls out = T.convert(x), out2 = T.convert(out) on the type object of "
            "a real engine column, judged by TLC (Convert!Clauses); TLC enumerates type x value over the universe "
            "of %s (%d atoms, lists/tuples of its element atoms); Hypothesis (seeded) adds value expressions, each "
            "run through all %d types; distinct = distinct (type, kind, encoded token) of the input; non-trivial "
            "= convert did not return its argument object unchanged" % (cfg, len(py["atoms"]), len(py["types"])),
    "samples": cov["samples"],
    "exhaustive": False,
    "assumptions": ["TLC", "harness/fn_convert.py describes values judgement-free: kind = first class of a fixed list "
                    "the value is an instance of, exactness of the class, int-shortness, element kinds, and the token "
                    "of the code's own objtypes.encode_object (1 and 1.0 share a token, NaN equals NaN)",
                    "type objects are those of real engine columns (DateTime in America/New_York, Ref/RefList to "
                    "table T, PositionNumber from _grist_ACLRules.rulePos); ReferenceColumn/ReferenceListColumn."
                    "convert wrappers of column.py are not exercised",
                    "the specification is thin: it does not say WHICH right-type value a conversion must produce",
                    "objects whose methods raise BaseException or never return are outside the generated space"],
    "violations": viol,
    "extra": {"enumerated_inputs": len(inputs), "hypothesis_cases": cov["src"].get("hyp", 0),
              "distinct_inputs": cov["distinct"], "outcomes": cov["paths"],
              "type_kind_cells_covered": len(cov["cells"]), "type_kind_cells_total": len(py["types"]) * len(kinds),
              "violation_classes": classes,
              "model_wall_s": round(model["wall"], 1), "judge_wall_s": round(wall, 1)},
  }


def replay(ctx, data):
  case = data["case"]
  files = fnspec.run_cases(WORKER, [{"t": case["t"], "spec": case["spec"], "src": case.get("src", "replay")}],
                           ctx.workdir)
  failures, _, _ = fnspec.judge(SPEC, files, ctx.workdir)
  return {"violations": violations_of(failures)}
