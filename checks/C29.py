"""
C29 - read-only calls leave the document untouched.  Histories on documents with side-effecting formulas
(summary tables evaluate lookupOrAddDerived) where every bundle is followed by a batch of read-only public
calls and a Calculate; judged by the C29.* clauses of spec/Trace_Doc.tla.
"""
from checks import _shared

LEVEL = "model_checking"

PLAN = {
  "ro:summary": (10, 120, 8, 14),
  "ro:views": (4, 60, 8, 14),
  "ro:general": (4, 60, 8, 14),
}


def run(ctx):
  return _shared.run_clauses(
    ctx, "C29.", lambda e: e["k"] == "Q" or (e["tag"] == "quiet"),
    "after every bundle: fetch_meta_tables, and for up to 3 tables fetch_table (with and without query), "
    "get_formula_error, evaluate_formula, autocomplete, get_formula_prompt, find_col_from_values with seeded "
    "arguments, plus get_formula_error on the hidden #summary# helper columns (whose evaluation calls "
    "lookupOrAddDerived); then Calculate.  Clauses: C29.unchanged (empty observed delta), C29.schema, "
    "C29.quiet (the Calculate neither raises nor emits actions)",
    name="readonly", plan=PLAN)


def replay(ctx, data):
  return _shared.replay_clause(ctx, data, "C29.")
