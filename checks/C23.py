"""C23 - changing a data column's type converts each stored value and changes nothing else
(TypeChange.tla).

S->C: TLC (MC_TypeChange) enumerates the families of (from type, to type, two-way / shown-column set-up,
column contents) inputs; harness/fn_typechange.py opens the designed document in a fresh real engine,
applies the real ['ModifyColumn', 'T', 'X', {'type': to}] user action and records, per row, the stored
value before / after and what the new type's convert() makes of the value before (logged from an engine
that never sees the type change), plus EVERY difference between the document before and after;
Trace_TypeChange judges every recorded case with TypeChange!Judge.
C->S: seeded random inputs beyond the bound (more rows, more types, odd values, contents as loaded)
go through the same judge.
"""
import json
import os
import random

import fnspec

LEVEL = "model_checking"
MC = "MC_TypeChange"
SPEC = "Trace_TypeChange"
WORKER = "fn_typechange.py"


# ---------------------------------------------------------------------------------------------
# known defects of the unchanged tree (narrow: by the failing input shape)
def _rows_failing_cells(case):
  return [r for r in case["rows"] if r["after"] not in (r["conv"], r["cconv"])]


_PYEQUAL = ({"b1", "#1"}, {"b0", "#0"})


def _row_pyequal_kept(case, r):
  """The row still holds its previous value, a list token, and the conversion is a list token that
  differs from it only in elements that are Python-equal (True / 1, False / 0)."""
  if not (r["after"] == r["prev"] and r["prev"].startswith("L[") and r["cconv"].startswith("L[")):
    return False
  old, new = json.loads(r["prev"][1:]), json.loads(r["cconv"][1:])
  return len(old) == len(new) and all(a == b or {a, b} in _PYEQUAL for a, b in zip(old, new))


def _row_reflist_reparsed(case, r):
  """The new type is RefList / Attachments, the row stores a list token that holds an oversized integer
  (a 'U[...]' element) where the conversion is a text token that starts with '['."""
  return (case["to"].startswith("RefList:") or case["to"] == "Attachments") and \
    r["after"].startswith("L[") and any(e.startswith("U[") for e in json.loads(r["after"][1:])) and \
    r["cconv"].startswith("s[")


_ROW_CLASSES = (_row_pyequal_kept, _row_reflist_reparsed)


def _known_rows(v, mine):
  """Every failing row of the case has one of the known shapes, and at least one has the shape `mine`
  (one column may show both defects in different rows)."""
  if v["clause"] != "C23.cells":
    return False
  case = v["case"]
  rows = _rows_failing_cells(case)
  return bool(rows) and all(any(f(case, r) for f in _ROW_CLASSES) for r in rows) and \
    any(mine(case, r) for r in rows)


def _pyequal_kept(v):
  """doModifyColumn skips `new_column.set` when objtypes.strict_equal(old, converted): that compares the
  outer type and then uses ==, so a converted value that differs from the stored one only by the Python
  type of a number INSIDE a list ([True] -> [1] for RefList / Attachments) is never stored; the cell keeps
  the old value, which the new type does not accept."""
  return _known_rows(v, _row_pyequal_kept)


def _reflist_alt_text_reparsed(v):
  """Changing a column to RefList / Attachments: where the conversion fails because a row id is too large
  (>= 2**31), convert() returns the alt text '[2147483648]', but ReferenceListColumn.set ->
  _clean_up_value parses any text that is a JSON list of positive integers back into a list, so the cell
  stores the list (with the oversized id) instead of the alt text."""
  return _known_rows(v, _row_reflist_reparsed)


MATCHERS = {"nested_pyequal_value_kept": _pyequal_kept, "reflist_alt_text_reparsed": _reflist_alt_text_reparsed}


# ---------------------------------------------------------------------------------------------
# Random inputs beyond the bound of the design model (C->S).  Only inputs are produced here; every
# judgement is made by TLC through the same trace specification.
TYPES = ["Text", "Int", "Numeric", "Bool", "Date", "Choice", "ChoiceList", "Any", "Ref:U", "RefList:U",
         "Ref:V", "RefList:V", "DateTime:UTC", "DateTime:America/New_York", "DateTime:Asia/Tokyo", "Attachments"]
VALUES = [0, 1, 2, 3, 5, -1, 2 ** 31, 2 ** 53 + 1, 10 ** 20, 1.0, 1.5, -0.5, 1e300, 1704067200, 1704067200.5,
          "", "a", "1", "1.5", "true", "No", "2024-01-01", "2024-01-01T10:00:00", "2024-06-15 08:00:00", "[1]", "[1, 2]", '["a"]', "[]",
          "[0]", "[1", "a,b", " 1 ", "u1", None, True, False,
          ["L"], ["L", 1], ["L", 1, 2], ["L", 2, 2], ["L", True], ["L", "a", "b"], ["L", 1, "a"], ["L", 0],
          ["L", 1.0], ["L", None], ["L", ["L", 1]], ["L", 7], ["d", 1704067200], ["D", 1704067200, "UTC"],
          ["O", {"a": 1}]]
# not used: ["R", "U", 1] / ["r", "U", [1, 2]] decode to stub objects whose alt text str() holds a memory
# address, so that two conversions of equal values never compare equal
REF = ("Ref:U", "RefList:U", "Ref:V", "RefList:V")


def random_inputs(seed, count):
  rng = random.Random("C23-%d" % seed)
  out = []
  for _ in range(count):
    frm = rng.choice(TYPES)
    two = frm in REF and rng.random() < 0.35
    vis = frm in ("Ref:U", "RefList:U") and rng.random() < 0.35
    others = [t for t in TYPES if t != frm]
    if two and rng.random() < 0.8:
      to = [t for t in REF if t != frm and t[-1] == frm[-1]][0]
    else:
      to = rng.choice(others)
    raw = (not two) and rng.random() < 0.25
    n = rng.choice((0, 1, 2, 3, 3, 4, 6))
    pool = rng.sample(VALUES, rng.choice((2, 4, 8, len(VALUES))))
    cells = ["j:" + json.dumps(rng.choice(pool)) for _r in range(n)]
    out.append({"from": frm, "to": to, "two": two, "vis": vis, "raw": raw, "cells": cells, "rnd": True})
  # the same texts converted to DateTime under three zones, one after the other in one engine process
  # (TypeChange!Anchor pins their meaning)
  iso = ["j:" + json.dumps(x) for x in ("2024-01-01T10:00:00", "2024-06-15 08:00:00", "2024-01-01", "true", "1.5", "1")]
  for frm in ("Text", "Any"):
    for to in ("DateTime:UTC", "DateTime:America/New_York", "DateTime:Asia/Tokyo", "Date", "Int", "Numeric", "Bool"):
      out.append({"from": frm, "to": to, "two": False, "vis": False, "raw": False, "cells": list(iso), "rnd": True})
  return out


# ---------------------------------------------------------------------------------------------
def _describe(case):
  inp = case["inp"]
  setup = [k for k in ("two", "vis", "raw") if inp.get(k)]
  txt = "ModifyColumn(T, X, type %s) on a %s column%s holding [%s]" % (
    case["to"], case["from"], (" (" + ", ".join(setup) + ")") if setup else "",
    ", ".join(r["prev"] for r in case["rows"]))
  if case["exc"]:
    return txt + " raised " + case["exc"]
  if case["typ"] != case["to"] or case["styp"] != case["to"]:
    return txt + " returned, but the column's type is %s / %s" % (case["typ"], case["styp"])
  bad = _rows_failing_cells(case)
  if bad:
    txt += "; " + "; ".join("row %d: stored %s, convert gives %s%s" % (
      r["r"], r["after"], r["conv"], "" if r["cconv"] == r["conv"] else " (column: %s)" % r["cconv"]) for r in bad[:4])
  else:
    txt += " -> [%s]" % ", ".join(r["after"] for r in case["rows"])
  other = [e for e in case["changed"] if not (e["t"] == "T" and e["c"] == "X" and e["k"] == "upd")]
  txt += "; also changed: " + ", ".join("%s.%s[%s] %s" % (e["t"], e["c"], e["r"], e["k"]) for e in other[:14])
  return txt


def _open(case):
  """The recorded case with its input as data again (cases carry the input as JSON text)."""
  c = dict(case)
  if isinstance(c["inp"], str):
    c["inp"] = json.loads(c["inp"])
  return c


def violations_of(failures):
  out = []
  for f in failures:
    case = _open(f["case"])
    for c in f["c"]:
      out.append({"clause": c, "what": _describe(case), "case": case})
  return out


def _cap(viol, per_class=40):
  """A broken tree fails thousands of cases: keep the smallest of every clause / known class."""
  classes = {}
  for v in viol:
    known = tuple(n for n, fn in sorted(MATCHERS.items()) if fn(v))
    classes.setdefault((v["clause"], known), []).append(v)
  kept = []
  for key in sorted(classes):
    vs = sorted(classes[key], key=lambda v: (len(v["case"]["inp"]["cells"]), len(json.dumps(v["case"]["inp"]))))
    kept.extend(vs[:per_class])
  return kept, {"%s%s" % (k[0], "/" + ",".join(k[1]) if k[1] else ""): len(v) for k, v in classes.items()}


# ---------------------------------------------------------------------------------------------
def _selftests(files, failures, workdir):
  """
  The demonstration of the binding, one TLC run over corruptions of a recorded case of the real engine
  that the judge accepted and in which the action converted a cell:
    1 the recorded case itself                                                -> must be accepted
    2 the converted cell put back to its previous value                       -> C23.cells
    3 a change of the bystander column T.Y added                              -> C23.frame
    4 a change of the other table's column Z.X added                          -> C23.frame
    5 a change of another column's type record added                          -> C23.frame
    6 the action reported as raising TypeError                                -> C23.raised
    7 the column's type reported unchanged                                    -> C23.applied
  """
  failed = set((f["file"], f["i"]) for f in failures)
  recorded = None
  for f in files:
    for k, case in enumerate(json.load(open(f))):
      if not case["exc"] and (f, k + 1) not in failed and \
          any(r["after"] != r["prev"] and r["prev"] not in (r["conv"], r["cconv"]) for r in case["rows"]):
        recorded = case
        break
    if recorded:
      break
  if recorded is None:
    return False
  mk = lambda: json.loads(json.dumps(recorded))
  cases = [mk() for _ in range(7)]
  row = [r for r in cases[1]["rows"] if r["after"] != r["prev"] and r["prev"] not in (r["conv"], r["cconv"])][0]
  row["after"] = row["prev"]
  cases[2]["changed"].append({"t": "T", "c": "Y", "r": 1, "k": "upd"})
  cases[3]["changed"].append({"t": "Z", "c": "X", "r": 1, "k": "upd"})
  cases[4]["changed"].append({"t": "_grist_Tables_column", "c": "type", "r": recorded["xref"] + 2, "k": "upd"})
  cases[5]["exc"] = "TypeError"
  cases[6]["typ"] = recorded["from"]
  want = {2: ["C23.cells"], 3: ["C23.frame"], 4: ["C23.frame"], 5: ["C23.frame"], 6: ["C23.raised"],
          7: ["C23.applied"]}
  p = os.path.join(workdir, "selftest.json")
  json.dump(cases, open(p, "w"))
  results, _ = fnspec.tlc.validate_shards(SPEC, [p], workdir, parallel=1)
  got = {r["i"]: sorted(r["c"]) for r in results}
  if got != want:
    raise fnspec.tlc.MachineryError("self-test: Trace_TypeChange judged the corrupted/correct cases %r, "
                                    "expected %r" % (got, want))
  return True


def _stats(files):
  tot = {}
  for f in files:
    for src, d in json.load(open(f + ".stats.json")).items():
      t = tot.setdefault(src, {})
      for k, v in d.items():
        t[k] = t.get(k, 0) + v
  return tot


def _pairs(files):
  """(from, to) pairs seen, pairs in which a value was converted (a coverage fact, no judgement)."""
  seen, conv = set(), set()
  for f in files:
    for case in json.load(open(f)):
      p = (case["from"], case["to"])
      seen.add(p)
      if not case["exc"] and any(r["after"] != r["prev"] for r in case["rows"]):
        conv.add(p)
  return len(seen), len(conv)


def _deal(todo, nshards):
  """fnspec.run_cases gives shard i the inputs i, i + nshards, ...: order `todo` so that shard i receives
  the i-th consecutive block of it."""
  total = len(todo)
  sizes = [len(range(i, total, nshards)) for i in range(nshards)]
  starts = [sum(sizes[:i]) for i in range(nshards)]
  return [todo[starts[k % nshards] + k // nshards] for k in range(total)]


def run(ctx):
  cfg = "%s_%s.cfg" % (MC, ctx.tier)
  written, model = fnspec.enumerate_inputs(MC, cfg, ctx.workdir)
  inputs, seeds = written["inputs"], written["seeds"]
  if len(inputs) + seeds != model["distinct"]:
    raise fnspec.tlc.MachineryError("TLC found %d distinct states (%d seeds) but wrote %d inputs" % (
      model["distinct"], seeds, len(inputs)))
  ctx.log("TLC enumerated %d inputs (%d distinct states) in %.1fs" % (len(inputs), model["distinct"], model["wall"]))
  rnd = random_inputs(ctx.seed, 600 if ctx.quick else 8000)
  todo = inputs + rnd
  # the worker builds one document per (from, two, vis): keep the groups together in the shards
  todo.sort(key=lambda i: (i["from"], i["two"], i["vis"], i["to"]))
  par = max(1, min(int(os.environ.get("VERIF_PARALLEL", "16")), len(todo)))
  files = fnspec.run_cases(WORKER, _deal(todo, par), ctx.workdir, nshards=par)
  failures, n, wall = fnspec.judge(SPEC, files, ctx.workdir, parallel=par)
  ctx.log("judged %d cases (%d enumerated, %d random) in %.1fs" % (n, len(inputs), len(rnd), wall))
  if n != len(todo):
    raise fnspec.tlc.MachineryError("recorded %d cases for %d inputs" % (n, len(todo)))
  with_recorded = _selftests(files, failures, ctx.workdir)
  if not with_recorded and not failures:
    raise fnspec.tlc.MachineryError("no accepted case with a converted cell to demonstrate the binding on")

  stats = _stats(files)
  npairs, nconv = _pairs(files)
  viol, classes = _cap(violations_of(failures))
  mid = len(inputs) // 2
  return {
    "states": model["distinct"] + n, "transitions": model["generated"] + n,
    "traces_validated_against_impl": n,
    "evaluations": n,
    "distinct_nontrivial": stats.get("enum", {}).get("some_cell_converted", 0),
    "rule": "TLC enumerates every (from, to, two-way / shown column, contents) input of the families of %s "
            "(all 90 ordered pairs of Text, Int, Numeric, Bool, Date, Choice, ChoiceList, Any, Ref:U, RefList:U; "
            "contents of <= 3 rows over 0, 1, 2, 1.5, '', 'a', '1', None, True, ['L', 1], a date timestamp, "
            "written through the engine; reference columns also as two-way references and with a shown column "
            "+ display helper; a family with contents stored raw as after loading); one evaluation = one real "
            "ModifyColumn user action on a freshly opened document, judged by TLC; non-trivial = enumerated "
            "case in which the action changed a stored value of the column" % cfg,
    "samples": inputs[mid: mid + 3],
    "exhaustive": True,
    "assumptions": ["TLC", "harness/fn_typechange.py transcribes encoded cell values type-exactly into tokens "
                    "(harness/tokens.py: 1 and 1.0 are one token, True is another) and lists every difference of "
                    "two fetch_table snapshots of all tables",
                    "usertypes.<Type>.convert / column.convert of the new type are taken as GIVEN (C22): they are "
                    "called on the previous stored value in an engine that never sees the type change; where "
                    "the reference column's convert differs from its type object's (list -> first row id, row "
                    "id -> list) both results are admitted",
                    "formula results that depend on the column are exempt from the frame and not judged "
                    "(recalculation = C05); dependence = least fixed point of the engine's static mention "
                    "analysis (gencode.grist_names) from T.X and its reverse column",
                    "exempt metadata: X's own _grist_Tables_column record in type, widgetOptions, displayCol, "
                    "visibleCol; its view-field records in widgetOptions, displayCol, visibleCol; the record and "
                    "cells of a display helper column that X.displayCol / a field's displayCol named",
                    "a ValueError for a two-way reference column changed to anything but Ref/RefList of the same "
                    "table is the engine's refusal to change the type (nothing judged)",
                    "the document is built with user actions, saved, and reopened in a fresh engine per case "
                    "(load_meta_tables / load_table / Calculate)",
                    "the enumerated space is a union of fully enumerated families, not the full product; random "
                    "inputs (seeded; <= 6 rows, 14 types incl. Ref:V, DateTime, Attachments, 50 odd values) are a "
                    "sample"],
    "violations": viol,
    "extra": {"enumerated_inputs": len(inputs), "random_inputs": len(rnd),
              "enumerated_paths": stats.get("enum", {}), "random_paths": stats.get("rnd", {}),
              "type_pairs_seen": npairs, "type_pairs_with_a_converted_value": nconv,
              "violation_classes": classes, "selftest_with_recorded_case": with_recorded,
              "model_wall_s": round(model["wall"], 1), "judge_wall_s": round(wall, 1)},
  }


def replay(ctx, data):
  inp = data["case"]["inp"]
  files = fnspec.run_cases(WORKER, [inp], ctx.workdir)
  failures, _, _ = fnspec.judge(SPEC, files, ctx.workdir)
  return {"violations": violations_of(failures)}
