"""C20 - row positions stay unique and order-preserving (Relabel.tla over ranks)."""
import json
import math
import random

import fnspec

LEVEL = "model_checking"

INF = float("inf")
TWO53 = 2.0 ** 53
MIN_NORMAL = 2.0 ** -1022


# ---- randomized inputs beyond the bound (C->S); only inputs are made here, never judgements ------

def _ulps(x, n):
  for _ in range(abs(n)):
    x = math.nextafter(x, INF if n > 0 else -INF)
  return x


def _cluster(rng, base, size, gaps=(1, 1, 1, 1, 2, 3)):
  out, x = [], base
  for _ in range(size):
    out.append(x)
    x = _ulps(x, rng.choice(gaps))
  return out


def _normal_base(rng, lo=-1000, hi=50):
  """A positive normal double: a power of two, a point just below one, or a random mantissa."""
  e = rng.randint(lo, hi)
  c = rng.random()
  if c < 0.35:
    return 2.0 ** e
  if c < 0.6:
    return _ulps(2.0 ** e, -rng.randint(1, 6))
  return (1.0 + rng.random()) * 2.0 ** e


def _requests(rng, keys, fresh, m, infs=True):
  """m requested positions: ties with existing rows, their float neighbours, duplicates, infinities."""
  reqs = []
  for _ in range(m):
    c = rng.random()
    if reqs and c < 0.2:
      reqs.append(rng.choice(reqs))
    elif keys and c < 0.55:
      reqs.append(rng.choice(keys))
    elif keys and c < 0.7:
      reqs.append(_ulps(rng.choice(keys), rng.choice((1, -1))))
    elif infs and c < 0.8:
      reqs.append(rng.choice((INF, -INF)))
    else:
      reqs.append(fresh())
  return reqs


def gen_floats(rng):
  keys = sorted(set(2.0 ** rng.uniform(-30, 30) for _ in range(rng.randint(0, 12))))
  return keys, _requests(rng, keys, lambda: 2.0 ** rng.uniform(-31, 31), rng.randint(1, 8))


def gen_smallint(rng):
  """What documents look like: positions 1..n with a few halves, requests on and between them."""
  n = rng.randint(0, 15)
  keys = sorted(set([float(i) for i in range(1, n + 1)] +
                    [i + rng.choice((0.5, 0.25, 0.75)) for i in range(n) if rng.random() < 0.3]))
  return keys, _requests(rng, keys, lambda: float(rng.randint(0, n + 2)), rng.randint(1, 10))


def gen_cluster(rng):
  keys = set()
  for _ in range(rng.randint(1, 3)):
    keys.update(_cluster(rng, _normal_base(rng), rng.randint(1, 8)))
  keys = sorted(keys)
  reqs = _requests(rng, keys, lambda: _normal_base(rng), rng.randint(1, 6))
  if rng.random() < 0.5:
    reqs = [r for r in reqs for _ in range(rng.randint(1, 4))]
    rng.shuffle(reqs)
  return keys, reqs


def gen_burst(rng):
  """Many inserts at the same key."""
  keys, reqs = gen_cluster(rng) if rng.random() < 0.7 else gen_smallint(rng)
  c = rng.random()
  if keys and c < 0.6:
    target = rng.choice(keys)
  elif keys and c < 0.75:
    target = _ulps(rng.choice(keys), 1)
  else:
    target = rng.choice((INF, -INF))
  reqs = reqs[:rng.randint(0, 3)] + [target] * rng.randint(10, 60)
  if rng.random() < 0.5:
    rng.shuffle(reqs)
  return keys, reqs


def gen_signed(rng):
  """Negative and zero positions (relabeling.py renumbers everything when it meets them)."""
  keys = set()
  for _ in range(rng.randint(1, 3)):
    c = rng.random()
    if c < 0.25:
      keys.add(0.0)
    else:
      b = _normal_base(rng, -60, 40)
      b = -b if rng.random() < 0.7 else b
      keys.update(_cluster(rng, b, rng.randint(1, 5)))
  keys = sorted(keys)
  def fresh():
    return rng.choice((0.0, -1.0, 1.0, -_normal_base(rng, -60, 40), _normal_base(rng, -60, 40)))
  return keys, _requests(rng, keys, fresh, rng.randint(1, 6))


def gen_extreme(rng):
  """The two ends of the double range: subnormal positions and positions of 2^53 and above."""
  keys = set()
  if rng.random() < 0.5:
    for _ in range(rng.randint(1, 2)):
      c = rng.random()
      if c < 0.4:
        b = 5e-324 * rng.randint(1, 40)
      elif c < 0.7:
        b = _ulps(MIN_NORMAL, -rng.randint(0, 5))
      else:
        b = 2.0 ** rng.randint(-1074, -1023)
      keys.update(_cluster(rng, b, rng.randint(1, 5)))
  else:
    for _ in range(rng.randint(1, 2)):
      c = rng.random()
      if c < 0.4:
        b = 2.0 ** rng.randint(53, 1023)
      elif c < 0.7:
        b = (1.0 + rng.random()) * 2.0 ** rng.randint(53, 1022)
      else:
        b = _ulps(1.7976931348623157e308, -rng.randint(6, 40))
      keys.update(_cluster(rng, b, rng.randint(1, 5)))
  keys = sorted(k for k in keys if math.isfinite(k))
  reqs = _requests(rng, keys, lambda: rng.choice(keys), rng.randint(1, 4))
  return keys, [r for r in reqs if r == r]


PROFILES = [("floats", gen_floats, 3), ("smallint", gen_smallint, 2), ("cluster", gen_cluster, 5),
            ("burst", gen_burst, 2), ("signed", gen_signed, 2), ("extreme", gen_extreme, 1)]


def random_inputs(seed, total):
  weight = sum(w for _, _, w in PROFILES)
  inputs = []
  for name, gen, w in PROFILES:
    rng = random.Random("C20/%s/%d" % (name, seed))
    for _ in range(max(1, total * w // weight)):
      keys, reqs = gen(rng)
      inputs.append({"emb": "random:" + name, "ex": [], "req": [],
                     "keys": [k.hex() for k in keys], "reqs": [r.hex() for r in reqs]})
  return inputs


# ---- narrow recognisers of defects of the unchanged tree (used only if known_findings.json names them)

def _keys(v):
  return [float.fromhex(s) for s in v["case"]["inp"]["keys"]]


def _raised(v, names):
  return v.get("clause", "").startswith("C20.raised") and v["case"].get("exc") in names


def _normal_range(v):
  return all(k == 0.0 or MIN_NORMAL <= abs(k) < TWO53 for k in _keys(v))


MATCHERS = {
  # After _adjust_range() has moved the neighbours, prep_inserts_at_index re-checks the new keys against
  # the STALE begin/end it read before the move; when a relabelled new key happens to equal the old
  # value of a neighbour the (spurious) assertion fires although the computed result is correct.
  # Minimal input: keys [1+256ulp, 1+257ulp], one request equal to the second key.
  "stale_endpoint_assert":
    lambda v: _raised(v, ("AssertionError",)) and _normal_range(v) and v["case"].get("where", "").startswith(
      "prep_inserts_at_index: assert is_valid_range(begin, self._insertions.irange(begin, end), end)"),
  # range_around_float() assumes 53 significant bits; on subnormal keys it returns an empty range
  # and prep_inserts_at_index / _find_sparse_enough_range fail their assertions
  "subnormal_positions_assert":
    lambda v: _raised(v, ("AssertionError",)) and any(0.0 < abs(k) < MIN_NORMAL for k in _keys(v)),
  # appending after a last key >= 2^53: `end = begin + count + 1` is not above begin any more (or
  # leaves too few doubles); near the top of the range ldexp overflows
  "huge_positions_assert":
    lambda v: _raised(v, ("AssertionError", "OverflowError")) and any(abs(k) >= TWO53 for k in _keys(v)),
}


# ---- the check ---------------------------------------------------------------------------------------

def _what(case):
  inp, out = case["inp"], case["out"]
  return "prepare_inserts(keys=%s, requested=%s) [%s] -> %s adj=%s new=%s (values as [kind, rank])" % (
    [float.fromhex(s) for s in inp["keys"]], [float.fromhex(s) for s in inp["reqs"]], inp["emb"],
    ("%s at %s" % (case["exc"], case.get("where", ""))) if case["exc"] else "ok", out["adj"], out["new"])


def _violations(failures):
  pre = [f for f in failures if "C20.pre" in f["c"]]
  if pre:
    raise fnspec.tlc.MachineryError("harness produced an input outside the precondition: %s"
                                    % json.dumps(pre[0]["case"]["inp"]))
  # the clause names are TLC's; for C20.raised the place of the raise is appended (reporting only), so
  # that different failing assertions are listed separately
  def label(c, case):
    return "%s: %s" % (c, case.get("where", "")) if c == "C20.raised" else c
  return [{"clause": label(c, f["case"]), "what": _what(f["case"]), "case": f["case"]}
          for f in failures for c in f["c"]]


def _mutations():
  """Corrupted outputs that Trace_Relabel must reject (the binding self-test): every clause at least once,
  plus one admissible control case that must be accepted."""
  old = [[0, 1], [0, 3]]
  def case(req, adj, new, exc=""):
    return {"inp": {"emb": "selftest", "ex": [], "req": [], "keys": [], "reqs": []},
            "out": {"old": old, "req": req, "adj": adj, "new": new}, "exc": exc, "where": ""}
  return [
    ("C20.place", case([[0, 3]], [], [[0, 4]])),                  # tie placed AFTER the equal row
    ("C20.place", case([[-1, 0]], [], [[0, 2]])),                 # -inf request not placed first
    ("C20.distinct", case([[0, 3]], [], [[0, 1]])),               # collides with an existing row
    ("C20.distinct", case([[0, 0], [0, 0]], [], [[0, 0], [0, 0]])),   # equal requests share one position
    ("C20.keeporder", case([[0, 2]], [[0, 0, 5]], [[0, 2]])),     # adjustment reorders existing rows
    ("C20.finite", case([[1, 0]], [], [[1, 0]])),                 # +inf handed out as a position
    ("C20.finite", case([[0, 2]], [[1, 2, 0]], [[0, 2]])),        # NaN written to an existing row
    ("C20.neworder", case([[0, 0], [0, 2]], [], [[0, 2], [0, 0]])),
    ("C20.shape", case([[0, 0], [0, 2]], [], [[0, 0]])),
    ("C20.target", case([[0, 2]], [[2, 0, 5]], [[0, 2]])),
    ("C20.raised", case([[0, 2]], [], [], exc="ValueError")),
    # control: admissible, must be ACCEPTED - equal requests in reverse batch order, tie before its row
    ("", case([[0, 3], [0, 3]], [[1, 0, 9]], [[0, 5], [0, 4]])),
  ]


def run(ctx):
  cfg = "MC_Relabel_%s.cfg" % ctx.tier
  embs = ["sparse", "dense", "mixed", "denseu"] + ([] if ctx.quick else ["denseb"])
  inputs, model = fnspec.enumerate_inputs("MC_Relabel", cfg, ctx.workdir)
  ctx.log("TLC enumerated %d inputs (%d distinct states), %.1fs" % (len(inputs), model["distinct"], model["wall"]))
  rand = random_inputs(ctx.seed, 6000 if ctx.quick else 300000)
  # grid inputs and random inputs share the worker runs and the judging JVMs (few, large shards)
  files = fnspec.run_cases("fn_relabel.py", inputs + rand, ctx.workdir, extra={"embs": embs},
                           nshards=8 if ctx.quick else 16)

  # binding self-test, part 1: hand-corrupted outputs, appended to the last shard so that they are judged
  # in the same TLC run as real cases (they are not counted and not reported)
  muts = _mutations()
  last = json.load(open(files[-1]))
  first_mut = len(last) + 1
  json.dump(last + [c for _, c in muts], open(files[-1], "w"))

  failures, n, wall = fnspec.judge("Trace_Relabel", files, ctx.workdir)
  n -= len(muts)
  ctx.log("TLC judged %d recorded calls in %.1fs" % (n, wall))
  is_mut = lambda f: f["file"] == files[-1] and f["i"] >= first_mut
  verdict = {f["i"] - first_mut: f["c"] for f in failures if is_mut(f)}
  for k, (clause, _) in enumerate(muts):
    got = verdict.get(k, [])
    if (clause and clause not in got) or (not clause and got):
      raise fnspec.tlc.MachineryError("self-test: mutation %d expected %r, Trace_Relabel said %s" % (k, clause, got))
  failures = [f for f in failures if not is_mut(f)]
  json.dump(last, open(files[-1], "w"))
  # part 2: a REAL recorded case whose new key is moved behind the row it ties with
  def mutate(case):
    out = case["out"]
    out["old"], out["req"], out["adj"], out["new"] = [[0, 0], [0, 2]], [[0, 2]], [], [[0, 3]]
    case["exc"] = case["where"] = ""
    return case
  if not fnspec.mutation_selftest("Trace_Relabel", files[0], mutate, ctx.workdir):
    raise fnspec.tlc.MachineryError("self-test: corrupted case was accepted by Trace_Relabel")

  # coverage facts (counting only)
  stats = {}
  nontrivial = 0
  samples = []
  for f in files:
    for c in json.load(open(f)):
      if len(samples) < 3 and c["out"]["adj"] and c["inp"]["emb"] in ("dense", "random:cluster", "random:signed") \
          and c["inp"]["emb"] not in [x["inp"]["emb"] for x in samples]:
        samples.append(c)
      s = stats.setdefault(c["inp"]["emb"], {"cases": 0, "with_adjustments": 0, "raised": 0})
      s["cases"] += 1
      s["with_adjustments"] += 1 if c["out"]["adj"] else 0
      s["raised"] += 1 if c["exc"] else 0
      nontrivial += 1 if c["out"]["old"] and c["out"]["req"] else 0
  n_grid = sum(stats[e]["cases"] for e in embs)
  # document-level part of the statement: position columns hold pairwise distinct values after any
  # history - clause C20.positions of Trace_Doc, evaluated on the engine-history corpora
  from checks import _shared   # pylint: disable=import-outside-toplevel
  doc = _shared.run_clauses(ctx, "C20.", lambda e: e["k"] == "B", "", corpora=_shared.BOTH)
  return {
    "states": model["distinct"] + n, "transitions": model["generated"] + n,
    "traces_validated_against_impl": n,
    "evaluations": n, "distinct_nontrivial": nontrivial,
    "rule": "TLC enumerates every (existing subset, request batch) within the bound of %s; each is embedded "
            "into floats as %s and run through the real prepare_inserts (%d cases), plus %d seeded random "
            "cases beyond the bound; non-trivial = at least one existing row and one request"
            % (cfg, "/".join(embs), n_grid, n - n_grid),
    "samples": samples,
    "exhaustive": True,
    "assumptions": ["TLC", "harness/fn_relabel.py ranks floats faithfully (order, equality, finiteness)",
                    "the embeddings sparse/dense/mixed/denseu(/denseb) represent the float neighbourhoods of the "
                    "bounded space; random profiles cover other magnitudes only by sampling",
                    "precondition: existing positions finite and strictly increasing (checked by TLC per case)"],
    "violations": _violations(failures) + doc["violations"],
    "extra": {"document_positions_events_judged": doc["evaluations"], "per_embedding": stats, "judge_wall_s": round(wall, 1), "model_wall_s": round(model["wall"], 1),
              "selftest_mutations": [c for c, _ in muts]},
  }


def replay(ctx, data):
  if "tid" in data:
    from checks import _shared   # pylint: disable=import-outside-toplevel
    return _shared.replay_clause(ctx, data, "C20.")
  files = fnspec.run_cases("fn_relabel.py", [data["case"]["inp"]], ctx.workdir)
  failures, _, _ = fnspec.judge("Trace_Relabel", files, ctx.workdir)
  return {"violations": _violations(failures)}
