"""C35 - SCHEDULE yields exactly the scheduled occurrences (Schedule.tla)."""
import glob
import json
import os
import re

import fnspec

LEVEL = "model_checking"
tlc = fnspec.tlc

NSHARDS = 16
VARIANTS = {"quick": 2, "thorough": 2}
NRANDOM = {"quick": 150, "thorough": 4000}        # per shard


def _lower_s_delta(v):
  """
  The docstring of SCHEDULE documents `10-minute: +0s` ("Every 10 minutes on the minute"), but the
  parser only knows the seconds suffix `S` and raises ValueError for a lower-case `+<n>s` part.
  Matches exactly: a documented-example case whose text has a `+<digits>s` part and that raised ValueError.
  """
  c = v.get("case", {})
  return (v.get("clause") == "C35.raised" and c.get("origin") == "doc" and c.get("exc") == "ValueError"
          and re.search(r"(^|[\s:,])\+\d+s(\s|,|$)", c.get("text", "")) is not None)


MATCHERS = {"schedule_doc_lowercase_seconds_suffix": _lower_s_delta}


def _what(case):
  i = case["inp"]
  if case["lex"]:
    return "SCHEDULE(%r) -> %s" % (case["text"], case["exc"] or case["out"])
  return "SCHEDULE(%r, start=%d%s, count=%d%s) -> %s" % (
    case["text"], i["start"], "+us" if i["sub"] else "", i["count"],
    (", end=%d%s" % (i["end"], "+us" if i["esub"] else "")) if i["hasEnd"] else "",
    case["exc"] or case["out"])


def _violations(failures):
  return [{"clause": c, "what": _what(f["case"]), "case": f["case"]}
          for f in failures for c in f["c"] if c != "PRE"]


def _selftest(ctx, files, failures):
  """Corrupted recorded cases must be rejected by the trace specification, the recorded ones accepted."""
  valid = invalid = None
  rejected = set((f["file"], f["i"]) for f in failures)
  for f in files:
    for idx, case in enumerate(json.load(open(f))):
      if case["origin"] != "tlc" or (f, idx + 1) in rejected:
        continue
      if valid is None and len(case["out"]) >= 2:
        valid = case
      if invalid is None and case["exc"] == "ValueError":
        invalid = case
    if valid and invalid:
      break
  if valid is None or invalid is None:
    if failures:      # an implementation so broken that no recorded case is usable: it is being reported anyway
      ctx.log("self-test skipped: no accepted recorded case to corrupt")
      return
    raise tlc.MachineryError("self-test: no suitable recorded case")
  def shifted(case):
    case["out"][-1] += 1
    return case
  p = os.path.join(ctx.workdir, "st-shifted.json")
  json.dump([valid], open(p, "w"))
  if not fnspec.mutation_selftest("Trace_Schedule", p, shifted, ctx.workdir):
    raise tlc.MachineryError("self-test: a shifted occurrence was accepted by Trace_Schedule")
  # further corruptions in one go: [recorded, dropped first result, recorded invalid, invalid accepted, wrong class]
  cp = lambda c: json.loads(json.dumps(c))
  dropped, accepted, wrong = cp(valid), cp(invalid), cp(invalid)
  dropped["out"], dropped["us"] = dropped["out"][1:], dropped["us"][1:]
  accepted["exc"] = ""
  wrong["exc"] = "KeyError"
  p = os.path.join(ctx.workdir, "st-more.json")
  json.dump([valid, dropped, invalid, accepted, wrong], open(p, "w"))
  failures, _n, _w = fnspec.judge("Trace_Schedule", [p], ctx.workdir)
  got = sorted((f["i"], tuple(f["c"])) for f in failures)
  if got != [(2, ("C35.occ",)), (4, ("C35.invalid",)), (5, ("C35.invalid",))]:
    raise tlc.MachineryError("self-test: Trace_Schedule judged the corrupted cases as %s" % (got,))


def _enumerate(ctx, cfg):
  """
  Like fnspec.enumerate_inputs, but MC_Schedule writes one file per schedule (the inputs of a schedule are
  the successors of that schedule's initial state, so that the 16 TLC workers share the work).
  """
  prefix = os.path.join(ctx.workdir, "inputs-" + ctx.tier)
  res = tlc.run_model("MC_Schedule", cfg, ctx.workdir, workers=16, timeout=3000, xmx="8g",
                      env_extra={"OUT_FILE": prefix}, coverage=False)
  if res["rc"] != 0 or res["violated"]:
    raise tlc.MachineryError("design model MC_Schedule/%s failed:\n%s" % (cfg, res["out"][-3000:]))
  chunks = sorted(glob.glob(prefix + ".*.json"), key=lambda p: int(p.split(".")[-2]))
  inputs = []
  for p in chunks:
    inputs.extend(json.load(open(p)))
  # states = one per schedule (and one for the probes) + one per input
  if not inputs or res["distinct"] != len(inputs) + len(chunks):
    raise tlc.MachineryError("design model wrote %d inputs in %d files but explored %d states"
                             % (len(inputs), len(chunks), res["distinct"]))
  res["schedules"] = len(chunks) - 1
  return inputs, res


def run(ctx):
  cfg = "MC_Schedule_%s.cfg" % ctx.tier
  inputs, model = _enumerate(ctx, cfg)
  ctx.log("TLC enumerated %d inputs of %d schedules (%d distinct states, %.0fs)"
          % (len(inputs), model["schedules"], model["distinct"], model["wall"]))
  extra = {"nshards": NSHARDS, "variants": VARIANTS[ctx.tier], "seed": ctx.seed,
           "nrandom": NRANDOM[ctx.tier], "catalogues": True}
  files = fnspec.run_cases("fn_schedule.py", inputs, ctx.workdir, nshards=NSHARDS, extra=extra)
  failures, n, wall = fnspec.judge("Trace_Schedule", files, ctx.workdir)
  ctx.log("TLC judged %d recorded calls in %.0fs" % (n, wall))
  outside = [f for f in failures if "PRE" in f["c"]]
  stray = [f for f in outside if f["case"]["origin"] != "random"]
  if stray:
    raise tlc.MachineryError("a non-random case is outside the specification's scope: %s" % (stray[0]["case"],))
  _selftest(ctx, files, failures)

  by_origin, texts, nontrivial, raised = {}, set(), set(), 0
  samples = []
  for f in files:
    for case in json.load(open(f)):
      by_origin[case["origin"]] = by_origin.get(case["origin"], 0) + 1
      texts.add(case["text"])
      i = case["inp"]
      if case["out"] or case["exc"]:
        nontrivial.add((case["text"], i["start"], i["sub"], i["hasEnd"], i["end"], i["count"]))
      raised += 1 if case["exc"] else 0
      if len(samples) < 4 and case["origin"] in ("random", "doc") and len(case["out"]) > 1:
        samples.append({"text": case["text"], "start": i["start"], "count": i["count"], "out": case["out"][:4]})
  by_origin["random_outside_precondition"] = len(outside)
  return {
    "states": model["distinct"] + n, "transitions": model["generated"] + n,
    "traces_validated_against_impl": n - len(outside),
    "evaluations": n - len(outside), "distinct_nontrivial": len(nontrivial),
    "rule": "TLC enumerates the schedules, starts, ends and counts of %s; every one is rendered in %d spellings "
            "and passed to the real SCHEDULE; non-trivial = distinct (schedule string, start, end, count) "
            "that returned at least one time or raised" % (cfg, VARIANTS[ctx.tier]),
    "samples": samples,
    "exhaustive": True,
    "assumptions": ["TLC", "harness/fn_schedule.py renders an abstract schedule (unit, multiple, slot parts) "
                    "into the documented spellings and converts datetimes to whole seconds since 2000-01-01",
                    "naive start/end only (the document timezone is UTC outside the engine)",
                    "the precondition is Schedule!Pre: day offsets below 28 days wherever months are involved"],
    "violations": _violations(failures),
    "extra": {"cases_by_origin": by_origin, "distinct_schedule_strings": len(texts),
              "calls_that_raised": raised, "design_model_wall_s": round(model["wall"], 1),
              "judge_wall_s": round(wall, 1)},
  }


def replay(ctx, data):
  case = data["case"]
  item = {"inp": case["inp"], "lex": case["lex"], "text": case["text"], "form": case["form"],
          "origin": case["origin"]}
  files = fnspec.run_cases("fn_schedule.py", [item], ctx.workdir, nshards=1)
  failures, _n, _ = fnspec.judge("Trace_Schedule", files, ctx.workdir)
  return {"violations": _violations(failures)}
