"""C09 - decided on the metadata-heavy engine-history corpus by the C09.* clauses of spec/Trace_Doc.tla."""
from checks import _shared
import shared

LEVEL = "model_checking"


def run(ctx):
  return _shared.run_clauses(ctx, "C09.", lambda e: e['k'] == 'B',
                             "after every successful call that touched a metadata table: every reference cell of every metadata table resolves (C09.resolve), non-nullable references are set (C09.nonnull), every field shows a column of its section's table (C09.fieldcol), raw and record-card sections show their table (C09.rawsection), exactly one _grist_Tables record per table of engine.schema (C09.onerec), display and rule helper columns are still in use (C09.helpers); profiles views/summary/twoway/refs", name="meta", plan=shared.PLAN_META)


def replay(ctx, data):
  return _shared.replay_clause(ctx, data, "C09.")
