"""
C30 - outputs are deterministic across processes: the same seeded histories are executed by separate
engine processes with different PYTHONHASHSEED values; spec/Trace_Peer.tla requires the recorded
behaviours (stored, undo, direct, return values, observed deltas, schema) to be identical event by event.
"""
import json
import os

import corpus
import tlc

LEVEL = "model_checking"

PLAN = {"summary": (6, 60), "schema": (4, 40), "views": (4, 40), "general": (4, 40), "twoway": (2, 20)}


def run(ctx):
  nb = 12 if ctx.quick else 25
  hashseeds = [0, 1, 2] if ctx.quick else [0, 1, 2, 3, 5, 7, 11, 12345]
  base = ctx.seed * 100000
  jobs = []
  for prof, (nq, nt) in PLAN.items():
    n = nq if ctx.quick else nt
    jobs += [[prof, s, nb] for s in range(base, base + n)]
  # the deterministic scenario scripts (harness/witness/scenario-*.json) run in every process too
  windex = json.load(open(os.path.join(os.path.dirname(corpus.__file__), "witness", "index.json")))
  jobs += [["script:" + w, 0, 0] for w in sorted(windex) if w.startswith("scenario-")]
  nsh = 4 if ctx.quick else 8
  shards = {}
  for hs in hashseeds:
    wd = os.path.join(ctx.workdir, "hs%d" % hs)
    os.makedirs(wd)
    shards[hs], _ = corpus.build_jobs_corpus(jobs, wd, nshards=nsh, hashseed=str(hs))
  # pair every other process with process 0, shard by shard
  pair_files = []
  n_events = 0
  samples = []
  for hs in hashseeds[1:]:
    for k in range(nsh):
      a = json.load(open(shards[hashseeds[0]][k]))["traces"]
      b = json.load(open(shards[hs][k]))["traces"]
      pairs = []
      for ta, tb in zip(a, b):
        pairs.append({"tid": ta["tid"], "seeds": [hashseeds[0], hs], "a": ta["events"], "b": tb["events"]})
        n_events += len(ta["events"])
      if len(a) != len(b):
        raise tlc.MachineryError("trace count differs between processes")
      p = os.path.join(ctx.workdir, "pairs-%d-%02d.json" % (hs, k))
      json.dump({"pairs": pairs}, open(p, "w"))
      pair_files.append(p)
      if not samples and pairs:
        samples.append({"tid": pairs[0]["tid"], "hash_seeds": pairs[0]["seeds"],
                        "user_actions": [e["uas"] for e in pairs[0]["a"][:6]]})
  verdicts, wall = tlc.validate_shards("Trace_Peer", pair_files, ctx.workdir)
  # binding self-test: a reordered stored list must be rejected
  st = json.load(open(pair_files[0]))
  p0 = json.loads(json.dumps(st["pairs"][0]))
  done = False
  for e in p0["b"]:
    if len(e.get("stored", [])) >= 2:
      e["stored"] = e["stored"][::-1]
      done = True
      break
  if done:
    sp = os.path.join(ctx.workdir, "selftest-pairs.json")
    json.dump({"pairs": [p0]}, open(sp, "w"))
    sv, _ = tlc.validate_shards("Trace_Peer", [sp], ctx.workdir, parallel=1)
    if not sv or not sv[0]["v"]:
      raise tlc.MachineryError("self-test: reordered stored actions accepted by Trace_Peer")
  viol = []
  for v in verdicts:
    for f in v["v"]:
      viol.append({"clause": f["c"], "tid": v["tid"], "l": f["l"], "detail": f["d"], "n_bundles": nb,
                   "what": "%s event %d differs between hash seeds in %s" % (v["tid"], f["l"], f["d"])})
  return {
    "states": n_events + len(verdicts), "transitions": n_events + len(verdicts),
    "traces_validated_against_impl": len(verdicts) + len(verdicts) // max(1, len(hashseeds) - 1),
    "evaluations": n_events, "distinct_nontrivial": len({v["tid"] for v in verdicts}),
    "rule": "seeded histories of the profiles %s executed in %d separate processes with PYTHONHASHSEED in %s; "
            "every event of process k is compared field by field with the same event of process 0; "
            "non-trivial = distinct histories" % (sorted(PLAN), len(hashseeds), hashseeds),
    "samples": samples,
    "assumptions": ["TLC", "formulas of the generator are free of time and randomness",
                    "the history generator itself is deterministic given the engine's replies"],
    "violations": viol,
    "extra": {"hash_seeds": hashseeds, "tlc_wall_s": round(wall, 1)},
  }


def replay(ctx, data):
  prof, seed = data["tid"].rsplit("-", 1)
  jobs = [[prof, int(seed), 0 if prof.startswith("script:") else data["n_bundles"]]]
  files = {}
  for hs in (0, 1, 2):
    wd = os.path.join(ctx.workdir, "hs%d" % hs)
    os.makedirs(wd)
    files[hs], _ = corpus.build_jobs_corpus(jobs, wd, nshards=1, hashseed=str(hs))
  pairs = []
  a = json.load(open(files[0][0]))["traces"][0]
  for hs in (1, 2):
    b = json.load(open(files[hs][0]))["traces"][0]
    pairs.append({"tid": a["tid"], "seeds": [0, hs], "a": a["events"], "b": b["events"]})
  p = os.path.join(ctx.workdir, "pairs.json")
  json.dump({"pairs": pairs}, open(p, "w"))
  verdicts, _ = tlc.validate_shards("Trace_Peer", [p], ctx.workdir, parallel=1)
  return {"violations": [{"clause": f["c"], "tid": v["tid"], "l": f["l"], "detail": f["d"],
                          "n_bundles": data["n_bundles"], "what": "differs"} for v in verdicts for f in v["v"]]}
