"""C24 - everything sent to Node is marshal-safe and round-trips; no reply is lost after the apply (Rpc.tla).

Design level (MC_Rpc): the call/reply loop of sandbox.py as a state machine (Node stack, Python stack of
serve / call_external frames, two FIFO pipes, engine document version, Node's mirror).  As coded the
reply is serialised AFTER the engine applied the bundle, so Atomic ("reply = EXC => document unchanged")
holds iff marshal.dumps is total on replies: MC_Rpc_quick/_thorough check the invariants under that
hypothesis, MC_Rpc_unsafe must produce the counterexample without it, MC_Rpc_revert shows the ordering
that would be safe regardless.  TLC also enumerates every script of call classes up to the bound.

Conformance: harness/fn_rpc.py drives the REAL loop (main.main() in a child process, real pipes, real
marshal) (S->C) through every enumerated script and (C->S) through a catalogue + Hypothesis-generated
hostile values returned by formulas or held by data cells; Trace_Rpc judges every recorded call
(C24.atomic / delivered / alive) and every encoded value (C24.roundtrip / marshal).  Level: exploration.
"""
import json
import os
import re
import threading

import corpus
import fnspec

LEVEL = "exploration"
MC = "MC_Rpc"
SPEC = "Trace_Rpc"
WORKER = "fn_rpc.py"

COLTYPES = ["Any", "Text", "Numeric", "Int", "Bool", "Date", "DateTime:America/New_York", "Choice", "ChoiceList",
            "Ref:W", "RefList:W", "Attachments"]
HOSTILE = ("apply_hostile", "apply_wire", "fetch_hostile", "apply_ext_hostile")
GUARANTEED = ("apply_ok", "apply_ext_data", "apply_ext_nested", "fetch_ok", "fetch_meta",
              "apply_hostile", "fetch_hostile", "apply_ext_hostile")
UNMARSHALLABLE = "ValueError unmarshallable object"
TOKEN_CAP = 1500


# ---------------------------------------------------------------------------------------------
# Known defects of the unchanged tree.  The judgement was made by TLC; a matcher only recognises the
# shape of the failing input and of the failure.  _culprits re-reads which calls / values of the case
# carry the clause, so that a matcher can insist that ALL of them have the known shape.
def _changed(c):
  return "?" not in (c["w0"], c["w1"]) and c["w0"] != c["w1"]


def _culprits(case, clause):
  calls, rts = [], []
  for c in case["calls"]:
    if clause == "C24.atomic":
      hit = (c["reply"] != "DATA" and _changed(c)) or \
            (c["reply"] == "DATA" and c["kind"].startswith("apply") and _changed(c) and not c["hasw"])
    elif clause == "C24.delivered":
      hit = c["kind"] in GUARANTEED and c["reply"] != "DATA"
    elif clause == "C24.alive":
      hit = c["reply"] == "BROKEN" or not c["sync"]
    else:
      hit = False
    if hit:
      calls.append(c)
  for r in case["rts"]:
    if clause == "C24.roundtrip" and r["enc"] != r["enc2"]:
      rts.append(r)
    if clause == "C24.marshal" and (not r["dumps"] or r["back"] != r["enc"]):
      rts.append(r)
  return calls, rts


def _input(v):
  return json.loads(v["case"]["spec"])


_MARK = re.compile(r"![A-Za-z_0-9\\]+:")


def _m_str_subclass(v):
  """encode_object lets an instance of a str SUBCLASS through (a dict key; the result of str(x), repr(x),
  bytes.decode() or type(e).__name__ that the object's class overrides): marshal.dumps of the reply raises
  'unmarshallable object' after the bundle was applied -> EXC reply, document changed; every later
  fetch_table of that table fails the same way."""
  case, clause = v["case"], v["clause"]
  calls, rts = _culprits(case, clause)
  if clause in ("C24.atomic", "C24.delivered"):
    if not calls or any(c["reply"] != "EXC" or c["text"] != UNMARSHALLABLE for c in calls):
      return False
    if case["src"] == "enum":       # the scripted hostile table H holds {MyStr('k'): n}
      return all(c["kind"] in HOSTILE for c in calls)
    return any(r["oddstr"] for r in case["rts"])
  if clause == "C24.marshal":
    return bool(rts) and all((not r["dumps"]) and r["err"] == UNMARSHALLABLE and r["oddstr"]
                             and r["odd"] == r["oddstr"] for r in rts)
  if clause == "C24.roundtrip":     # the only difference is the class of those leaves
    return bool(rts) and all(r["oddstr"] and r["odd"] == r["oddstr"] and r.get("differs_by_class_only")
                             for r in rts)
  return False


# ['D', ts, zone] with an integral ts in the last 14 hours before 10000-01-01T00:00:00Z (253402300800)
_DT_END = re.compile(r"\[sD,#(25340[0-9]{7}),s[A-Za-z0-9_/+-]+\]")


def _dt_end(m):
  return "[sE,sOverflowError]" if 0 <= 253402300800 - int(m.group(1)) <= 14 * 3600 else m.group(0)


def _m_datetime_max(v):
  """A datetime within the last ~15 microseconds of year 9999 in its own zone (datetime.max; 23:59:59.999999 in
  a zone ahead of UTC): dt_to_ts rounds the timestamp up to the next whole second, i.e. to local year 10000,
  which moment.ts_to_dt cannot decode -> the decoded value is an OverflowError error object."""
  if v["clause"] != "C24.roundtrip":
    return False
  _calls, rts = _culprits(v["case"], v["clause"])
  return bool(rts) and all(r.get("differs_by_datetime_max_only") for r in rts)


def _m_deep_recursion(v):
  """A cell changes from one value whose encoding is nested more than ~750 levels of ['O', {..}] (a recursive
  dict, cut off by encode_object at the recursion limit) to another: ActionGroup.flush_calc_changes ->
  action_summary -> objtypes.equal_encoding compares the two encodings with ==, which raises RecursionError;
  engine.apply_user_actions calls it OUTSIDE the try block that reverts, so the call fails with the bundle
  applied."""
  case, clause = v["case"], v["clause"]
  if clause not in ("C24.atomic", "C24.delivered"):
    return False
  calls, _rts = _culprits(case, clause)
  return (bool(calls) and all(c["reply"] == "EXC" and c["text"].startswith("RecursionError") and
                              c.get("step") == "update" for c in calls)
          and any(r["depth"] >= 1000 for r in case["rts"]))


def _m_error_str_raises(v):
  """A formula raises an exception whose str() raises (own __str__, or an argument whose __str__/__repr__
  raises): RaisedException._fill_from_error calls str(error) unguarded, so the whole user action fails (it is
  reverted: EXC reply, document unchanged)."""
  case = v["case"]
  if v["clause"] != "C24.delivered" or case["src"] == "enum":
    return False
  calls, _rts = _culprits(case, v["clause"])
  inp = _input(v)
  top = inp["value"]
  hostile_exc = inp["mode"] == "formula" and top[0] == "raise" and \
      (top[1] == "BadStrErr" or '"badrepr"' in case["spec"] or '"BadStrRepr"' in case["spec"])
  return (hostile_exc and bool(calls) and
          all(c["reply"] == "EXC" and not _changed(c) and c["text"] in ("ValueError no str", "ValueError no repr")
              for c in calls))


MATCHERS = {
  "str_subclass_reaches_marshal": _m_str_subclass,
  "datetime_end_of_9999_rounds_to_year_10000": _m_datetime_max,
  "deep_encoding_compare_recursion_after_apply": _m_deep_recursion,
  "error_whose_str_raises_fails_action": _m_error_str_raises,
}


# ---------------------------------------------------------------------------------------------
def _trim(case):
  """Violation records keep tokens short (a value can be 70 kB of text); the replayable input is `spec`."""
  c = json.loads(json.dumps(case))
  for r in c["rts"]:
    # two facts about the full tokens that the matchers read (tokens are cut below)
    r["differs_by_class_only"] = r["enc"] != r["enc2"] and _MARK.sub("", r["enc"]) == _MARK.sub("", r["enc2"])
    r["differs_by_datetime_max_only"] = r["enc"] != r["enc2"] and _DT_END.sub(_dt_end, r["enc"]) == r["enc2"]
    for k in ("enc", "enc2", "back"):
      if len(r[k]) > TOKEN_CAP:
        r[k] = r[k][:TOKEN_CAP] + "...(%d)" % len(r[k])
  if len(c["spec"]) > 4 * TOKEN_CAP and c["src"] != "enum":
    c["spec_truncated"] = True
  return c


def _describe(case, clause):
  calls, rts = _culprits(case, clause)
  head = case["id"] or case["spec"][:120]
  if case["src"] != "enum":
    inp = json.loads(case["spec"])
    head = "%s [%s, %s column]" % (head, inp["mode"], inp.get("coltype", "Any"))
  parts = []
  for c in calls[:3]:
    parts.append("%s(%s) -> %s%s%s%s" % (c["kind"], c.get("step", ""), c["reply"],
                                        (" '%s'" % c["text"][:70]) if c["text"] else "",
                                        ", document changed" if _changed(c) else
                                        (", document unchanged" if "?" not in (c["w0"], c["w1"]) else ""),
                                        "" if c["sync"] else ", next call not answered"))
  for r in rts[:2]:
    if clause == "C24.roundtrip":
      parts.append("enc %s != re-encoded %s" % (r["enc"][:80], r["enc2"][:80]))
    else:
      parts.append("marshal.dumps(enc %s): %s" % (r["enc"][:80], r["err"] or "loads differs: " + r["back"][:60]))
  return head + ": " + "; ".join(parts)


def violations_of(failures):
  und = [f for f in failures if "C24.undecidable" in f["c"]]
  if und:
    raise fnspec.tlc.MachineryError("a recorded case names a call class unknown to Rpc.tla: %s"
                                    % json.dumps(und[0]["case"])[:1500])
  viol, conformance = [], []
  for f in failures:
    for c in f["c"]:
      if c == "C24.conformance":
        conformance.append(f)
        continue
      viol.append({"clause": c, "what": _describe(f["case"], c), "case": _trim(f["case"])})
  return viol, conformance


def _cap(viol, per_class=6):
  """Keep the smallest cases of every (clause, known class); count all of them."""
  classes = {}
  for v in viol:
    known = tuple(n for n, fn in sorted(MATCHERS.items()) if fn(v))
    classes.setdefault((v["clause"], known), []).append(v)
  kept, counts = [], {}
  for key in sorted(classes):
    vs = sorted(classes[key], key=lambda v: len(json.dumps(v["case"])))
    kept.extend(vs[:per_class])
    counts["%s/%s" % (key[0], ",".join(key[1]) if key[1] else "unclassified")] = len(vs)
  return kept, counts


# ---------------------------------------------------------------------------------------------
def _design_models(ctx):
  """The three configurations of MC_Rpc; returns (scripts, stats of the main run, facts about the other two)."""
  side = {}

  def run_side(name):
    side[name] = fnspec.tlc.run_model(MC, "MC_Rpc_%s.cfg" % name, ctx.workdir, workers=2, xmx="2g", coverage=False)
  threads = [threading.Thread(target=run_side, args=(n,)) for n in ("unsafe", "revert")]
  for t in threads:
    t.start()
  scripts, model = fnspec.enumerate_inputs(MC, "MC_Rpc_%s.cfg" % ctx.tier, ctx.workdir, workers=4, xmx="4g")
  for t in threads:
    t.join()
  un, rv = side["unsafe"], side["revert"]
  if "Invariant Atomic is violated" not in un["out"] or '"EXC"' not in un["out"]:
    raise fnspec.tlc.MachineryError("MC_Rpc_unsafe: the loop as coded, without the hypothesis that marshal.dumps is "
                                    "total, must violate Atomic:\n%s" % un["out"][-2500:])
  if rv["rc"] != 0 or rv["violated"]:
    raise fnspec.tlc.MachineryError("MC_Rpc_revert failed:\n%s" % rv["out"][-2500:])
  if len(scripts) == 0:
    raise fnspec.tlc.MachineryError("MC_Rpc wrote no scripts")
  return [list(s) for s in scripts], model, {"unsafe_states_to_counterexample": un["distinct"],
                                             "revert_states": rv["distinct"], "revert_transitions": rv["generated"]}


def _catalogue(ctx, coltypes):
  p = os.path.join(ctx.workdir, "catalogue.json")
  corpus.run_workers(WORKER, [{"catalogue_out": p, "coltypes": coltypes}])
  return json.load(open(p))


def _selftests(files, failures, workdir):
  """
  The demonstration of the binding, one TLC run over corrupted copies of a recorded, accepted value case:
    1 a DATA reply of an applied bundle turned into EXC      -> C24.atomic + C24.delivered
    2 the re-encoded token changed                           -> C24.roundtrip
    3 marshal.dumps marked as failed                         -> C24.marshal
    4 the probe after a call marked as not answered          -> C24.alive
    5 a DATA reply of an applied bundle without the witness  -> C24.atomic
    6 the case itself, unchanged                             -> accepted
  """
  failed = set((f["file"], f["i"]) for f in failures)
  recorded = None
  for f in files:
    for k, case in enumerate(json.load(open(f))):
      if case["src"] != "enum" and case["rts"] and len(case["calls"]) == 8 and (f, k + 1) not in failed \
          and len(case["rts"][0]["enc"]) < 500:
        recorded = case
        break
    if recorded:
      break
  if recorded is None:
    # every recorded value case was rejected (a badly broken tree): corrupt a well-formed synthetic case instead,
    # so that the violations found are reported rather than masked by a machinery failure
    call = lambda kind, step, n, mut: {"kind": kind, "step": step, "reply": "DATA", "w0": "#%d" % n,
                                       "w1": "#%d" % (n + 1 if mut else n), "hasw": mut, "sync": True, "nested": 0,
                                       "text": ""}
    recorded = {"src": "synthetic", "id": "synthetic", "spec": "{}", "local_exc": "",
                "calls": [call("apply_hostile", "addtable", 0, True), call("apply_hostile", "addrecord", 1, True),
                          call("fetch_hostile", "fetch", 2, False), call("apply_hostile", "update", 2, True),
                          call("apply_ext_hostile", "convert", 3, True), call("fetch_hostile", "fetch", 4, False),
                          call("fetch_meta", "meta", 4, False), call("apply_hostile", "remove", 4, True)],
                "rts": [{"where": "formula", "enc": "#1", "enc2": "#1", "dumps": True, "back": "#1", "odd": [],
                         "oddstr": [], "depth": 0, "err": ""}]}
  copy = lambda: json.loads(json.dumps(recorded))
  c1 = copy()
  c1["calls"][1]["reply"] = "EXC"
  c2 = copy()
  c2["rts"][0]["enc2"] += "~"
  c3 = copy()
  c3["rts"][0]["dumps"] = False
  c4 = copy()
  c4["calls"][2]["sync"] = False
  c5 = copy()
  c5["calls"][1]["hasw"] = False
  want = {1: ["C24.atomic", "C24.delivered"], 2: ["C24.roundtrip"], 3: ["C24.marshal"], 4: ["C24.alive"],
          5: ["C24.atomic"]}
  p = os.path.join(workdir, "selftest.json")
  json.dump([c1, c2, c3, c4, c5, copy()], open(p, "w"))
  results, _ = fnspec.tlc.validate_shards(SPEC, [p], workdir, parallel=1)
  got = {r["i"]: sorted(r["c"]) for r in results}
  if got != want:
    raise fnspec.tlc.MachineryError("self-test: Trace_Rpc judged the corrupted/correct cases %r, expected %r"
                                    % (got, want))


def _coverage(files):
  src, replies, kinds, steps = {}, {}, {}, {}
  distinct, nontrivial = set(), set()
  ncalls = nrts = 0
  samples = []
  for f in files:
    for case in json.load(open(f)):
      src[case["src"]] = src.get(case["src"], 0) + 1
      for c in case["calls"]:
        ncalls += 1
        key = "%s:%s%s" % (c["kind"], c["reply"], "+changed" if _changed(c) else "")
        replies[key] = replies.get(key, 0) + 1
        kinds[c["kind"]] = kinds.get(c["kind"], 0) + 1
      nrts += len(case["rts"])
      if case["src"] != "enum":
        inp = json.loads(case["spec"])
        for r in case["rts"][:1]:
          k = (inp["mode"], inp.get("coltype", "Any"), r["enc"])
          distinct.add(k)
          if r["enc"][:1] in "[{(":
            nontrivial.add(k)
          code = "%s:%s" % (inp["mode"], r["enc"][1:3] if r["enc"][:1] == "[" else "primitive")
          steps[code] = steps.get(code, 0) + 1
          if case["src"] == "hyp" and len(samples) < 4 and 8 < len(r["enc"]) < 90 and len(case["spec"]) < 400 and \
              code not in [s["form"] for s in samples]:
            samples.append({"form": code, "input": inp["value"], "coltype": inp.get("coltype", "Any"),
                            "enc": r["enc"], "replies": [c["reply"] for c in case["calls"]]})
  return {"src": src, "replies": replies, "kinds": kinds, "forms": steps, "distinct": len(distinct),
          "nontrivial": len(nontrivial), "ncalls": ncalls, "nrts": nrts, "samples": samples}


def run(ctx):
  scripts, model, side = _design_models(ctx)
  ctx.log("MC_Rpc: %d scripts, %d distinct states in %.1fs; unsafe configuration violates Atomic, revert holds"
          % (len(scripts), model["distinct"], model["wall"]))
  if ctx.quick:
    nshards, per = 8, 30
    coltypes = ["Any", COLTYPES[1 + ctx.seed % (len(COLTYPES) - 1)]]
  else:
    nshards, per = 8, 1200
    coltypes = COLTYPES
  cat = _catalogue(ctx, coltypes)
  hyp = [{"hyp": ctx.seed * 1000 + j, "n": per} for j in range(nshards)]
  inputs = hyp + cat + [{"script": s} for s in scripts]
  files = fnspec.run_cases(WORKER, inputs, ctx.workdir, nshards=nshards)
  failures, n, wall = fnspec.judge(SPEC, files, ctx.workdir)
  cov = _coverage(files)
  ctx.log("judged %d cases (%s): %d calls on the real pipes, %d encoded values, in %.1fs"
          % (n, cov["src"], cov["ncalls"], cov["nrts"], wall))
  if cov["src"].get("enum", 0) != len(scripts) or cov["src"].get("cat", 0) != len(cat):
    raise fnspec.tlc.MachineryError("recorded %r cases for %d scripts and %d catalogue values"
                                    % (cov["src"], len(scripts), len(cat)))
  _selftests(files, failures, ctx.workdir)
  viol, conformance = violations_of(failures)
  if conformance and not viol:
    raise fnspec.tlc.MachineryError("the real loop behaved unlike the machine of Rpc.tla on a plain call class "
                                    "(and no property clause failed): %s" % json.dumps(conformance[0]["case"])[:2000])
  kept, classes = _cap(viol)
  return {
    "states": model["distinct"] + side["revert_states"] + n,
    "transitions": model["generated"] + side["revert_transitions"] + n,
    "traces_validated_against_impl": n,
    "evaluations": cov["ncalls"] + cov["nrts"], "distinct_nontrivial": cov["nontrivial"],
    "rule": "one evaluation = one call issued to the real sandbox loop over the pipes (reply kind, witness cell "
            "before/after, next call answered) or one cell value put through encode_object / marshal / "
            "decode_object / encode_object, each judged by TLC (Rpc!Clauses, Rpc!RtClauses); TLC enumerates the "
            "scripts of <= %d calls over %d call classes; values come from a fixed catalogue in column types %s "
            "and from Hypothesis (seeded), each driven through AddTable, AddRecord, fetch_table, UpdateRecord, "
            "ConvertFromColumn (nested call_external), fetch_table, fetch_meta_tables, RemoveTable; distinct = "
            "distinct (mode, column type, encoded token); non-trivial = the encoding is an object form, not a "
            "primitive" % (max(len(s) for s in scripts), len(set(k for s in scripts for k in s)), coltypes),
    "samples": cov["samples"],
    "exhaustive": False,
    "assumptions": ["TLC", "harness/fn_rpc.py plays Node: it writes marshal.dumps(code) + marshal.dumps(body) and reads "
                    "marshal.load -> marshal.loads((code, body)), as NSandbox does; the JavaScript marshaller itself "
                    "is not exercised",
                    "whether a bundle was applied is read from a witness cell written by the same bundle (relies on "
                    "bundle atomicity inside the engine, C04)",
                    "the round trip is taken on the cell value of an in-process engine running the same user actions",
                    "objects whose methods raise BaseException, never return, or change their answer between calls, "
                    "broken pipes and a full disk are outside the generated space; MemoryError is re-raised by the "
                    "engine on purpose",
                    "the design model assumes one top-level call at a time and that Node nests only fetches"],
    "violations": kept,
    "extra": {"scripts": len(scripts), "catalogue_values": len(cat), "hypothesis_values": cov["src"].get("hyp", 0),
              "calls_on_real_pipes": cov["ncalls"], "encoded_values": cov["nrts"], "distinct_values": cov["distinct"],
              "reply_kinds": cov["replies"], "encoded_forms": cov["forms"], "violation_classes": classes,
              "conformance_mismatches": len(conformance), "design_model": side,
              "model_wall_s": round(model["wall"], 1), "judge_wall_s": round(wall, 1)},
  }


def replay(ctx, data):
  inp = json.loads(data["case"]["spec"])
  files = fnspec.run_cases(WORKER, [inp], ctx.workdir)
  failures, _, _ = fnspec.judge(SPEC, files, ctx.workdir)
  viol, _conf = violations_of(failures)
  return {"violations": viol}
