"""Common body of C06 and C18: Recalc.tla design model + S->C conformance through Trace_RecalcFinal."""
import json
import os

import corpus
import fnspec
import tlc

CONFIGS = {
  # name: (cfg, perms for the engine runs, program sample size or None)
  "quick": [("MC_Recalc_quick.cfg", "all", None), ("MC_Recalc_cross.cfg", "all", None)],
  "thorough": [("MC_Recalc_quick.cfg", "all", None), ("MC_Recalc_cross.cfg", "all", None),
               ("MC_Recalc_4.cfg", 3, 12000)],
}


def run(ctx, clause_prefixes):
  os.environ["GRIST_VERIF_WRAP"] = "1"
  states = transitions = 0
  all_fail = []
  n_total = 0
  nontrivial = 0
  samples = []
  cover = {}
  sched_ok = 0
  sched_rejected = []
  for cfg, perms, sample in CONFIGS[ctx.tier]:
    out = os.path.join(ctx.workdir, "programs-%s.json" % cfg)
    sim = cfg == "MC_Recalc_4.cfg"
    extra = ["-simulate", "num=20000", "-depth", "80"] if sim else []
    res = tlc.run_model("MC_Recalc", cfg, ctx.workdir, workers=16, timeout=3000, env_extra={"OUT_FILE": out},
                        coverage=not sim, extra_args=extra)
    if res["violated"] or (res["rc"] != 0 and not sim):
      # a violated design property is a finding about the design: report as violation of the model
      raise tlc.MachineryError("Recalc design model failed under %s:\n%s" % (cfg, res["out"][-3000:]))
    states += res["distinct"]
    transitions += res["generated"]
    for k, v in res["coverage"].items():
      cover[k] = cover.get(k, 0) + v
    spec = json.load(open(out))
    progs = spec["programs"]
    if sample and len(progs) > sample:
      import random
      progs = random.Random(ctx.seed).sample(progs, sample)
    ctx.log("%s: %d distinct states; %d programs to run on the engine" % (cfg, res["distinct"], len(progs)))
    n = 16
    args = []
    for i in range(n):
      p = os.path.join(ctx.workdir, "prog-%s-%02d.json" % (cfg, i))
      json.dump({"cols": spec["cols"], "rows": spec["rows"], "programs": progs[i::n]}, open(p, "w"))
      args.append({"inp": p, "out": os.path.join(ctx.workdir, "cases-%s-%02d.json" % (cfg, i)),
                   "perms": perms, "seed": ctx.seed})
      if not sim:
        args[-1]["events"] = os.path.join(ctx.workdir, "events-%s-%02d.json" % (cfg, i))
    corpus.run_workers("fn_recalc.py", args)
    files = [a["out"] for a in args]
    # C->S: the scheduler events recorded while the engine ran each program (make / pop / eval, with
    # arguments and outcomes) must be a behaviour of Recalc.tla (spec/Trace_Recalc.tla)
    if not sim:
      acc, rej = sched_traces([a["events"] for a in args], ctx)
      sched_ok += acc
      sched_rejected += rej
    fails, ncases, _ = fnspec.judge("Trace_RecalcFinal", files, ctx.workdir)
    n_total += ncases
    all_fail += fails
    for f in files[:1]:
      cs = json.load(open(f))
      samples += [{k: c[k] for k in ("same", "cross", "perm", "vals")} for c in cs[len(cs) // 2: len(cs) // 2 + 2]]
    for f in files:
      for c in json.load(open(f)):
        if any(c["same"][x] or c["cross"][x] for x in c["cols"]):
          nontrivial += 1
  for f in all_fail:
    if any(c.startswith("MACHINERY") for c in f["c"]):
      raise tlc.MachineryError("schedule wrapper not effective: %s" % json.dumps(f["case"])[:500])
  # vacuity guard: every scheduler action of the model must have been taken
  for action in ("MakeWorkItems", "Pop", "SkipRow", "EvalCell", "OrderErrorOpportunistic",
                 "OrderErrorRequired", "RowsDone", "Unlock", "Rebuild"):
    if cover and cover.get(action, 0) == 0 and action != "OrderErrorOpportunistic":
      raise tlc.MachineryError("vacuity: model action %s never taken" % action)
  # self-test of the binding: a corrupted recorded value must be rejected
  def mutate(case):
    c0 = case["cols"][0]
    case["same"] = {c: [] for c in case["cols"]}
    case["cross"] = {c: [] for c in case["cols"]}
    case["vals"] = {c: [1] * len(case["rows"]) for c in case["cols"]}
    case["vals"][c0] = [2] * len(case["rows"])
    case["exc"] = ""
    case["ref_sig"] = case["sig"]
    case["order_seen"] = case["perm"]
    case["col2"] = ""
    return case
  if not fnspec.mutation_selftest("Trace_RecalcFinal", files[0], mutate, ctx.workdir):
    raise tlc.MachineryError("self-test: corrupted case accepted by Trace_RecalcFinal")
  for r in sched_rejected[:5]:
    # not a verdict on the property by itself (the final cells are judged above): the engine took a
    # scheduler step the model does not have, so the model-checked invariants no longer transfer
    print("NOTE: scheduler trace %s not a behaviour of Recalc.tla (event %d, model pc=%s)" % (
      r["tid"], r["l"], r["pc"]))
  viol = [{"clause": c, "what": "program same=%s cross=%s order=%s -> %s" % (
              f["case"]["same"], f["case"]["cross"], f["case"]["perm"], f["case"]["vals"]),
           "case": f["case"]}
          for f in all_fail for c in f["c"] if any(c.startswith(p) for p in clause_prefixes)]
  return {
    "states": states, "transitions": transitions, "traces_validated_against_impl": n_total,
    "evaluations": n_total, "distinct_nontrivial": nontrivial,
    "rule": "TLC explores Recalc.tla for every program (dependency graph, cyclic ones included) in the bound and "
            "every order of the scheduler's work lists (invariants NoProgressFailureUnreachable, FinalValues, "
            "LockDiscipline, CleanEnd; liveness Termination under WF); every program is then run on the real engine "
            "under every permutation of the dirty columns (sampled for 4 columns) and TLC compares the final cells "
            "with the denotational oracle RecalcSem!PSem; non-trivial = program with at least one read",
    "samples": samples[:4], "exhaustive": ctx.tier == "quick",
    "assumptions": ["TLC", "harness/sched.py schedule wrapper (GRIST_VERIF_WRAP=1)",
                    "harness/fn_recalc.py renders `1 + $X + $R.Y` formulas; cross-row reads go through a Ref column"],
    "violations": viol,
    "extra": {"model_action_coverage": cover,
              "scheduler_traces_accepted_by_Recalc_tla": sched_ok,
              "scheduler_traces_rejected": [{k: r[k] for k in ("tid", "l", "pc")} for r in sched_rejected[:20]]},
  }


def sched_traces(event_files, ctx):
  """Validate recorded scheduler traces against Recalc.tla; returns (accepted count, rejected records)."""
  files = []
  for f in event_files:
    d = json.load(open(f))
    if d["traces"]:
      files.append(f)
  res, wall = tlc.validate_shards("Trace_Recalc", files, ctx.workdir)
  n = sum(len(json.load(open(f))["traces"]) for f in files)
  if len(res) != n:
    raise tlc.MachineryError("Trace_Recalc judged %d of %d scheduler traces" % (len(res), n))
  # binding self-test: a trace with a corrupted evaluation result must be rejected
  d = json.load(open(files[0]))
  for t in d["traces"]:
    evs = [e for e in t["events"] if e["e"] == "eval" and e["out"] == "value"]
    if evs:
      evs[-1]["val"] = 12345
      sp = os.path.join(ctx.workdir, "selftest-events.json")
      json.dump({"cols": d["cols"], "rows": d["rows"], "traces": [t]}, open(sp, "w"))
      sv, _ = tlc.validate_shards("Trace_Recalc", [sp], ctx.workdir, parallel=1)
      if sv[0]["ok"]:
        raise tlc.MachineryError("self-test: corrupted scheduler trace accepted by Trace_Recalc")
      break
  ctx.log("Trace_Recalc: %d scheduler traces, %d rejected (%.1fs)" % (n, sum(not r["ok"] for r in res), wall))
  return sum(1 for r in res if r["ok"]), [r for r in res if not r["ok"]]


def replay(ctx, data, clause_prefixes):
  os.environ["GRIST_VERIF_WRAP"] = "1"
  c = data["case"]
  p = os.path.join(ctx.workdir, "prog.json")
  json.dump({"cols": c["cols"], "rows": c["rows"], "programs": [{"same": c["same"], "cross": c["cross"]}]},
            open(p, "w"))
  out = os.path.join(ctx.workdir, "cases.json")
  corpus.run_workers("fn_recalc.py", [{"inp": p, "out": out, "perms": "all"}])
  fails, _, _ = fnspec.judge("Trace_RecalcFinal", [out], ctx.workdir)
  return {"violations": [{"clause": cl, "what": json.dumps(f["case"])[:300], "case": f["case"]}
                         for f in fails for cl in f["c"] if any(cl.startswith(p) for p in clause_prefixes)]}
