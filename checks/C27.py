"""C27 - row id allocation never collides or creates ghost rows (RowIds.tla).

S->C: TLC (MC_RowIds) drives the RowIds state machine through every one- and two-step history of its
bound and writes them out; harness/fn_rowids.py runs the real AddRecord / BulkAddRecord /
ReplaceTableData user actions on them; Trace_RowIds judges every recorded step with RowIds!Clauses.
C->S: seeded random histories beyond the bound (longer requests, up to 4 steps, tables with gaps and
removed rows, ids around the 1,000,000 limit) go through the same judge.
"""
import json
import os
import random
import time

import fnspec
import tlc

LEVEL = "model_checking"
WORKER = "fn_rowids.py"
TRACE = "Trace_RowIds"
REPLACE = "ReplaceTableData"
NONE = {"k": "N", "v": 0}
LIMIT = 1000000


def I(v):
  return {"k": "I", "v": int(v)}


# ---------------------------------------------------------------------------------------------
# input generation beyond the TLC bound (enumeration/recording only; TLC judges)
# ---------------------------------------------------------------------------------------------
def random_histories(seed, n, big_share=0.01):
  rnd = random.Random("C27-%d" % seed)
  out = []
  for _ in range(n):
    big = rnd.random() < big_share
    pool = list(range(1, rnd.choice((6, 12, 40)) + 1))
    rnd.shuffle(pool)
    n_rows = rnd.choice((0, 1, 2, 3, 5, 8))
    rows = sorted(pool[:n_rows])
    gone = sorted(pool[n_rows:n_rows + rnd.choice((0, 0, 1, 3))])
    if big and rnd.random() < 0.5:
      rows.append(rnd.choice((LIMIT - 2, LIMIT - 1, LIMIT)))
    known = set(rows)
    steps = []
    for _s in range(rnd.choice((1, 1, 2, 3, 4))):
      kind = rnd.choice(("AddRecord", "BulkAddRecord", "BulkAddRecord", REPLACE))
      length = 1 if kind == "AddRecord" else rnd.choice((0, 1, 2, 3, 4, 6, 8))
      top = max([r for r in known if r < LIMIT - 10] or [0])
      req = []
      for _i in range(length):
        x = rnd.random()
        if x < 0.25:
          req.append(dict(NONE))
        elif x < 0.45:
          req.append(I(-rnd.randint(1, 3)))
        elif x < 0.50:
          req.append(I(0))
        elif x < 0.60 and known:
          req.append(I(rnd.choice(sorted(known))))
        elif x < 0.82:
          req.append(I(top + rnd.randint(1, 5)))          # where automatic ids will land
        elif x < 0.96:
          req.append(I(rnd.randint(1, 45)))
        elif big:
          req.append(I(rnd.choice((LIMIT - 1, LIMIT, LIMIT + 1, LIMIT + 2))))
        else:
          req.append(I(LIMIT + rnd.randint(1, 3)))
      steps.append({"kind": kind, "req": req})
      # a rough idea of which ids may exist next, only to aim later requests at interesting ids
      if kind == REPLACE:
        known = set()
      known |= {r["v"] for r in req if r["k"] == "I" and 0 < r["v"] < LIMIT - 10}
      known |= {top + j + 1 for j in range(len(req))}
    out.append({"rows": rows, "gone": gone, "steps": steps})
  return out


def _auto(r):
  return r["k"] == "N" or r["v"] < 0


def _nontrivial(h):
  for st in h["steps"]:
    expl = [r["v"] for r in st["req"] if not _auto(r)]
    if (expl and len(expl) < len(st["req"])) or len(set(expl)) < len(expl) or \
       any(v == 0 or v > LIMIT or v in h["rows"] for v in expl):
      return True
  return False


# ---------------------------------------------------------------------------------------------
# judging (TLC) and violation records
# ---------------------------------------------------------------------------------------------
def _show_req(req):
  return "[%s]" % ", ".join("None" if r["k"] == "N" else str(r["v"]) for r in req)


def _what(case, n):
  st, ob = case["inp"]["steps"][n - 1], case["out"][n - 1]
  res = ("raised %s" % ob["exc"]) if ob["exc"] else \
        ("returned %s" % (ob["ret"] if ob["retk"] == "ids" else ob["retk"]))
  return "step %d: rows %s, %s %s -> %s; rows now %s, rows holding the records %s%s" % (
    n, ob["before"], st["kind"], _show_req(st["req"]), res, ob["after"], ob["held"],
    "" if ob["dig0"] != ob["dig1"] else " (document unchanged)")


def judge(files, workdir):
  """Run Trace_RowIds over the case files. Returns (violations, n_histories, n_steps, wall)."""
  failures, n, wall = fnspec.judge(TRACE, files, workdir, xmx="1g")
  steps = 0
  viol, seen = [], set()
  for f in files:
    cases = json.load(open(f))
    steps += sum(len(c["out"]) for c in cases)
    for b in json.load(open(f + ".verdict.json")):
      case = cases[b["i"] - 1]
      for n0, clauses in enumerate(b["s"]):
        for clause in sorted(clauses):
          n_step = n0 + 1
          if clause == "C27.raised":
            cut = case
          else:
            # the failing step and what led to it; later steps do not matter
            cut = {"inp": dict(case["inp"], steps=case["inp"]["steps"][:n_step]),
                   "out": case["out"][:n_step], "exc": case["exc"]}
          key = (clause, json.dumps(cut["inp"], sort_keys=True))
          if key in seen:
            continue
          seen.add(key)
          viol.append({"clause": clause, "step": n_step, "case": cut,
                       "what": _what(cut, n_step) if clause != "C27.raised" else str(cut)[:300]})
  return viol, n, steps, wall


def _selftest(files, viol, workdir):
  """The binding: take a recorded step that the trace specification accepted (BulkAddRecord served
  with fresh ids), delete the row of the last returned id from the record (a ghost id) and require
  that the trace specification now rejects it."""
  failing = {json.dumps(v["case"]["inp"], sort_keys=True) for v in viol}
  base = None
  for f in files:
    for c in json.load(open(f)):
      ob = c["out"][0] if c["out"] else None
      if ob and len(c["out"]) == 1 and c["inp"]["steps"][0]["kind"] == "BulkAddRecord" and \
         ob["retk"] == "ids" and ob["ret"] and json.dumps(c["inp"], sort_keys=True) not in failing:
        base = c
        break
    if base:
      break
  if base is None:       # nothing was served correctly (a badly broken tree): use a synthetic record
    ob = {"exc": "", "retk": "ids", "ret": [2], "before": [1], "after": [1, 2], "view": [1, 2],
          "again": [1, 2], "held": [2], "dig0": 1, "dig1": 2}
    base = {"inp": {"rows": [1], "gone": [], "steps": [{"kind": "BulkAddRecord", "req": [dict(NONE)]}]},
            "out": [ob], "exc": ""}
  p = os.path.join(workdir, "selftest-base.json")
  json.dump([base], open(p, "w"))

  def mutate(case):
    ob = case["out"][0]
    ghost = ob["ret"][-1]
    for key in ("after", "view", "again"):
      ob[key] = [r for r in ob[key] if r != ghost]
    return case
  if not fnspec.mutation_selftest(TRACE, p, mutate, workdir):
    raise tlc.MachineryError("self-test: a recorded ghost id was accepted by %s" % TRACE)


def run(ctx):
  cfg = "MC_RowIds_%s.cfg" % ctx.tier
  inputs, model = fnspec.enumerate_inputs("MC_RowIds", cfg, ctx.workdir)
  n1 = sum(1 for h in inputs if len(h["steps"]) == 1)
  ctx.log("TLC enumerated %d histories (%d one-step, %d two-step; %d distinct states)"
          % (len(inputs), n1, len(inputs) - n1, model["distinct"]))
  extra = random_histories(ctx.seed, 3000 if ctx.quick else 30000)
  # spread the slow histories (ids near 10^6: the engine grows every column to 10^6 cells) evenly
  todo = inputs + extra
  random.Random(27).shuffle(todo)
  t0 = time.time()
  files = fnspec.run_cases(WORKER, todo, ctx.workdir, nshards=16)
  ctx.log("the real engine ran %d histories in %.1fs" % (len(todo), time.time() - t0))
  viol, n, steps, wall = judge(files, ctx.workdir)
  ctx.log("TLC judged %d histories / %d steps in %.1fs" % (n, steps, wall))
  _selftest(files, viol, ctx.workdir)
  outcomes = {}
  for f in files:
    for c in json.load(open(f)):
      for st, ob in zip(c["inp"]["steps"], c["out"]):
        key = "%s:%s" % (st["kind"], ob["exc"] or "served")
        outcomes[key] = outcomes.get(key, 0) + 1
  return {
    "states": model["distinct"] + steps, "transitions": model["generated"] + steps,
    "traces_validated_against_impl": n,
    "evaluations": steps,
    "distinct_nontrivial": sum(1 for h in inputs + extra if _nontrivial(h)),
    "rule": "TLC enumerates every history within the bound of %s (tables over {1,2,3,5}; requests over "
            "None, -1, -2, 0, 1, 2, 4, 6, 10^6, 10^6+1; all three actions; two-step histories over a "
            "smaller alphabet) plus %d seeded random histories of up to 4 steps; an evaluation is one "
            "recorded step judged by RowIds!Clauses; non-trivial = a history with a step that mixes "
            "automatic and explicit ids or names an id that is 0, repeated, existing or over 10^6"
            % (cfg, len(extra)),
    "samples": inputs[:2] + extra[:1],
    "exhaustive": True,
    "assumptions": ["TLC",
                    "harness/fn_rowids.py prepares the table at doc-action level and records "
                    "retValues, fetch_table row ids, Table.row_ids and a digest of the whole document",
                    "ReplaceTableData discards the existing rows, so its ids are judged against an "
                    "empty table (automatic ids start at 1)",
                    "the property is silent on a repeated negative placeholder and on automatic ids "
                    "that would pass 1,000,000: both rejection and distinct fresh ids are admitted"],
    "violations": viol,
    "extra": {"histories_enumerated": len(inputs), "histories_random": len(extra),
              "observed_outcomes": outcomes},
  }


def replay(ctx, data):
  files = fnspec.run_cases(WORKER, [data["case"]["inp"]], ctx.workdir)
  viol, _n, _steps, _ = judge(files, ctx.workdir)
  return {"violations": viol}


# ---------------------------------------------------------------------------------------------
# Matchers for the defect of the unchanged tree: doBulkAddOrReplace fills automatic ids and only
# rejects ids > 1,000,000; everything else is written as filled.  A violation is recognised only if
# the failing step shows exactly that behaviour (the naively filled ids were returned, the rows that
# exist are the old rows plus the positive filled ids, the last record written to an id holds it).
# ---------------------------------------------------------------------------------------------
def _failing_step(v):
  n = v["step"]
  return v["case"]["inp"]["steps"][n - 1], v["case"]["out"][n - 1]


def _naive_fill(base, req):
  nxt = max(base or [0]) + 1
  ids = []
  for r in req:
    rid = nxt if _auto(r) else r["v"]
    ids.append(rid)
    nxt = max(nxt, rid) + 1
  return ids


def _naive_behaviour(st, ob):
  base = [] if st["kind"] == REPLACE else ob["before"]
  ids = _naive_fill(base, st["req"])
  if ob["exc"]:
    return None
  if st["kind"] == REPLACE:
    if ob["retk"] != "none":
      return None
  elif ob["retk"] != "ids" or ob["ret"] != ids:
    return None
  rows = sorted(set(base) | {i for i in ids if i > 0})
  held = [(rid if rid > 0 and rid not in ids[k + 1:] else -1) for k, rid in enumerate(ids)]
  if ob["after"] != rows or ob["view"] != rows or ob["again"] != rows or ob["held"] != held:
    return None
  return ids


def _explicit(st):
  return [r["v"] for r in st["req"] if not _auto(r)]


def _m_explicit_zero(v):
  st, ob = _failing_step(v)
  return v["clause"] == "C27.reject" and _naive_behaviour(st, ob) is not None and 0 in _explicit(st)


def _m_duplicate_explicit(v):
  st, ob = _failing_step(v)
  ex = _explicit(st)
  return v["clause"] == "C27.reject" and _naive_behaviour(st, ob) is not None and len(set(ex)) < len(ex)


def _m_auto_explicit_clash(v):
  st, ob = _failing_step(v)
  ids = _naive_behaviour(st, ob)
  if ids is None or v["clause"] not in ("C27.distinct", "C27.bind", "C27.auto", "C27.exact"):
    return False
  ex = _explicit(st)
  base = [] if st["kind"] == REPLACE else ob["before"]
  if 0 in ex or len(set(ex)) < len(ex) or any(e in base or e > LIMIT for e in ex):
    return False          # not this class: the request had to be rejected anyway
  filled_auto = [rid for r, rid in zip(st["req"], ids) if _auto(r)]
  return any(rid in ex for rid in filled_auto)


def _m_existing_id(v):
  """Not observed on the unchanged tree (docactions.BulkAddRecord asserts); kept for completeness."""
  st, ob = _failing_step(v)
  return v["clause"] in ("C27.reject", "C27.collide") and not ob["exc"] and st["kind"] != REPLACE and \
    any(e in ob["before"] for e in _explicit(st))


MATCHERS = {
  "c27_explicit_zero": _m_explicit_zero,
  "c27_duplicate_explicit": _m_duplicate_explicit,
  "c27_auto_explicit_clash": _m_auto_explicit_clash,
  "c27_existing_id": _m_existing_id,
}
