"""C01 - decided on the shared engine-history corpus by the C01.* clauses of spec/Trace_Doc.tla."""
from checks import _shared, _core

LEVEL = "model_checking"


def run(ctx):
  return _core.merge(ctx, _shared.run_clauses(ctx, "C01.", lambda e: e['tag'] == 'undo',
                             "every successful bundle is undone (immediately with probability 1/2, otherwise in the final reverse unwinding); non-trivial = distinct (user actions) of undone bundles; clause C01.restore: the document after ApplyUndoActions token-equals the document before the bundle, every table including metadata and formula columns",
                             corpora=_shared.BOTH,
                             design=("MC_DocActions", "MC_DocActions_quick.cfg" if ctx.quick else "MC_DocActions.cfg")), "C01.")


def replay(ctx, data):
  if "core_chunk" in data:
    return _core.replay(ctx, data, "C01.")
  return _shared.replay_clause(ctx, data, "C01.")
