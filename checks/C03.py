"""C03 - decided on the shared engine-history corpus by the C03.* clauses of spec/Trace_Doc.tla."""
from checks import _shared

LEVEL = "model_checking"


def run(ctx):
  return _shared.run_clauses(ctx, "C03.", lambda e: e['tag'] == 'redo',
                             "undone bundles are re-applied with ApplyDocActions(stored); clause C03.redo: the document equals the post-bundle document",
                             corpora=_shared.BOTH,
                             design=("MC_DocActions", "MC_DocActions_quick.cfg" if ctx.quick else "MC_DocActions.cfg"))


def replay(ctx, data):
  return _shared.replay_clause(ctx, data, "C03.")
