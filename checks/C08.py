"""C08 - decided on the shared engine-history corpus by the C08.* clauses of spec/Trace_Doc.tla."""
from checks import _shared

LEVEL = "model_checking"


def run(ctx):
  return _shared.run_clauses(ctx, "C08.", lambda e: e['k'] in ('B', 'F'),
                             "after every successful call and every rollback: Meta!ExpectedSchema(observed _grist_Tables/_grist_Tables_column) = logged engine.schema, no orphan column records",
                             corpora=_shared.BOTH)


def replay(ctx, data):
  return _shared.replay_clause(ctx, data, "C08.")
