"""Common body of the checks decided on the shared engine-history corpus (Trace_Doc clauses)."""
import shared


BOTH = (("shared", None), ("meta", "PLAN_META"))


def merged(ctx, corpora):
  """Union of several cached corpora: (result dict, plan lookup for n_bundles)."""
  out = {"verdicts": [], "traces": [], "reused": True, "gen_wall": 0, "tlc_wall": 0, "key": []}
  plans = {}
  for name, plan_name in corpora:
    plan = getattr(shared, plan_name) if plan_name else shared.PLAN
    r = shared.get(ctx, name=name, plan=plan)
    out["verdicts"] += r["verdicts"]
    out["traces"] += r["traces"]
    out["reused"] = out["reused"] and r["reused"]
    out["gen_wall"] += 0 if r["reused"] else r["gen_wall"]
    out["tlc_wall"] += 0 if r["reused"] else r["tlc_wall"]
    out["key"].append(r.get("key"))
    plans.update(plan)
  return out, plans


def design_model(ctx, module, cfg, timeout=1800):
  """Run a bounded design model; a violated lemma is reported as a machinery failure of the suite."""
  import tlc   # pylint: disable=import-outside-toplevel
  res = tlc.run_model(module, cfg, ctx.workdir, workers=8, timeout=timeout, coverage=False)
  if res["rc"] != 0 or res["violated"]:
    raise tlc.MachineryError("design model %s/%s failed:\n%s" % (module, cfg, res["out"][-3000:]))
  ctx.log("%s/%s: %d distinct states" % (module, cfg, res["distinct"]))
  return res


def run_clauses(ctx, prefix, relevant, rule, assumptions=(), profiles=None, name="shared", plan=None,
                extra=None, corpora=None, design=None):
  if corpora:
    res, plan = merged(ctx, corpora)
  else:
    res = shared.get(ctx, name=name, profiles=profiles, plan=plan)
  viol = shared.clause_violations(ctx, res, prefix, shared.n_bundles_fn(ctx, plan))
  n_events = sum(len(t["events"]) for t in res["traces"])
  rel = [(t["tid"], i + 1, e) for t in res["traces"] for i, e in enumerate(t["events"]) if relevant(e)]
  distinct = {(e["tag"], tuple(e["uas"]), e["exc"]) for _, _, e in rel}
  samples = [{"trace": tid, "event": i, "tag": e["tag"], "user_actions": e["uas"],
              "stored_actions": e["ns"], "exception": e["exc"]} for tid, i, e in rel[:: max(1, len(rel) // 4)][:4]]
  out = {
    "states": n_events + len(res["traces"]),
    "transitions": n_events + len(res["traces"]),
    "traces_validated_against_impl": len(res["traces"]),
    "evaluations": len(rel),
    "distinct_nontrivial": len(distinct),
    "rule": rule,
    "samples": samples or [{"note": "no relevant event in this corpus"}],
    "assumptions": list(assumptions) + [
      "TLC evaluates every clause of spec/Trace_Doc.tla on every recorded event",
      "harness/tokens.py value abstraction (1 and 1.0 identified; DESIGN.md 4.3)",
      "harness/record.py delta encoder (tables that differ are sent in full)",
      "shim/friendly_traceback stand-in"],
    "violations": viol,
    "extra": {"corpus_reused": res["reused"], "corpus_key": res.get("key"), "events_judged": n_events,
              "profiles": profiles or list((plan or shared.PLAN)),
              "gen_wall_s": round(res["gen_wall"], 1), "tlc_wall_s": round(res["tlc_wall"], 1)},
  }
  if extra:
    out["extra"].update(extra)
  if design:
    module, cfg = design
    res_m = design_model(ctx, module, cfg)
    out["states"] += res_m["distinct"]
    out["transitions"] += res_m["generated"]
    out["extra"]["design_model"] = {"module": module, "cfg": cfg, "distinct_states": res_m["distinct"],
                                    "generated": res_m["generated"]}
  return out


def replay_clause(ctx, data, prefix):
  """Re-run the recorded history of a replay file against the current tree and re-validate it."""
  import corpus, tlc, os, json   # pylint: disable=import-outside-toplevel,multiple-imports
  tid = data["tid"]
  prof, seed = shared.profile_of(tid), shared.seed_of(tid)
  wd = ctx.workdir
  shards, _ = corpus.build_history_corpus(prof, [seed], data["n_bundles"], wd, nshards=1)
  verdicts, _ = tlc.validate_shards("Trace_Doc", shards, wd, parallel=1)
  viol = []
  for v in verdicts:
    for f in v["v"]:
      if f["c"].startswith(prefix):
        viol.append({"clause": f["c"], "tid": tid, "l": f["l"], "detail": f["d"],
                     "n_bundles": data["n_bundles"], "what": "%s event %d" % (tid, f["l"]),
                     "context": shared.context(tid, f["l"], data["n_bundles"])})
        break
  return {"violations": viol}
