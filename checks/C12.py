"""C12 - decided on the metadata-heavy engine-history corpus by the C12.* clauses of spec/Trace_Doc.tla."""
from checks import _shared, _core
import shared

LEVEL = "model_checking"


def run(ctx):
  return _core.merge(ctx, _shared.run_clauses(ctx, "C12.", lambda e: e['k'] == 'B' and e['n_summary'] > 0,
                             "after every successful call on documents with summary tables: keys of the summary rows = keys derived from the source rows (list-valued group-by cells contribute one key per distinct element, empty list counts as ''/0, non-list values none), no duplicate keys, each group = matching source rows ascending (Meta!SummaryViolations)", name="meta", plan=shared.PLAN_META), "C12.")


def replay(ctx, data):
  if "core_chunk" in data:
    return _core.replay(ctx, data, "C12.")
  return _shared.replay_clause(ctx, data, "C12.")
