"""C02 - decided on the shared engine-history corpus by the C02.* clauses of spec/Trace_Doc.tla."""
from checks import _shared

LEVEL = "model_checking"


def run(ctx):
  return _shared.run_clauses(ctx, "C02.", lambda e: e['k'] == 'B',
                             "every successful call (bundles, undo, redo, Calculate) from InitNewDoc on: the specification's own document, advanced only by DocActions!Apply of the stored actions, must equal the engine's observed tables, rows and cells (C02.replay) and every stored action must be applicable at its position (C02.applicable)",
                             corpora=_shared.BOTH,
                             design=("MC_DocActions", "MC_DocActions_quick.cfg" if ctx.quick else "MC_DocActions.cfg"))


def replay(ctx, data):
  return _shared.replay_clause(ctx, data, "C02.")
