"""
C04 - failed bundles leave no trace.  Fault enumeration on real histories (harness/faults.py,
histories.run_fault_history) judged by the C04.* / C08.schema clauses of spec/Trace_Doc.tla, plus the
natural failures of the shared corpus.
"""
import os

from checks import _shared
import shared

LEVEL = "fault_enumeration"

PLAN = {
  "fault:schema": (12, 160, 8, 12),
  "fault:general": (8, 120, 8, 12),
  "fault:records": (4, 40, 8, 12),
}


def run(ctx):
  os.environ["GRIST_VERIF_WRAP"] = "1"
  out = _shared.run_clauses(
    ctx, "C04.", lambda e: e["k"] == "F" or e["tag"] == "quiet",
    "for sampled bundles of real histories: a dry run with a poison action appended counts the doc-action "
    "boundaries, then the bundle is retried with InjectedFault before/after each doc action and inside each "
    "rebuild_usercode call (all positions when <= 10, else a seeded sample), each followed by Calculate; natural "
    "failures (validation, a later action failing) included; non-trivial = distinct (bundle shape, fault position)",
    assumptions=["faults are injected at doc-action boundaries and at rebuild_usercode, not between two "
                 "statements inside a data doc action", "harness/faults.py wrapper (GRIST_VERIF_WRAP=1)"],
    name="fault", plan=PLAN)
  out["level"] = LEVEL
  # C08 after rollback is part of the statement ("its internal schema still matches the metadata")
  res = shared.get(ctx, name="fault", plan=PLAN)
  out["violations"] += [v for v in shared.clause_violations(ctx, res, "C08.", shared.n_bundles_fn(ctx, PLAN))
                        if v["context"].get("k") == "F"]
  return out


def replay(ctx, data):
  os.environ["GRIST_VERIF_WRAP"] = "1"
  return _shared.replay_clause(ctx, data, "C0")
