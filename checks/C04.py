"""
C04 - failed bundles leave no trace.  Fault enumeration on real histories (harness/faults.py,
histories.run_fault_history) judged by the C04.* / C08.schema clauses of spec/Trace_Doc.tla, plus the
natural failures of the shared corpus.
"""
import os

from checks import _shared, _core
import shared

LEVEL = "fault_enumeration"

PLAN = {
  "fault:schema": (12, 160, 8, 12),
  "fault:general": (8, 120, 8, 12),
  "fault:records": (4, 40, 8, 12),
  "fault:twoway": (6, 60, 8, 12),      # failing bundles that create / rewire two-way references
}


def run(ctx):
  os.environ["GRIST_VERIF_WRAP"] = "1"
  out = _shared.run_clauses(
    ctx, "C04.", lambda e: e["k"] == "F" or e["tag"] == "quiet",
    "for sampled bundles of real histories: a dry run with a poison action appended counts the doc-action "
    "boundaries, then the bundle is retried with InjectedFault before/after each doc action and inside each "
    "rebuild_usercode call (all positions when <= 10, else a seeded sample), each followed by Calculate; natural "
    "failures (validation, a later action failing) included; non-trivial = distinct (bundle shape, fault position)",
    assumptions=["faults are injected at doc-action boundaries and at rebuild_usercode, not between two "
                 "statements inside a data doc action", "harness/faults.py wrapper (GRIST_VERIF_WRAP=1)"],
    name="fault", plan=PLAN)
  out["level"] = LEVEL
  bundle_model(ctx, out)
  _core.merge(ctx, out, "C04.")      # rejected actions of spec/Core.tla (C04.model)
  # C08 after rollback is part of the statement ("its internal schema still matches the metadata")
  res = shared.get(ctx, name="fault", plan=PLAN)
  out["violations"] += [v for v in shared.clause_violations(ctx, res, "C08.", shared.n_bundles_fn(ctx, PLAN))
                        if v["context"].get("k") == "F"]
  return out


def bundle_model(ctx, out):
  """
  S->C: Bundle.tla / BundleSem.tla (bundle processing with a fault at every doc-action boundary, undo and
  redo; invariants FailedLeavesNoTrace, QuietAfterFailure, ReplayFaithful, UndoRestores, RedoReproduces,
  DirectParallel, CalcNeverDirect, AlwaysRecalculated) checked by TLC from every small document; the
  (document, bundle) cases it enumerates are run on the real engine - unfaulted and with a fault at every
  real doc-action boundary and rebuild_usercode call - and judged by Trace_Bundle against the model.
  """
  import json, random   # pylint: disable=import-outside-toplevel,multiple-imports
  import corpus, tlc    # pylint: disable=import-outside-toplevel,multiple-imports
  cfg = "MC_Bundle_quick.cfg" if ctx.quick else "MC_Bundle_thorough.cfg"
  cases_file = os.path.join(ctx.workdir, "bundle-cases.json")
  res = tlc.run_model("MC_Bundle", cfg, ctx.workdir, workers=8, timeout=3000, env_extra={"OUT_FILE": cases_file},
                      coverage=False)
  if res["rc"] != 0 or res["violated"]:
    raise tlc.MachineryError("Bundle design model failed:\n" + res["out"][-3000:])
  spec = json.load(open(cases_file))
  cases = spec["cases"]
  n_all = len(cases)
  want = 400 if ctx.quick else 6000
  if len(cases) > want:
    cases = random.Random(ctx.seed).sample(cases, want)
  n = 16
  args = []
  for i in range(n):
    p = os.path.join(ctx.workdir, "bundle-in-%02d.json" % i)
    json.dump({"rows": spec["rows"], "cases": cases[i::n]}, open(p, "w"))
    args.append({"inp": p, "out": os.path.join(ctx.workdir, "bundle-res-%02d.json" % i)})
  corpus.run_workers("fn_bundle.py", args)
  files = [a["out"] for a in args]
  tlc.validate_shards("Trace_Bundle", files, ctx.workdir)
  runs = 0
  fired = 0
  for f in files:
    rs = json.load(open(f))["cases"]
    for b in json.load(open(f + ".verdict.json")):
      cs = rs[b["i"] - 1]
      for cl in b["c"]:
        out["violations"].append({"clause": cl, "what": "bundle model case d=%s uas=%s" % (cs["d"], cs["uas"]),
                                  "case": {"d": cs["d"], "uas": cs["uas"], "rows": spec["rows"]}})
    for cs in rs:
      runs += len(cs["runs"])
      fired += sum(1 for r in cs["runs"] if r["fired"])
  if fired == 0:
    raise tlc.MachineryError("vacuity: no injected fault fired in the bundle-model binding")
  # binding self-test: a faulted run that left a trace must be rejected
  st = json.load(open(files[0]))
  for cs in st["cases"]:
    hit = [r for r in cs["runs"] if r["fired"]]
    if hit:
      bad = json.loads(json.dumps(cs))
      r = [r for r in bad["runs"] if r["fired"]][0]
      r["doc"]["a"] = [5 for _ in r["doc"]["a"]]
      p = os.path.join(ctx.workdir, "bundle-selftest.json")
      json.dump({"rows": st["rows"], "cases": [bad]}, open(p, "w"))
      v, _ = tlc.validate_shards("Trace_Bundle", [p], ctx.workdir, parallel=1)
      if not v:
        raise tlc.MachineryError("self-test: corrupted faulted run accepted by Trace_Bundle")
      break
  out["states"] += res["distinct"] + len(cases)
  out["transitions"] = out.get("transitions", 0) + res["generated"] + len(cases)
  out["evaluations"] += runs
  out["traces_validated_against_impl"] += len(cases)
  out["extra"]["bundle_model"] = {"cfg": cfg, "distinct_states": res["distinct"], "cases_enumerated": n_all,
                                  "cases_run": len(cases), "engine_runs": runs, "faults_fired": fired}
  ctx.log("Bundle model: %d states, %d of %d cases run (%d engine runs, %d faults fired)" % (
    res["distinct"], len(cases), n_all, runs, fired))


def replay(ctx, data):
  if "core_chunk" in data:
    return _core.replay(ctx, data, "C04.")
  if "case" in data:
    import json   # pylint: disable=import-outside-toplevel
    import corpus, tlc    # pylint: disable=import-outside-toplevel,multiple-imports
    os.environ["GRIST_VERIF_WRAP"] = "1"
    p = os.path.join(ctx.workdir, "in.json")
    json.dump({"rows": data["case"]["rows"], "cases": [{"d": data["case"]["d"], "uas": data["case"]["uas"]}]},
              open(p, "w"))
    o = os.path.join(ctx.workdir, "res.json")
    corpus.run_workers("fn_bundle.py", [{"inp": p, "out": o}])
    v, _ = tlc.validate_shards("Trace_Bundle", [o], ctx.workdir, parallel=1)
    return {"violations": [{"clause": c, "what": str(data["case"]), "case": data["case"]} for b in v for c in b["c"]]}
  os.environ["GRIST_VERIF_WRAP"] = "1"
  return _shared.replay_clause(ctx, data, "C0")
