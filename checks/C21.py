"""
C21 - generated identifiers are valid and unique (Ident.tla).

  S->C  MC_Ident enumerates requests x avoid sets (and shows the relation satisfiable: SpecSane);
        harness/fn_ident.py runs the real identifiers.pick_* on exactly those inputs; Trace_Ident judges.
  C->S  Hypothesis text() requests with derived/random avoid sets (seeded by ctx.seed), same judge.

Two blocks of the specification are GENERATED (TLC configuration files cannot hold tuples, and code
points are unreadable when typed by hand):
  spec/Ident.tla     Keywords            from keyword.kwlist of /venv/bin/python
  spec/MC_Ident.tla  Alphabet, Decomp, Extra, ListExtra   from the tables below (+ unicodedata of /venv)
`python3 checks/C21.py --regen` rewrites them; every run re-derives them and refuses to go on if the
committed text differs (so the keyword constant is asserted equal to keyword.kwlist on every run).
"""
import json
import os
import re
import sys

if __name__ == "__main__":
  sys.path.insert(0, os.path.join(os.path.dirname(os.path.dirname(os.path.abspath(__file__))), "harness"))

import corpus    # noqa: E402
import fnspec    # noqa: E402
import tlc       # noqa: E402

LEVEL = "model_checking"
WORKER = "fn_ident.py"
MATCHERS = {}

# --- bounded model tables (readable source of the generated block of MC_Ident.tla) -----------------
ALPHABET = [
  u"I", u"i", u"f",      # upper-case letter, its lower-case form, a second letter ("if" is a keyword)
  u"2",                  # digit (the first numeric suffix the engine tries)
  u"_", u" ", u"-",      # underscore, space, ASCII punctuation
  u"\u0301",             # combining acute accent
  u"\u00e9",             # pre-composed e-acute
  u"\uff12",             # full-width digit two
  u"\u4e2d",             # CJK letter
  u"\U0001F600",         # emoji (non-BMP)
]
EXTRA = [
  u"if", u"None", u"class", u"none", u"true", u"IF", u"def", u"cif", u"Tif", u"TNone", u"cNone",
  u"\uff49\uff46",       # full-width "if"
  u"\u2170f",            # small roman numeral one + f  (NFKD: "if")
  u"Table", u"Table1", u"Table2", u"table1", u"TABLE", u"A", u"B", u"AA", u"a", u"id", u"ID",
  u"c", u"T", u"c2", u"T2", u"C2_2", u"i2_2", u"I2_", u"x1", u"x1_2", u"X__",
  u"\u00bd",             # vulgar fraction one half (NFKD: 1, fraction slash, 2)
  u"\ufb01",             # fi ligature
  u"\u212a\u0131",       # Kelvin sign, dotless i
  u"a\nb", u"\u0000", u"a.b", u"gristHelper_Display", u"manualSort", u"__class__",
]
LIST_EXTRA = [u"if", u"I2", u"i2", u"I2_2", u"A", u"B", u"id", u"Id"]


# --- generated blocks --------------------------------------------------------------------------------
def _tup(s):
  return "<<%s>>" % ", ".join(str(ord(ch)) for ch in s)


def _set_lines(strings, indent="  "):
  items = sorted(set(strings), key=lambda s: [ord(ch) for ch in s])
  width = max([len(_tup(s)) for s in items] + [1]) + 1
  lines = []
  for k, s in enumerate(items):
    t = _tup(s) + ("," if k + 1 < len(items) else "")
    lines.append("%s%s \\* %s" % (indent, t.ljust(width), ascii(s)[1:-1]))
  return lines


def get_consts(workdir):
  chars = sorted({ord(ch) for s in ALPHABET + EXTRA + LIST_EXTRA for ch in s if ord(ch) >= 128})
  out = os.path.join(workdir, "ident-consts.json")
  corpus.run_workers(WORKER, [{"mode": "consts", "chars": chars, "out": out}])
  return json.load(open(out))


def keyword_block(consts):
  lines = ['PyVersion == "%s"' % consts["version"], "Keywords == {"]
  lines += _set_lines(consts["kwlist"])
  lines.append("}")
  return "\n".join(lines) + "\n"


def _idchar(c):
  return c < 128 and (chr(c).isalnum() or c == 95)


def model_block(consts):
  lines = ["Alphabet == {"] + _set_lines(ALPHABET)
  # a set of code points, not of sequences
  lines = [re.sub(r"<<(\d+)>>", r"\1", ln) for ln in lines] + ["}"]
  lines.append("\\* NFKD image with combining marks removed; 0 = not an identifier character")
  ents = []
  for c in sorted(int(k) for k in consts["decomp"]):
    img = [x if _idchar(x) else 0 for x in consts["decomp"][str(c)]]
    ents.append("(%d :> <<%s>>)" % (c, ", ".join(map(str, img))))
  lines.append("Decomp ==")
  for k, e in enumerate(ents):
    lines.append("  %s%s" % (e, " @@" if k + 1 < len(ents) else ""))
  lines += ["Extra == {"] + _set_lines(EXTRA) + ["}"]
  lines += ["ListExtra == {"] + _set_lines(LIST_EXTRA) + ["}"]
  return "\n".join(lines) + "\n"


BLOCKS = (("Ident.tla", "GENERATED KEYWORDS", keyword_block),
          ("MC_Ident.tla", "GENERATED MODEL CONSTANTS", model_block))


def _split(text, name):
  m = re.search(r"(\\\* BEGIN %s[^\n]*\n)(.*?)(\\\* END %s)" % (name, name), text, re.S)
  if not m:
    raise tlc.MachineryError("marker %s not found" % name)
  return m


def check_blocks(consts, regen=False):
  stale = []
  for fname, name, gen in BLOCKS:
    path = os.path.join(tlc.SPEC, fname)
    text = open(path).read()
    m = _split(text, name)
    want = gen(consts)
    if m.group(2) != want:
      stale.append(fname)
      if regen:
        open(path, "w").write(text[:m.start(2)] + want + text[m.end(2):])
  return stale


# --- the check ----------------------------------------------------------------------------------------
def _txt(cp):
  return "".join(chr(c) for c in cp)


def _show(case):
  inp = case["inp"]
  reqs = [None if r["none"] else _txt(r["s"]) for r in inp["reqs"]]
  arg = reqs if inp["fn"] == "list" else (reqs[0] if reqs else None)
  out = [_txt(o) for o in case["out"]]
  name = {"table": "pick_table_ident", "col": "pick_col_ident", "list": "pick_col_ident_list"}[inp["fn"]]
  return "%s(%s, avoid=%s) -> %s" % (name, ascii(arg), ascii(sorted(_txt(a) for a in inp["avoid"])),
                                     case["exc"] or ascii(out if inp["fn"] == "list" else (out[0] if out else None)))


def _violations(failures):
  return [{"clause": c, "what": _show(f["case"]), "case": f["case"]} for f in failures for c in f["c"]]


def _selftests(ctx, case_file):
  """The binding: corrupted recorded cases must be rejected by Trace_Ident, each for the right clause."""
  def cs(s):
    return [ord(ch) for ch in s]

  def mk(fn, reqs, avoid, out):
    def mutate(case):
      case["inp"] = {"fn": fn, "reqs": [{"none": False, "s": cs(r)} for r in reqs],
                     "avoid": [cs(a) for a in avoid]}
      case["out"] = [cs(o) for o in out]
      case["exc"] = ""
      return case
    return mutate
  muts = [
    ("C21.keyword", mk("col", ["if"], [], ["if"])),
    ("C21.avoid", mk("table", ["foo"], ["FOO"], ["Foo"])),
    ("C21.batch", mk("list", ["a", "A"], [], ["a", "A"])),
    ("C21.keep", mk("col", ["foo"], ["bar"], ["foo2"])),
    ("C21.syntax", mk("col", ["_x"], [], ["_x"])),
    ("C21.table_upper", mk("table", ["foo"], [], ["foo"])),
  ]
  cases = json.load(open(case_file))
  if not cases:
    raise tlc.MachineryError("self-test: no recorded case")
  path = os.path.join(ctx.workdir, "selftest-ident.json")
  json.dump([m(json.loads(json.dumps(cases[0]))) for _, m in muts] + [cases[0]], open(path, "w"))
  results, _ = tlc.validate_shards("Trace_Ident", [path], ctx.workdir, parallel=1)
  got = {r["i"]: set(r["c"]) for r in results}
  for k, (clause, _) in enumerate(muts):
    if got.get(k + 1) != {clause}:
      raise tlc.MachineryError("self-test: corrupted case %d expected to fail exactly %s, Trace_Ident said %s"
                               % (k + 1, clause, sorted(got.get(k + 1, []))))
  # and through the shared helper (one corrupted case must be rejected)
  if not fnspec.mutation_selftest("Trace_Ident", case_file, muts[0][1], ctx.workdir):
    raise tlc.MachineryError("self-test: corrupted case was accepted by Trace_Ident")
  return len(muts)


def _unpack(groups):
  """MC_Ident writes its input space grouped by request; one input per avoid set of a group."""
  out = []
  for g in list(groups["singles"]) + [g for per_arity in groups["lists"] for g in per_arity]:
    if len(g["avoids"]) != len(g["refs"]):
      raise tlc.MachineryError("malformed group in the enumerated input space: %r" % (g,))
    for avoid, ref in zip(g["avoids"], g["refs"]):
      out.append({"fn": g["fn"], "reqs": g["reqs"], "avoid": avoid, "ref": ref})
  return out


def run(ctx):
  consts = get_consts(ctx.workdir)
  stale = check_blocks(consts)
  if stale:
    raise tlc.MachineryError("generated blocks of %s differ from keyword.kwlist of %s (Python %s) / the tables "
                             "of checks/C21.py: run `python3 checks/C21.py --regen` and review"
                             % (stale, corpus.PY, consts["version"]))
  cfg = "MC_Ident_%s.cfg" % ctx.tier
  # one TLC worker: initial states are generated by the main thread anyway, and TLC evaluates every
  # constant definition once per worker
  groups, model = fnspec.enumerate_inputs("MC_Ident", cfg, ctx.workdir, timeout=3600, workers=1)
  inputs = _unpack(groups)
  ctx.log("TLC enumerated %d inputs (%d distinct states) in %.1fs" % (len(inputs), model["distinct"], model["wall"]))
  if len(inputs) != model["distinct"]:
    raise tlc.MachineryError("input file has %d inputs, TLC found %d states" % (len(inputs), model["distinct"]))
  nsh = 8 if ctx.quick else 16     # 2 x nsh judge JVMs
  files = fnspec.run_cases(WORKER, inputs, ctx.workdir, nshards=nsh)
  n_hyp = 150 if ctx.quick else 4000
  hyp_seeds = [ctx.seed * 1000 + k for k in range(16)]   # every run: 16 seeds x n_hyp examples
  hyp_files = fnspec.run_cases(WORKER, hyp_seeds, ctx.workdir, nshards=nsh, tag="hyp",
                               extra={"mode": "hyp", "n": n_hyp})
  failures, n, wall = fnspec.judge("Trace_Ident", files + hyp_files, ctx.workdir)
  ctx.log("Trace_Ident judged %d cases in %.1fs" % (n, wall))
  n_mut = _selftests(ctx, files[0])

  # coverage facts (no judgement here)
  by_fn, by_src = {}, {}
  nontrivial = forced = raised = maxlen = 0
  samples = []
  for f in files + hyp_files:
    for c in json.load(open(f)):
      by_fn[c["inp"]["fn"]] = by_fn.get(c["inp"]["fn"], 0) + 1
      by_src[c["src"]] = by_src.get(c["src"], 0) + 1
      changed = c["out"] != [r["s"] for r in c["inp"]["reqs"]]
      nontrivial += 1 if (changed or c["forced"]) else 0
      forced += 1 if c["forced"] else 0
      raised += 1 if c["exc"] else 0
      maxlen = max([maxlen] + [len(r["s"]) for r in c["inp"]["reqs"]])
      if c["forced"] and changed and len(samples) < 4 and len(c["inp"]["avoid"]) > 1:
        samples.append(_show(c))
  ref_total = ref_agree = 0
  ref_diffs = []
  for f in files:
    st = json.load(open(f + ".stats.json"))
    ref_total += st["ref_total"]
    ref_agree += st["ref_agree"]
    ref_diffs += st["ref_diffs"]
  if ref_diffs:
    ctx.log("reference solution differs from the code on %d inputs, e.g. %s"
            % (ref_total - ref_agree, json.dumps(ref_diffs[0])))
  return {
    "states": model["distinct"] + n, "transitions": model["generated"] + n,
    "traces_validated_against_impl": n,
    "evaluations": n, "distinct_nontrivial": nontrivial,
    "rule": "TLC enumerates every request within the bound of %s (None, all sequences over 12 representative "
            "characters, selected names) x avoid sets derived from the reference solution's next choices; "
            "Hypothesis adds text() requests; non-trivial = the chosen id differs from the request or the "
            "avoid set forced another id than an empty one would give" % cfg,
    "samples": samples,
    "exhaustive": True,
    "assumptions": [
      "TLC",
      "names are compared as sequences of code points; case-insensitive = ASCII upper-casing (chosen ids are "
      "ASCII by C21.syntax; existing names given to the functions are ASCII in every generated case)",
      "keyword = keyword.kwlist of %s (Python %s), case-sensitive, soft keywords not included; the constant in "
      "Ident.tla is re-derived and compared on every run" % (corpus.PY, consts["version"]),
      "harness/fn_ident.py converts text <-> code points and calls identifiers.pick_* with avoid as a set",
    ],
    "violations": _violations(failures),
    "extra": {
      "cases_by_function": by_fn, "cases_by_source": by_src, "avoid_forced_other_id": forced,
      "raised": raised, "longest_request": maxlen, "selftest_mutations_rejected": n_mut,
      "reference_solution_agreement": "%d/%d enumerated inputs: real output = Ref(input)" % (ref_agree, ref_total),
      "hypothesis_examples_per_shard": n_hyp, "keywords": len(consts["kwlist"]),
    },
  }


def replay(ctx, data):
  inp = data["case"]["inp"]
  files = fnspec.run_cases(WORKER, [inp], ctx.workdir)
  failures, _, _ = fnspec.judge("Trace_Ident", files, ctx.workdir)
  return {"violations": _violations(failures)}


if __name__ == "__main__":
  if sys.argv[1:] == ["--regen"]:
    wd = tlc.scratch_dir("verif-C21-regen-")
    try:
      print("rewritten:", check_blocks(get_consts(wd), regen=True))
    finally:
      import shutil
      shutil.rmtree(wd, ignore_errors=True)
  else:
    print(__doc__)
