#!/bin/sh
# Offline set-up: nothing is built; check that the tools the checks need are present and that every
# specification module parses (SANY, 8 at a time).
set -e
cd "$(dirname "$0")"
command -v java >/dev/null
test -f /opt/veriftools/tla/tla2tools.jar
test -x /venv/bin/python
/venv/bin/python -c "import sys; sys.path[:0]=['/repo/sandbox/grist','/verif/shim']; import engine"
cd spec
ls *.tla | xargs -P 8 -I{} sh -c 'out=$(java -XX:+UseSerialGC -cp /opt/veriftools/tla/tla2tools.jar:/opt/veriftools/tla/CommunityModules-deps.jar tla2sany.SANY {} 2>&1); if echo "$out" | grep -q "\*\*\* Errors\|Fatal errors\|Could not parse"; then echo "SANY failed: {}"; echo "$out" | tail -5; exit 255; fi'
