"""
Worker for C19: sets formula texts on a real engine document and records what the document holds.
argv[1] = JSON {"inp": items file, "out": cases file, "doc": document description file}.

The document description comes from the design model MC_FormulaText (rows, the new row, the known-good
columns as trees, the repair formula as a tree).  An item is one of
  {"tree", "spell", "xkind", "xpos", "xnl", "how"}      (TLC-enumerated: a spelling of a tree for F,
                                                        a fragment of the broken-text grammar for X)
  {"tree", "spell", "xtext", "how"}                     (X's text given literally, escaped)
  {"hyp": seed, "n": count, "trees": [[tree, spell]...]}(X's text from Hypothesis, generated here)
  {"rand": seed, "n": count}                            (deeper random trees for F, generated here)
  a recorded case's "inp" (has "ftext" and "xtext")     (replay)

Nothing here judges the property.  Every case runs on a freshly built document (a new engine), so cases
cannot influence each other; a text that hangs the engine is recorded as "Timeout".
"""
import json
import os
import random
import signal
import sys
import warnings

warnings.simplefilter("ignore")

import adapter   # noqa: E402

BOUND = 1000      # = Predicate!Bound
MAXSEQ = 64       # = Predicate!MaxSeq
CASE_TIMEOUT = 900
COLS = ["F", "G", "H", "K", "X", "R"]


def esc(s):
  return s.encode("unicode_escape").decode("ascii")


def unesc(s):
  return s.encode("ascii").decode("unicode_escape")


# ---------------------------------------------------------------------------------------------------
# values -> tagged values (Predicate's value domain)
def enc_py(v):
  if v is None:
    return ["none", 0]
  if isinstance(v, bool):
    return ["bool", v]
  if isinstance(v, int):
    return ["int", v] if abs(v) <= BOUND else ["bigint", 0]
  if isinstance(v, float):
    if v == v and abs(v) <= BOUND and v == int(v):
      return ["float", int(v)]
    return ["nonint", 0]
  if isinstance(v, str):
    return ["str", [ord(c) for c in v]] if len(v) <= MAXSEQ else ["bigstr", 0]
  return ["other", 0]


def enc_cell(v):
  """v: a cell as the engine reports it (actions.encode_objects): errors are ['E', class, ...]."""
  if isinstance(v, (list, tuple)):
    return ["err", 0] if (len(v) > 0 and v[0] == "E") else ["other", 0]
  return enc_py(v)


def dec_const(t):
  tag, p = t
  if tag == "str":
    return "".join(chr(c) for c in p)
  if tag == "none":
    return None
  return p


# ---------------------------------------------------------------------------------------------------
# rendering a formula tree as text
PREC = {"Cond": 0, "Or": 1, "And": 2, "Not": 3,
        "Eq": 4, "NotEq": 4, "Lt": 4, "LtE": 4, "Gt": 4, "GtE": 4, "In": 4, "NotIn": 4,
        "Add": 5, "Sub": 5, "Mult": 6, "Div": 6, "Mod": 6}
SYM = {"Or": "or", "And": "and", "Eq": "==", "NotEq": "!=", "Lt": "<", "LtE": "<=", "Gt": ">", "GtE": ">=",
       "In": "in", "NotIn": "not in", "Add": "+", "Sub": "-", "Mult": "*", "Div": "/", "Mod": "%"}


def prec(n):
  return PREC.get(n[0], 9)


class Style(object):
  def __init__(self, dollar=True, full=False, strs="repr", fmt="call"):
    self.dollar, self.full, self.strs, self.fmt = dollar, full, strs, fmt


def str_literal(s, how):
  plain = repr(s)
  if how == "dq":
    return json.dumps(s)
  if how == "fstr":
    return "f" + plain.replace("{", "{{").replace("}", "}}")
  if how == "strcont":
    # an ordinary quoted literal whose SOURCE spans two lines (backslash-newline right after the opening
    # quote): the value is unchanged, and has no newline unless s has one
    return plain[0] + "\\\n" + plain[1:]
  if how in ("triple", "ftriple"):
    # the raw text between triple quotes (real newlines); only for texts that survive unescaped
    if "\\" in s or '"""' in s or s.endswith('"') or "\r" in s:
      return plain
    if how == "ftriple":
      return 'f"""' + s.replace("{", "{{").replace("}", "}}") + '"""'
    return '"""' + s + '"""'
  return plain


def render(n, st):
  def wrap(c, need):
    s = r(c)
    return "(" + s + ")" if (need or (st.full and prec(c) < 9)) else s

  def r(n):
    head = n[0]
    if head == "Const":
      v = dec_const(n[1])
      return str_literal(v, st.strs) if isinstance(v, str) else repr(v)
    if head == "Name":
      return n[1]
    if head == "Attr":
      if n[1] == ["Name", "rec"]:
        return ("$" if st.dollar else "rec.") + n[2]
      return wrap(n[1], prec(n[1]) < 9) + "." + n[2]
    if head == "Fmt":
      if st.fmt == "fstr":
        return 'f"{(' + r(n[1]) + ')}"'
      return "str(" + r(n[1]) + ")"
    if head == "Cond":
      return "%s if %s else %s" % (wrap(n[2], prec(n[2]) <= 0), wrap(n[1], prec(n[1]) <= 0), wrap(n[3], prec(n[3]) < 0))
    if head in ("And", "Or"):
      return (" " + SYM[head] + " ").join(wrap(c, prec(c) <= PREC[head]) for c in n[1:])
    if head == "Not":
      return "not " + wrap(n[1], prec(n[1]) < 3)
    if head in PREC:
      p = PREC[head]
      left = wrap(n[1], prec(n[1]) <= 4 if p == 4 else prec(n[1]) < p)
      right = wrap(n[2], prec(n[2]) <= p)
      return left + " " + SYM[head] + " " + right
    raise ValueError("cannot render %r" % (n,))

  return r(n)


def split(tree):
  """(statements before the last expression statement as (name, expr) pairs, the last expression)"""
  if tree[0] == "Let":
    return [(tree[1], tree[2])], tree[3]
  return [], tree


BLOCKS = ("ifret", "ifearly", "ifassign", "ifone", "iftab")
C1 = "# $b rec.a \"unclosed ' ( ["
C2 = "  # $a + rec.b \"\"\" '''"
C3 = "# return $b"


def spell(tree, sp):
  """The text of F for one spelling of the tree."""
  lets, last = split(tree)
  st = Style()
  if sp == "rec":
    st = Style(dollar=False, full=True, strs="dq")
  elif sp == "fstr":
    st = Style(strs="fstr", fmt="fstr")
  elif sp in ("triple", "ftriple", "strcont"):
    st = Style(strs=sp)
  assigns = ["%s = %s" % (nm, render(e, st)) for nm, e in lets]
  fin = render(last, st)
  if sp in ("dollar", "rec", "fstr", "triple", "ftriple", "strcont"):
    return "\n".join(assigns + [fin])
  if sp == "return":
    return "\n".join(assigns + ["return " + fin])
  if sp in ("comment", "crlf", "cr"):
    lines = [C1] + [a + "  # y = $a" for a in assigns] + [fin + C2, C3]
    return {"comment": "\n", "crlf": "\r\n", "cr": "\r"}[sp].join(lines)
  if sp == "indent":
    return "\n" + "".join("    " + ln + "\n" for ln in assigns + [fin]) + "\n  \n"
  if sp == "semicolon":
    return "; ".join(assigns + [fin])
  if sp == "multiline":
    assigns = ["%s = \\\n      %s" % (nm, render(e, st)) for nm, e in lets]
    if last[0] in PREC and last[0] not in ("Cond", "Not") and len(last) == 3:
      p = PREC[last[0]]
      left = render(last[1], st)
      right = render(last[2], st)
      if prec(last[1]) <= (4 if p == 4 else p - 1):
        left = "(" + left + ")"
      if prec(last[2]) <= p:
        right = "(" + right + ")"
      fin = "(\n  %s\n    %s\n  %s\n)" % (left, SYM[last[0]], right)
    else:
      fin = "(\n  " + fin + "\n)"
    return "\n".join(assigns + [fin])
  if sp in BLOCKS:
    if last[0] != "Cond":
      raise ValueError("spelling %s needs a conditional at the end" % sp)
    c, t, e = (render(x, st) for x in last[1:])
    ind = "\t" if sp == "iftab" else "  "
    if sp in ("ifret", "iftab"):
      body = ["if %s:" % c, ind + "return " + t, "else:", ind + "return " + e]
    elif sp == "ifearly":
      body = ["if %s:" % c, ind + "return " + t, e]
    elif sp == "ifassign":
      body = ["if %s:" % c, ind + "r = " + t, "else:", ind + "r = " + e, "r"]
    else:
      body = ["if %s: return %s" % (c, t), "return " + e]
    return "\n".join(assigns + body)
  raise ValueError("unknown spelling %r" % sp)


def python_text(tree):
  """What the tree means as plain Python: rec. spelling, every operand parenthesised, explicit return."""
  lets, last = split(tree)
  st = Style(dollar=False, full=True, strs="repr")
  return "\n".join(["%s = %s" % (nm, render(e, st)) for nm, e in lets] + ["return " + render(last, st)])


class Obj(object):
  def __init__(self, **kw):
    self.__dict__.update(kw)


def python_results(pytext, rows):
  """Python's own evaluation of the function body `pytext` for rec = each row (no engine involved)."""
  src = "def f(rec):\n" + "".join("  " + ln + "\n" for ln in pytext.split("\n"))
  scope = {}
  try:
    exec(compile(src, "<pytext>", "exec"), scope)   # pylint: disable=exec-used
  except Exception:   # pylint: disable=broad-except
    return [["nopy", 0] for _ in rows]
  out = []
  for a, b in rows:
    try:
      out.append(enc_py(scope["f"](Obj(a=a, b=b))))
    except Exception:   # pylint: disable=broad-except
      out.append(["err", 0])
  return out


# ---------------------------------------------------------------------------------------------------
# the grammar of broken fragments: kind -> text ("\n" line breaks; the line-break convention is applied last)
FRAGS = {
  "open_paren": "($a + 1", "close_paren": "$a + 1)", "open_bracket": "[$a, 1", "open_brace": "{$a: 1",
  "close_bracket": "]", "mismatch": "($a]",
  "dollar_assign": "$a = 1", "rec_assign": "rec = 5", "recattr_assign": "rec.a = 1", "dollar_augassign": "$a += 1",
  "for_rec": "for rec in []: pass", "walrus_rec": "(rec := 5)", "dollar_kwarg": "foo($a=1)",
  "def_dollar": "def $a(): return 3",
  "no_return": "y = $a + 1", "if_noreturn": "if $a:\n  1\nelse:\n  2", "assert_only": "assert $a",
  "raise_only": "raise SystemExit(1)",
  "bare_return": "return", "return_twice": "return 1\nreturn 2", "class_return": "class C:\n  return 1\nC",
  "break_outside": "break", "continue_outside": "continue", "yield_stmt": "yield 1", "yield_from": "yield from [1]",
  "await_expr": "await $a", "async_def": "async def f(): pass", "nonlocal_q": "nonlocal q\n1",
  "global_rec": "global rec\n1", "import_star": "from os import *\n1",
  "future_import": "from __future__ import annotations\n1", "dup_arg": "def f(a, a): pass\n1",
  "bad_indent": "$a\n    + 1", "dedent_mismatch": "if $a:\n    1\n  2", "tab_space": "if $a:\n\t1\n        2",
  "indent_first_only": "  $a\n$b", "empty_block": "if $a:",
  "lone_dollar": "$", "dollar_digit": "$1", "dollar_space": "$ a", "dollar_dollar": "$$a", "dollar_paren": "$(a)",
  "dollar_keyword": "$if", "dollar_none": "$None", "dollar_nonascii": "$\u00e9", "dollar_end": "$a + $",
  "dollar_name": "DOLLARa", "dollar_unknown": "$nosuchcolumn",
  "unterm_str": "\"abc $a", "unterm_sq": "'", "unterm_triple": "\"\"\"abc $a", "unterm_triple_sq": "'''",
  "triple_close_reopen": "\"\"\"a\"\"\" \"\"\"",
  "triple_swallow": "\"\"\"\n  def K(rec, table):\n    return 99\n",
  "triple_valid_code": "\"\"\"\n  def K(rec, table):\n    return 99\n  \"\"\"",
  "unterm_fstring": "f\"{", "fstring_dollar_unclosed": "f\"{$a\"", "backslash_eof": "1 + \\", "lone_backslash": "\\",
  "raw_backslash": "r\"\\\"", "bad_escape_name": "\"\\N{foo}\"", "bytes_nonascii": "b\"\u00e9\"",
  "only_comment": "# just a comment $a", "only_ws": "   ", "only_newlines": "\n\n", "only_tab": "\t",
  "ws_comment": "  # x", "semicolon_only": ";", "empty": "",
  "pass_stmt": "pass", "import_os": "import os", "def_f": "def f(): pass", "lambda_expr": "lambda: 1",
  "ellipsis": "...", "del_rec": "del rec\n1",
  "nonascii_ident": "\u00e9 = 1\n\u00e9", "nonascii_name": "\u00e9", "fullwidth": "\uff41", "nbsp": "1\u00a0+ 2",
  "zero_width": "$a\u200b", "bom": "\ufeff1", "line_sep": "1\u2028 2", "surrogate": "'\ud800'",
  "emoji": "\U0001F600", "coding_cookie": "# coding: latin-1\n'\u00e9'",
  "nul": "$a\x00", "nul_in_str": "\"a\x00b\"", "formfeed": "\x0c$a", "formfeed_mid": "y = 1\x0cy", "vtab": "\x0b",
  "x1c": "(\x1c", "x85": "(\x85", "bell": "\x07", "del_char": "\x7f",
  "long_line": "1 + " * 3000 + "1", "long_line_ok": "1 + " * 200 + "1", "long_name": "a" * 100000,
  "long_string": "\"" + "x" * 200000 + "\"", "many_lines": "1\n" * 5000, "deep_parens": "(" * 150 + "1" + ")" * 150,
  "deep_brackets": "[" * 3000 + "]" * 3000, "many_dollars": "$a + " * 500 + "$a",
}
CODESHAPE = "\n    return 7\n  def K(rec, table):\n    return 99\n  def Zq(rec, table):"
NEWLINES = {"lf": "\n", "crlf": "\r\n", "cr": "\r"}


def indent_lines(text, ind):
  return "\n".join(ind + ln for ln in text.split("\n"))


def fragment_text(kind, pos, nl):
  frag = FRAGS[kind]
  if pos == "alone":
    text = frag
  elif pos == "before":
    text = frag + "\n$a + 1"
  elif pos == "after":
    text = "y = $a + 1\n" + frag
  elif pos == "inline_after":
    text = "$a + 1 " + frag
  elif pos == "inline_before":
    text = frag + " + $a"
  elif pos == "block":
    text = "if $a >= 0:\n" + indent_lines(frag, "  ") + "\nreturn 0"
  elif pos == "indented":
    text = indent_lines(frag, "    ")
  elif pos == "codeshape":
    text = frag + CODESHAPE
  else:
    raise ValueError("unknown position %r" % pos)
  return text.replace("\n", NEWLINES[nl])


# ---------------------------------------------------------------------------------------------------
# the document
def cells(eng):
  """What T holds, per column; a column (or the table) that cannot be read any more reads as no cells."""
  try:
    _rows, cols = adapter.fetch_all(eng)["T"]
  except Exception:   # pylint: disable=broad-except
    cols = {}
  return {c: [enc_cell(v) for v in cols.get(c, [])] for c in COLS}


def whole(eng):
  try:
    return json.dumps(adapter.fetch_all(eng), sort_keys=True, default=repr)
  except Exception as e:   # pylint: disable=broad-except
    return "unreadable: %s %d" % (type(e).__name__, id(e))     # never equal to another reading


def errors_elsewhere(eng):
  n = 0
  try:
    tables = adapter.fetch_all(eng)
  except Exception:   # pylint: disable=broad-except
    return 1
  for tid, (_rows, cols) in tables.items():
    if tid != "T":
      n += sum(1 for vals in cols.values() for v in vals if isinstance(v, (list, tuple)) and v and v[0] == "E")
  return n


def error_classes(eng, col):
  try:
    _rows, cols = adapter.fetch_all(eng)["T"]
  except Exception:   # pylint: disable=broad-except
    return []
  return sorted({str(v[1]) for v in cols.get(col, []) if isinstance(v, (list, tuple)) and len(v) > 1 and v[0] == "E"})


def build_base(doc):
  """The document before any case: T(a, b | F, G, H, X, K, R) with doc.rows."""
  eng = adapter.new_engine()
  known = {k["col"]: spell(k["tree"], "dollar") for k in doc["known"]}
  def fcol(cid, formula):
    return {"id": cid, "type": "Any", "isFormula": True, "formula": formula}
  adapter.apply(eng, [["AddTable", "T", [
    {"id": "a", "type": "Int", "isFormula": False}, {"id": "b", "type": "Int", "isFormula": False},
    fcol("F", "0"), fcol("G", known["G"]), fcol("H", known["H"]), fcol("X", spell(doc["xinit"], "dollar")),
    fcol("K", known["K"]), fcol("R", "$X")]]])
  rows = doc["rows"]
  adapter.apply(eng, [["BulkAddRecord", "T", [None] * len(rows),
                       {"a": [r[0] for r in rows], "b": [r[1] for r in rows]}]])
  return eng


def set_formula(eng, col, text, how):
  if how == "meta":
    _rows, cols = adapter.fetch_all(eng)["_grist_Tables_column"]
    ref = [r for r, c in zip(_rows, cols["colId"]) if c == col][-1]
    return adapter.apply(eng, [["UpdateRecord", "_grist_Tables_column", ref, {"formula": text}]])
  return adapter.apply(eng, [["ModifyColumn", "T", col, {"formula": text}]])


def attempt(fn):
  try:
    fn()
    return True, ""
  except BaseException as e:   # pylint: disable=broad-except
    return False, type(e).__name__


def do_case(eng, inp, doc):
  ftext, xtext = unesc(inp["ftext"]), inp["_xtext"]
  out = {}
  out["f_ok"], out["f_exc"] = attempt(lambda: set_formula(eng, "F", ftext, inp["how"]))
  out["s1"] = cells(eng)
  before = whole(eng)
  out["x_ok"], out["x_exc"] = attempt(lambda: set_formula(eng, "X", xtext, inp["how"]))
  out["same"] = whole(eng) == before
  out["s2"] = cells(eng)
  consistent = adapter.schema_consistent(eng)
  out["xclass"] = error_classes(eng, "X")
  elsewhere = errors_elsewhere(eng)
  a, b = inp["newrow"]
  out["add_ok"], out["add_exc"] = attempt(lambda: adapter.apply(eng, [["AddRecord", "T", None, {"a": a, "b": b}]]))
  out["s3"] = cells(eng)
  consistent = adapter.schema_consistent(eng) and consistent
  elsewhere += errors_elsewhere(eng)
  fix = spell(doc["fix"], "dollar")
  out["fix_ok"], out["fix_exc"] = attempt(lambda: set_formula(eng, "X", fix, "modify"))
  out["s4"] = cells(eng)
  out["elsewhere"] = elsewhere + errors_elsewhere(eng)
  out["consistent"] = adapter.schema_consistent(eng) and consistent
  return out


def died(why):
  empty = {c: [] for c in COLS}
  return {"f_ok": False, "f_exc": why, "s1": empty, "x_ok": False, "x_exc": why, "same": False, "s2": empty,
          "xclass": [], "add_ok": False, "add_exc": why, "s3": empty, "fix_ok": False, "fix_exc": why, "s4": empty,
          "elsewhere": 0, "consistent": False}


class CaseTimeout(BaseException):
  """Raised by the alarm; not an Exception, so that the engine's own handlers do not swallow it."""


def _on_alarm(_signum, _frame):
  raise CaseTimeout()


def run_case(inp, doc):
  """
  Run one case on a freshly built document.  (A forked copy of a prepared process would isolate cases even
  better, but costs ~10x more than rebuilding the document when the machine is busy.)
  """
  signal.signal(signal.SIGALRM, _on_alarm)
  signal.alarm(CASE_TIMEOUT)
  try:
    return do_case(build_base(doc), inp, doc)
  except CaseTimeout:
    return died("Timeout")
  finally:
    signal.alarm(0)


# ---------------------------------------------------------------------------------------------------
# items -> case inputs
LONG = 2000


def make_inp(doc, tree, sp, xkind, xpos, xnl, xtext, how, src="enum"):
  ftext = spell(tree, sp)
  return {"tree": tree, "spell": sp, "ftext": esc(ftext), "pytext": esc(python_text(tree)),
          "xkind": xkind, "xpos": xpos, "xnl": xnl,
          "xtext": esc(xtext) if len(xtext) <= LONG else "", "xlen": len(xtext), "_xtext": xtext,
          "how": how, "src": src, "rows": doc["rows"], "newrow": doc["newrow"]}


PY_TOKENS = ["$a", "$b", "$", "rec", "rec.a", ".", "=", "==", "(", ")", "[", "]", "{", "}", ":", ",", ";", "\n", "\n  ",
             "\n    ", "\r", "\r\n", "\t", " ", "\\", "\\\n", "#", "'", '"', '"""', "'''", "f'", "{$a}", "1", "0", "+",
             "-", "*", "/", "%", "**", "if", "else", "elif", "for q in [1]", "return", "def", "class", "lambda", "yield",
             "import", "pass", "and", "or", "not", "in", "is", "None", "True", "x", "y", "K", "G", "table", "try:",
             "except:", "with", "as", "global", "del", "raise", "assert", "await", "async", "@", ":=", "->", "...",
             "\x00", "\x0c", "\u00e9", "\u2028", "\ufeff", "return 7", "def K(rec, table):"]


def hypothesis_texts(seed_value, n):
  from hypothesis import HealthCheck, Phase, given, seed, settings, strategies as st   # pylint: disable=import-outside-toplevel
  pyish = st.text(alphabet="$abrec.=()[]{}:,;\n\r\t #'\"\\01+-*/%<>!fxyKG_", max_size=60)
  toks = st.lists(st.sampled_from(PY_TOKENS), max_size=14)
  strategy = st.one_of(st.text(max_size=40), pyish, toks.map("".join), toks.map(" ".join))
  texts = []

  @seed(seed_value)
  @settings(max_examples=n, database=None, deadline=None, derandomize=True,
            suppress_health_check=list(HealthCheck), phases=[Phase.generate])
  @given(strategy)
  def collect(t):
    texts.append(t)
  collect()
  return texts[:n]


RAND_STRS = ["$a", "rec.b", "a\n$b", "", "x", "it's $b", 'say "$a"', "{$a}", "#$a", "\u00e9$a", "a\\n$b", "$a\n  $b\n"]
RAND_BIN = ["Add", "Sub", "Mult", "Div", "Mod", "Eq", "NotEq", "Lt", "LtE", "Gt", "GtE", "In", "NotIn", "And", "Or"]


def random_tree(rnd, depth, names):
  if depth <= 0 or rnd.random() < 0.2:
    k = rnd.random()
    if k < 0.35:
      return ["Attr", ["Name", "rec"], rnd.choice(["a", "b"])]
    if k < 0.6:
      return ["Const", ["int", rnd.choice([0, 1, 2, 3, 7, 10])]]
    if k < 0.85 or not names:
      return ["Const", ["str", [ord(c) for c in rnd.choice(RAND_STRS)]]]
    return ["Name", rnd.choice(names)]
  k = rnd.random()
  if k < 0.6:
    return [rnd.choice(RAND_BIN), random_tree(rnd, depth - 1, names), random_tree(rnd, depth - 1, names)]
  if k < 0.75:
    return ["Cond"] + [random_tree(rnd, depth - 1, names) for _ in range(3)]
  if k < 0.88:
    return ["Fmt", random_tree(rnd, depth - 1, names)]
  return ["Not", random_tree(rnd, depth - 1, names)]


def random_items(seed_value, n):
  rnd = random.Random(seed_value)
  items = []
  for _ in range(n):
    d = rnd.choice([2, 3, 3, 4])
    if rnd.random() < 0.4:
      tree = ["Let", "y", random_tree(rnd, d - 1, []), random_tree(rnd, d, ["y"])]
    else:
      tree = random_tree(rnd, d, [])
    sps = ["dollar", "rec", "return", "comment", "indent", "crlf", "multiline", "fstr", "triple", "ftriple", "strcont"]
    last = tree[3] if tree[0] == "Let" else tree
    if last[0] == "Cond":
      sps += list(BLOCKS)
    if tree[0] == "Let":
      sps.append("semicolon")
    items.append({"tree": tree, "spell": rnd.choice(sps), "xkind": rnd.choice(sorted(FRAGS)),
                  "xpos": rnd.choice(["alone", "before", "after", "block", "codeshape"]), "xnl": rnd.choice(["lf", "crlf"]),
                  "how": rnd.choice(["modify", "meta"])})
  return items


def expand(item, doc):
  if "ftext" in item:       # replay of a recorded input
    inp = dict(item)
    if item["xkind"] != "text":
      inp["_xtext"] = fragment_text(item["xkind"], item["xpos"], item["xnl"])
    else:
      inp["_xtext"] = unesc(item["xtext"])
    return [inp]
  if "hyp" in item:
    texts = hypothesis_texts(item["hyp"], item["n"])
    trees = item["trees"]
    return [make_inp(doc, trees[k % len(trees)][0], trees[k % len(trees)][1], "text", "alone", "lf", t,
                     "modify" if k % 2 == 0 else "meta", "hyp") for k, t in enumerate(texts)]
  if "rand" in item:
    return [dict(x, src="rand") for it in random_items(item["rand"], item["n"]) for x in expand(it, doc)]
  if "xtext" in item:
    return [make_inp(doc, item["tree"], item["spell"], "text", "alone", "lf", unesc(item["xtext"]), item["how"])]
  xtext = fragment_text(item["xkind"], item["xpos"], item["xnl"])
  return [make_inp(doc, item["tree"], item["spell"], item["xkind"], item["xpos"], item["xnl"], xtext, item["how"])]


def main():
  args = json.loads(sys.argv[1])
  items = json.load(open(args["inp"]))
  doc = json.load(open(args["doc"]))
  cases = []
  for item in items:
    for inp in expand(item, doc):
      out = run_case(inp, doc)
      out["py"] = python_results(unesc(inp["pytext"]), inp["rows"])
      inp = {k: v for k, v in inp.items() if not k.startswith("_")}
      cases.append({"inp": inp, "out": out})
  json.dump(cases, open(args["out"], "w"))


if __name__ == "__main__":
  main()
