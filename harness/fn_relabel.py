"""
Worker for C20: run the real relabeling.prepare_inserts and write judgement-free cases for
spec/Trace_Relabel.tla.  argv[1] = JSON {"inp": <inputs file>, "out": <cases file>, "embs": [...]}.

An input is either
  a grid input enumerated by TLC (MC_Relabel):  {"ex": [grid points], "req": [[kind, point], ...]}
      (kind 0 = grid point, -1 = -inf, 1 = +inf); it is run once per embedding of the grid into
      floats (EMBEDDINGS below), or
  a raw input:  {"keys": [float.hex(), ...], "reqs": [float.hex() | "inf" | "-inf", ...], "emb": label}
      (randomized cases, replays; `case["inp"]` of every case written here is such a raw input).

A case is {"inp": raw input (+ the grid input it came from), "out": ranks, "exc": ""|exception name,
"where": ""|place in relabeling.py where it was raised}.
TLC has no floats, and the property only speaks about order, distinctness and finiteness, so every
float is replaced by [kind, rank]: kind 0 = finite with its rank among all distinct finite numbers of
the case (existing keys, requests, adjusted keys, new keys), -1 = -inf, 1 = +inf, 2 = NaN / not a
number.  No judgement is made here.
"""
import functools
import json
import math
import sys
import traceback

INF = float("inf")


# ---- embeddings of grid points into floats ---------------------------------------------------

def _ulps(x, n):
  for _ in range(n):
    x = math.nextafter(x, INF)
  return x


def _prev_ulps(x, n):
  for _ in range(n):
    x = math.nextafter(x, -INF)
  return x


EMBEDDINGS = {
  # plenty of room between neighbours
  "sparse": lambda i: float(i + 1),
  # neighbours are adjacent doubles: no midpoint exists between grid points i and i+1
  "dense": lambda i: _ulps(1.0, i),
  # pairs of adjacent doubles separated by wide gaps
  "mixed": lambda i: _ulps(float(1 + i // 2), i % 2),
  # adjacent doubles whose mantissas do not end in a run of zero bits (1.0 + 256 ulps onwards)
  "denseu": lambda i: _ulps(1.0, 256 + i),
  # adjacent doubles across a power of two (the spacing doubles at grid point 3)
  "denseb": lambda i: _ulps(_prev_ulps(2.0, 3), i),
}


@functools.lru_cache(maxsize=None)
def _point(emb, i):
  return EMBEDDINGS[emb](i)


def embed(emb, ex, req):
  f = functools.partial(_point, emb)
  keys = [f(i) for i in ex]
  reqs = [(-INF if k < 0 else INF if k > 0 else f(i)) for k, i in req]
  return keys, reqs


# ---- float <-> JSON text ----------------------------------------------------------------------

def to_hex(x):
  if isinstance(x, float):
    return x.hex()          # "inf", "-inf", "nan" for the non-finite ones
  return repr(x)


def from_hex(s):
  return float.fromhex(s)


# ---- ranks ------------------------------------------------------------------------------------

def _is_number(x):
  return isinstance(x, (int, float)) and not isinstance(x, bool)


def _is_finite(x):
  return isinstance(x, int) or math.isfinite(x)


def _ranker(values):
  finite = sorted(set(v for v in values if _is_number(v) and _is_finite(v)))
  # -0.0 == 0.0 and 1 == 1.0 fall together in the set, as they do for the engine's comparisons
  def rank(v):
    if not _is_number(v) or v != v:
      return [2, 0]
    if v == INF:
      return [1, 0]
    if v == -INF:
      return [-1, 0]
    lo, hi = 0, len(finite)
    while lo < hi:
      mid = (lo + hi) // 2
      if finite[mid] < v:
        lo = mid + 1
      else:
        hi = mid
    return [0, lo]
  return rank


def rank_case(existing_keys, requested, adjustments, new_keys, exc="", emb="recorded", grid=None,
              where=""):
  """
  Build the case judged by spec/Trace_Relabel.tla from one call of prepare_inserts:
    existing_keys  the keys of the sorted list, in list order
    requested      the keys passed in
    adjustments    [(index into the sorted list, new key), ...] as returned
    new_keys       [new key, ...] as returned
    exc, where     if the call raised: name of the exception and the place in relabeling.py (the
                   latter is information for reports, it is not judged); adjustments = new_keys = []
  Reusable for calls recorded from a running engine.
  """
  adjustments = [(i, k) for i, k in adjustments]
  new_keys = list(new_keys)
  rank = _ranker(list(existing_keys) + list(requested) + [k for _, k in adjustments] + new_keys)
  inp = {"emb": emb, "ex": (grid or {}).get("ex", []), "req": (grid or {}).get("req", []),
         "keys": [to_hex(k) for k in existing_keys], "reqs": [to_hex(k) for k in requested]}
  out = {"old": [rank(k) for k in existing_keys],
         "req": [rank(k) for k in requested],
         "adj": [[int(i)] + rank(k) for i, k in adjustments],
         "new": [rank(k) for k in new_keys]}
  return {"inp": inp, "out": out, "exc": exc, "where": where}


# ---- calling the real function ------------------------------------------------------------------

def call_prepare_inserts(keys, reqs):
  """Same calling convention as column.PositionColumn.prepare_new_values: a SortedListWithKey of
  row ids whose key function looks the position up."""
  import relabeling
  from sortedcontainers import SortedListWithKey
  pos = {100 + j: k for j, k in enumerate(keys)}
  rows = SortedListWithKey(pos.keys(), key=pos.get)
  if [pos[r] for r in rows] != list(keys):
    raise SystemExit("harness: existing keys must be given in sorted order: %r" % (keys,))
  adjustments, new_keys = relabeling.prepare_inserts(rows, list(reqs))
  return list(adjustments), list(new_keys)


def raised_where(e):
  """'<function>: <source line>' of the innermost frame inside relabeling.py."""
  frames = [f for f in traceback.extract_tb(e.__traceback__) if f.filename.endswith("relabeling.py")]
  return "%s: %s" % (frames[-1].name, frames[-1].line) if frames else ""


def run_one(keys, reqs, emb, grid=None):
  try:
    adjustments, new_keys = call_prepare_inserts(keys, reqs)
  except Exception as e:   # pylint: disable=broad-except
    return rank_case(keys, reqs, [], [], exc=type(e).__name__, emb=emb, grid=grid, where=raised_where(e))
  return rank_case(keys, reqs, adjustments, new_keys, emb=emb, grid=grid)


def main():
  args = json.loads(sys.argv[1])
  inputs = json.load(open(args["inp"]))
  embs = args.get("embs") or ["sparse", "dense", "mixed"]
  cases = []
  for inp in inputs:
    if "keys" in inp:
      keys = [from_hex(s) for s in inp["keys"]]
      reqs = [from_hex(s) for s in inp["reqs"]]
      grid = {"ex": inp.get("ex", []), "req": inp.get("req", [])}
      cases.append(run_one(keys, reqs, inp.get("emb", "raw"), grid))
    else:
      for emb in embs:
        keys, reqs = embed(emb, inp["ex"], inp["req"])
        cases.append(run_one(keys, reqs, emb, inp))
  json.dump(cases, open(args["out"], "w"))


if __name__ == "__main__":
  main()
