"""
Known findings (DESIGN.md section 4.7).  /verif/known_findings.json is committed and never written at
run time.  An `open` entry names a matcher (a predicate over one minimised violation record);
`fixed` entries suppress nothing.
"""
import json
import os

VERIF = os.path.dirname(os.path.dirname(os.path.abspath(__file__)))

MATCHERS = {}


def matcher(name):
  def deco(fn):
    MATCHERS[name] = fn
    return fn
  return deco


def load():
  p = os.path.join(VERIF, "known_findings.json")
  if not os.path.exists(p):
    return []
  return json.load(open(p))["findings"]


def match(prop, violation, extra=None):
  """extra: optional {name: predicate} defined by the check module itself (checks/Cxx.py MATCHERS)."""
  for k in load():
    if k.get("status") != "open" or k.get("property") != prop:
      continue
    if k.get("witness"):
      # the finding is identified by its scripted history and clause
      if violation.get("tid") == "script:%s-0" % k["witness"] and violation.get("clause") == k.get("clause"):
        return k
      if not k.get("matcher"):
        continue
    fn = (extra or {}).get(k.get("matcher")) or MATCHERS.get(k.get("matcher"))
    if fn is None:
      continue
    try:
      if fn(violation):
        return k
    except Exception:   # pylint: disable=broad-except
      continue
  return None


# ---------------------------------------------------------------------------------------------
# Matchers for the engine-history corpus (violation records built by shared.clause_violations)
# ---------------------------------------------------------------------------------------------
def _cells(v):
  out = []
  for d in v.get("context", {}).get("diffs", []):
    if d.get("kind") != "cells":
      return None        # structural difference: never matched by a cell-level finding
    for r, a, b in d["cells"]:
      out.append((d["t"], d["c"], r, a, b))
  return out


@matcher("pyequal_bool_num")
def _pyequal_bool_num(v):
  """Every differing cell is a Python-equal bool/number pair (True vs 1, False vs 0)."""
  cells = _cells(v)
  if not cells:
    return False
  ok = ({"b1", "#1"}, {"b0", "#0"})
  return all({a, b} in ok for (_t, _c, _r, a, b) in cells)


@matcher("numrepr_after_typechange")
def _numrepr_after_typechange(v):
  """
  Redo/undo of a column type change: the data cells are equal as numbers, but the in-memory
  int/float representation differs, so only FORMULA cells reading the column differ.
  """
  ctx = v.get("context", {})
  cells = _cells(v)
  if not cells or ctx.get("tag") not in ("undo", "redo"):
    return False
  typechange = any(a[0] == "ModifyColumn" and len(a) > 3 and "type" in a[3]
                   for a in ctx.get("of_stored", []))
  if not typechange:
    return False
  cols = ctx.get("cols", {})
  return all(cols.get("%s.%s" % (t, c), {}).get("isFormula") for (t, c, _r, _a, _b) in cells)


DEFAULT_TOKENS = {"s", "#0", "b0", "n", "#inf"}


@matcher("fault_inside_modifycolumn_resets_column")
def _fault_inside_modifycolumn(v):
  """
  InjectedFault inside a rebuild_usercode call of a schema doc action: the schema is restored, but a
  column whose object had already been re-created reads as all-default afterwards.
  """
  ctx = v.get("context", {})
  cells = _cells(v)
  if not cells or not ctx.get("fault") or ctx["fault"][0] != "rebuild":
    return False
  cols = {(t, c) for (t, c, _r, _a, _b) in cells}
  if len(cols) != 1:
    return False
  return all(b in DEFAULT_TOKENS for (_t, _c, _r, _a, b) in cells)


SUMMARY_RESTRUCTURING = ("UpdateSummaryViewSection", "DetachSummaryViewSection", "RemoveViewSection",
                         "RemoveView", "CreateViewSection")


@matcher("undo_raises_multi_action_summary_bundle")
def _undo_raises_summary(v):
  """
  The undo of a bundle of SEVERAL user actions, one of which restructures a summary table / view
  section, raises AssertionError (calc and auto-remove undo actions of summary rows are mis-ordered).
  """
  ctx = v.get("context", {})
  if v.get("clause") != "C01.applies" or ctx.get("exc") not in ("AssertionError", "KeyError"):
    return False
  uas = ctx.get("of_uas") or []
  return len(uas) >= 2 and any(u and u[0] in SUMMARY_RESTRUCTURING for u in uas)


@matcher("undo_renametable_lookup_keyerror")
def _undo_renametable_keyerror(v):
  """
  ApplyUndoActions of a bundle containing RenameTable raises KeyError from docactions.RenameTable
  (copy_from_column of a '#lookup#' helper column that the re-created table does not have).
  """
  ctx = v.get("context", {})
  if ctx.get("tag") != "undo" or ctx.get("exc") != "KeyError":
    return False
  return any(u and u[0] == "RenameTable" for u in (ctx.get("of_uas") or []))


@matcher("replacetabledata_keeps_references")
def _replacetabledata_keeps_references(v):
  """
  The ReplaceTableData user action drops the rows it does not name without the reference clean-up of a
  record removal (useractions.doBulkAddOrReplace): Ref / RefList cells elsewhere - the reverse side of a
  two-way pair included - keep naming the vanished rows.
  """
  ctx = v.get("context", {})
  if not str(v.get("clause", "")).startswith("C10."):
    return False
  return any(u and u[0] == "ReplaceTableData" for u in (ctx.get("uas") or []))


@matcher("twoway_bulk_update_repeated_row")
def _twoway_bulk_update_repeated_row(v):
  """
  A BulkUpdateRecord naming a row twice writes a two-way column: the reverse adjustments
  (reverse_references.get_reverse_adjustments) of every occurrence are computed from the values before
  the action, so the other side keeps what an earlier occurrence added and a later one dropped.
  """
  if v.get("clause") != "C11.symmetric":
    return False
  for u in (v.get("context", {}).get("uas") or []):
    if u and u[0] == "BulkUpdateRecord" and len(u) > 2 and isinstance(u[2], list) and len(set(u[2])) < len(u[2]):
      return True
  return False


def _c12_oddity(kind):
  def match(v):
    if not str(v.get("clause", "")).startswith("C12."):
      return False
    odd = v.get("context", {}).get("groupby_oddities") or {}
    refs = [str(d[0]) for d in (v.get("detail") or []) if isinstance(d, list) and d]
    return bool(refs) and all(kind in odd.get(r, []) for r in refs)
  return match


# the source cells of the group-by columns of every violating summary table hold ...
MATCHERS["c12_error_cells_in_groupby"] = _c12_oddity("error")        # error values (default formula raised)
MATCHERS["c12_bool_in_nonbool_groupby"] = _c12_oddity("bool")        # True / False left in a non-Bool column
MATCHERS["c12_negative_ref_in_groupby"] = _c12_oddity("negref")      # a negative number in a Ref column
MATCHERS["c12_list_in_plain_groupby"] = _c12_oddity("list")          # a list in a column of a non-list type
