"""
Known findings (DESIGN.md section 4.7).  /verif/known_findings.json is committed and never written at
run time.  An `open` entry names a matcher (a predicate over one minimised violation record);
`fixed` entries suppress nothing.
"""
import json
import os

VERIF = os.path.dirname(os.path.dirname(os.path.abspath(__file__)))

MATCHERS = {}


def matcher(name):
  def deco(fn):
    MATCHERS[name] = fn
    return fn
  return deco


def load():
  p = os.path.join(VERIF, "known_findings.json")
  if not os.path.exists(p):
    return []
  return json.load(open(p))["findings"]


def match(prop, violation, extra=None):
  """extra: optional {name: predicate} defined by the check module itself (checks/Cxx.py MATCHERS)."""
  for k in load():
    if k.get("status") != "open" or k.get("property") != prop:
      continue
    fn = (extra or {}).get(k.get("matcher")) or MATCHERS.get(k.get("matcher"))
    if fn is None:
      continue
    try:
      if fn(violation):
        return k
    except Exception:   # pylint: disable=broad-except
      continue
  return None
