"""
Worker process: generates recorded traces of one profile for a slice of seeds and writes one shard.
Run as:  PYTHONPATH=/repo/sandbox/grist:/verif/harness:/verif/shim /venv/bin/python corpus_worker.py <json-args>
"""
import json
import sys
import time

import adapter   # noqa: F401  (silences logging, checks imports)
from tokens import TokenTable
import histories


def main():
  args = json.loads(sys.argv[1])
  tt = TokenTable()
  traces = []
  t0 = time.time()
  jobs = args.get("jobs") or [[args["profile"], s, args["n_bundles"]] for s in args["seeds"]]
  for profile, seed, n_bundles in jobs:
    if profile.startswith("script:"):
      rec = histories.run_script(profile[7:])
    elif profile.startswith("ro:"):
      rec = histories.run_readonly_history(seed, profile=profile[3:], n_bundles=n_bundles)
    elif profile.startswith("fault:"):
      rec = histories.run_fault_history(seed, profile=profile[6:], n_bundles=n_bundles)
    else:
      rec = histories.run_history(seed, profile=profile, n_bundles=n_bundles,
                                  invalid_prob=args.get("invalid_prob", 0.15),
                                  undo_prob=args.get("undo_prob", 0.5))
    tr = rec.trace()
    tt.update(rec.tt)
    traces.append(tr)
  shard = {"meta": {"jobs": jobs, "gen_wall": time.time() - t0},
           "ints": tt.ints, "elems": tt.elems, "strs": tt.strs, "helpers": tt.helpers,
           "traces": traces}
  with open(args["out"], "w") as f:
    json.dump(shard, f)


if __name__ == "__main__":
  main()
