"""
Worker for C17: column renames inside ACL rule formulas, ACL resource column lists, user-attribute
lookup columns, dropdown conditions and trigger conditions.  argv[1] = JSON {"inp": items, "out": cases}.

An item is one of
  {"exprs": [{"expr": <abstract expression, TLA shape>, "style": ..} | {"bad": <text>}, ...],
   "variant": .., "contexts": .., "steps": [{"t", "old", "new"}], "path": ..}   (TLC-enumerated; rendered here)
  {"rand": seed, "n": count}                                                    (generated here)
  a recorded case's "inp" (has "texts")                                         (replay)

For every item the worker builds ONE fresh document with the real engine through public user actions
(AddTable / UpdateRecord / AddRecord on the metadata tables, as the repo's tests do), puts every text
into every context (ACL rule of a resource, dropdown condition of a column, trigger condition in text
and in config mode), records text + stored parsed form + the code's own parse of the text, applies the
rename steps in one bundle, records again.  Nothing here judges the property.

Document description (doc):
  tables  : [[tableId, [colId, ...]], ...]          Text columns, in creation order
  holders : [[tableId, colId, type], ...]           the columns that hold dropdown conditions
  attrs   : [{name, charId, tableId, lookupColId}]  user-attribute rules (on the '*' resource)
  res     : [{tableId, colIds: [..]}]               ACL resources
  entries : [{kind: acl|dc|trig|trigc, self, choice, res (1-based; 0 = the '*' resource; acl only),
              col, ctype (dc only: the column holding the condition and its type), txt (1-based)}]
"""
import json
import random
import sys
import warnings

import adapter
import predicate_formula
from fn_predicate import enc_tree, dec_tree, enc_expr, expected_tree, esc, unesc, PREC, SYM, prec

warnings.simplefilter("ignore")

NOTREE = ["NoTree"]


# ---------------------------------------------------------------------------------------------------
# rendering an abstract expression as a TOKEN sequence [[text, ref], ...]; ref = the chain of names an
# attribute-name token hangs on (["rec", "X"], ["user", "A", "X"]) or [] for every other token
def chain_of(n):
  """n = ["Attr", base, name]"""
  base = n[1]
  if base[0] == "Name":
    return [base[1], n[2]]
  if base[0] == "Attr" and base[1] == ["Name", "user"]:
    return ["user", base[2], n[2]]
  return []


COMMENTS = {"cmt": "note $X rec.X user.A.X", "ws": "\xfc日 $X \U0001d4b3"}


def render_tokens(n, style):
  """
  full : rec.X spelled out, every compound operand parenthesised, single spaces
  min  : $X, parentheses only where the grammar needs them
  cmt  : $X, double spaces, a trailing comment that mentions the names
  ws   : rec . X with blanks around the dot, wrapped in ( ... ) over three lines with a non-ASCII
         comment on the first line, tab gaps
  """
  full = style in ("full", "ws")
  dollar = style in ("min", "cmt")
  gap = {"cmt": "  ", "ws": " \t"}.get(style, " ")
  dot = " . " if style == "ws" else "."
  out = []

  def emit(s, ref=None):
    out.append([s, ref or []])

  def wrap(c, need):
    if need or (full and prec(c) < 9):
      emit("(")
      r(c)
      emit(")")
    else:
      r(c)

  def base(c):
    numeric = c[0] == "Const" and isinstance(c[1], (int, float)) and not isinstance(c[1], bool)
    wrap(c, prec(c) < 9 or numeric)

  def seq(items, sep, fn):
    for k, c in enumerate(items):
      if k:
        emit(sep)
      fn(c)

  def r(n):
    head = n[0]
    if head == "Const":
      emit(repr(n[1]))
    elif head == "Name":
      emit(n[1])
    elif head == "Attr":
      if dollar and n[1] == ["Name", "rec"]:
        emit("$")
      else:
        base(n[1])
        emit(dot)
      emit(n[2], chain_of(n))
    elif head in ("And", "Or"):
      seq(n[1:], gap + SYM[head] + gap, lambda c: wrap(c, prec(c) <= PREC[head]))
    elif head == "Not":
      emit("not ")
      wrap(n[1], prec(n[1]) < 3)
    elif head in PREC:
      p = PREC[head]
      wrap(n[1], prec(n[1]) <= 4 if p == 4 else prec(n[1]) < p)
      emit(gap + SYM[head] + gap)
      wrap(n[2], prec(n[2]) <= p)
    elif head == "List":
      emit("[")
      seq(n[1:], "," + gap, r)
      emit("]")
    elif head == "Call":
      base(n[1])
      emit("(")
      first = True
      for a in n[2:]:
        pairs = a[1:] if a[0] == "keywords" else [[None, a]]
        for k, v in pairs:
          if not first:
            emit("," + gap)
          first = False
          if k is not None:
            emit(k + "=")
          r(v)
      emit(")")
    else:
      raise ValueError("cannot render %r" % (n,))

  if style == "ws":
    emit("(  # " + COMMENTS["ws"] + "\n  ")
    r(n)
    emit("\n)")
  else:
    r(n)
    if style == "cmt":
      emit("  # " + COMMENTS["cmt"])
  return out


def text_from_expr(expr, style):
  """expr: abstract expression with raw constants."""
  toks = render_tokens(expr, style)
  text = "".join(t for t, _ in toks)
  hascmt = style in COMMENTS
  return {"expr": enc_expr(expected_tree(expr)), "style": style, "text": esc(text),
          "toks": [{"cp": [ord(c) for c in t], "ref": ref} for t, ref in toks],
          "hascmt": hascmt, "comment": [ord(c) for c in COMMENTS[style]] if hascmt else []}


def text_from_bad(text):
  return {"expr": ["NoExpr"], "style": "bad", "text": esc(text), "toks": [], "hascmt": False, "comment": []}


def with_cp(steps):
  return [{"t": s["t"], "old": s["old"], "new": s["new"], "newcp": [ord(c) for c in s["new"]]} for s in steps]


def doc_from_variant(variant, contexts, ntexts, tables=None):
  """One entry per (text, context); the conditions of text j live in columns R<j> (a reference) / P<j>."""
  entries = []
  for j in range(1, ntexts + 1):
    for c in contexts:
      e = {"kind": c["kind"], "self": c["self"], "choice": c["choice"], "res": c["res"], "col": "", "ctype": "", "txt": j}
      if c["kind"] == "dc":
        e["col"] = ("P%d" if not c["choice"] else "S%d" if c["choice"] == c["self"] else "R%d") % j
        e["ctype"] = (variant["reftype"] + c["choice"]) if c["choice"] else variant.get("plaintype", "Text")
      entries.append(e)
  holders = [[e["self"], e["col"], e["ctype"]] for e in entries if e["kind"] == "dc"]
  return {"tables": tables or [["U", ["X", "Z"]], ["T", ["X", "Y"]]], "holders": holders,
          "attrs": variant["attrs"], "res": variant["res"], "entries": entries}


def inp_from_item(it):
  texts = [text_from_bad(unesc(x["bad"])) if "bad" in x else text_from_expr(dec_tree(x["expr"]), x["style"])
           for x in it["exprs"]]
  return {"texts": texts, "doc": doc_from_variant(it["variant"], it["contexts"], len(texts)),
          "steps": with_cp(it["steps"]), "path": it["path"]}


# ---------------------------------------------------------------------------------------------------
# the code's own parser, recorded in the uniform shape
def parse_own(text):
  """-> (tree in the TLA shape | NOTREE, exception class | "")"""
  try:
    tree = predicate_formula.parse_predicate_formula(text)
  except Exception as e:   # pylint: disable=broad-except
    return NOTREE, type(e).__name__
  try:
    enc, ok = enc_tree(tree)
  except Exception:   # pylint: disable=broad-except
    return ["Malformed"], ""
  return (enc if ok else ["Malformed"]), ""


def stored_tree(value, is_json_text):
  """The stored parsed form -> (tree | NOTREE, raw as a JSON string)."""
  raw = value if is_json_text else json.dumps(value, sort_keys=True)
  try:
    obj = json.loads(value) if is_json_text else value
    enc, ok = enc_tree(obj)
    return (enc if ok else ["Malformed"]), raw
  except Exception:   # pylint: disable=broad-except
    return ["Malformed"], raw if isinstance(raw, str) else repr(raw)


def side(text, has, parsed_value, is_json_text, rest, present=True):
  if not isinstance(text, str):
    text, present = repr(text), False
  tree, pexc = parse_own(text)
  stored, raw = (stored_tree(parsed_value, is_json_text) if has else (NOTREE, ""))
  return {"present": present, "text": esc(text), "cps": [ord(c) for c in text], "tree": tree, "pexc": pexc,
          "has": bool(has), "stored": stored, "raw": esc(raw), "rest": esc(json.dumps(rest, sort_keys=True, default=repr))}


def is_json(text):
  try:
    json.loads(text)
    return True
  except ValueError:
    return False


ABSENT = {"present": False, "text": "", "cps": [], "tree": NOTREE, "pexc": "absent", "has": False,
          "stored": NOTREE, "raw": "", "rest": ""}


# ---------------------------------------------------------------------------------------------------
class Doc(object):
  """One document in a real engine."""
  TRIG_PLACEHOLDER = ["Const", 0]

  def __init__(self, doc, texts):
    self.doc, self.texts = doc, texts
    self.eng = adapter.new_engine()
    self.valid = [parse_own(t)[1] == "" for t in texts]
    self.rule_ids, self.trig_ids, self.col_refs = {}, {}, {}
    self.attr_rule_ids = []
    self.patch_acl = {}
    self.build()

  def table_ref(self, table_id):
    t = self.eng.fetch_table("_grist_Tables")
    return t.row_ids[t.columns["tableId"].index(table_id)]

  def col_ref(self, table_id, col_id):
    tref = self.table_ref(table_id)
    c = self.eng.fetch_table("_grist_Tables_column")
    for k, rid in enumerate(c.row_ids):
      if c.columns["parentId"][k] == tref and c.columns["colId"][k] == col_id:
        return rid
    raise adapter.MachineryError("no column %s.%s" % (table_id, col_id))

  def build(self):
    doc = self.doc
    dcs = [(k, e) for k, e in enumerate(doc["entries"]) if e["kind"] == "dc"]
    acts = []
    for t, cols in doc["tables"]:
      infos = [{"id": c, "type": "Text"} for c in cols]
      for ht, hc, htype in doc["holders"]:
        if ht == t:
          info = {"id": hc, "type": htype}
          for k, e in dcs:
            if (e["self"], e["col"]) == (ht, hc) and not self.valid[e["txt"] - 1]:
              # columns are created with widgetOptions as given (no parsing), as
              # test_dropdown_condition_renames stores its invalid condition
              info["widgetOptions"] = self.widget_options(e)
          infos.append(info)
      acts.append(["AddTable", t, infos])
    adapter.apply(self.eng, acts)
    for k, e in dcs:
      self.col_refs[k] = self.col_ref(e["self"], e["col"])
    # a user edits the conditions: the engine parses them
    edit = [(self.col_refs[k], self.widget_options(e)) for k, e in dcs if self.valid[e["txt"] - 1]]
    acts = []
    if edit:
      acts.append(["BulkUpdateRecord", "_grist_Tables_column", [r for r, _ in edit], {"widgetOptions": [w for _, w in edit]}])
    # ACL resources and rules, triggers
    acts.append(["AddRecord", "_grist_ACLResources", 1, {"tableId": "*", "colIds": "*"}])
    nrule = 0
    # where a user attribute is defined relative to the rules that use it is free: every second attribute
    # is defined in a rule stored AFTER all the formula rules (as when it is added to an existing rule set)
    late_attrs = []
    for i, a in enumerate(doc["attrs"]):
      if i % 2 == 1:
        late_attrs.append(a)
        self.attr_rule_ids.append(None)
        continue
      nrule += 1
      acts.append(["AddRecord", "_grist_ACLRules", nrule, {"resource": 1, "userAttributes": json.dumps(a)}])
      self.attr_rule_ids.append(nrule)
    for k, r in enumerate(doc["res"]):
      acts.append(["AddRecord", "_grist_ACLResources", k + 2, {"tableId": r["tableId"], "colIds": ",".join(r["colIds"])}])
    ntrig = 0
    trefs = {t: self.table_ref(t) for t, _ in doc["tables"]}
    for k, e in enumerate(doc["entries"]):
      text, valid = self.texts[e["txt"] - 1], self.valid[e["txt"] - 1]
      if e["kind"] == "acl":
        nrule += 1
        self.rule_ids[k] = nrule
        # an unparsable ACL formula cannot be entered through user actions (they parse it); it is put
        # into the document as loaded (reload_with_acl_texts)
        acts.append(["AddRecord", "_grist_ACLRules", nrule,
                     {"resource": e["res"] + 1, "aclFormula": text if valid else "True",
                      "permissionsText": "none", "memo": "m%d" % k}])
        if not valid:
          self.patch_acl[nrule] = text
      elif e["kind"] in ("trig", "trigc"):
        ntrig += 1
        self.trig_ids[k] = ntrig
        if e["kind"] == "trigc":
          cond = {"config": {"customExpression": text, "columnFilters": []}}
          if not valid:
            cond["config"]["customExpressionParsed"] = self.TRIG_PLACEHOLDER
        elif valid:
          # a plain formula string (where it cannot be mistaken for JSON) or the JSON form
          cond = None if (k % 2 == 0 and not is_json(text)) else {"text": text}
        else:
          cond = {"text": text, "parsed": self.TRIG_PLACEHOLDER}   # "if parsed is set we skip parsing"
        acts.append(["AddRecord", "_grist_Triggers", ntrig,
                     {"tableRef": trefs[e["self"]], "label": "t%d" % k,
                      "condition": text if cond is None else json.dumps(cond)}])
    for a in late_attrs:
      nrule += 1
      acts.append(["AddRecord", "_grist_ACLRules", nrule, {"resource": 1, "userAttributes": json.dumps(a)}])
      self.attr_rule_ids[self.attr_rule_ids.index(None)] = nrule
    adapter.apply(self.eng, acts)
    if self.patch_acl:
      self.reload_with_acl_texts()

  def widget_options(self, e):
    return json.dumps({"alignment": "left", "dropdownCondition": {"text": self.texts[e["txt"] - 1]}})

  def reload_with_acl_texts(self):
    """A document as it is loaded: the same tables, the ACL formula cells holding the unparsable texts."""
    import engine as engine_mod   # pylint: disable=import-outside-toplevel
    eng = self.eng
    eng2 = engine_mod.Engine()
    mt = eng.fetch_table("_grist_Tables", formulas=False)
    mc = eng.fetch_table("_grist_Tables_column", formulas=False)
    expected = eng2.load_meta_tables(mt, mc)
    for table_id in expected:
      if table_id in eng.tables:
        td = eng.fetch_table(table_id, formulas=False)
        if table_id == "_grist_ACLRules":
          for rid, text in self.patch_acl.items():
            i = td.row_ids.index(rid)
            td.columns["aclFormula"][i] = text
            td.columns["aclFormulaParsed"][i] = ""
        eng2.load_table(td)
    adapter.apply(eng2, [["Calculate"]])
    self.eng = eng2

  # -------------------------------------------------------------------------------------------------
  def record(self):
    eng, doc = self.eng, self.doc

    def index(td):
      return {rid: i for i, rid in enumerate(td.row_ids)}, td
    rules, trigs = index(eng.fetch_table("_grist_ACLRules")), index(eng.fetch_table("_grist_Triggers"))
    cols, ress = index(eng.fetch_table("_grist_Tables_column")), index(eng.fetch_table("_grist_ACLResources"))

    def row(tab, rid):
      idx, td = tab
      if rid not in idx:
        return None
      return {c: v[idx[rid]] for c, v in td.columns.items()}

    entries = []
    for k, e in enumerate(doc["entries"]):
      if e["kind"] == "acl":
        r = row(rules, self.rule_ids[k])
        if r is None:
          entries.append(ABSENT)
          continue
        text, parsed = r.pop("aclFormula"), r.pop("aclFormulaParsed")
        entries.append(side(text, bool(parsed), parsed, True, r))
      elif e["kind"] == "dc":
        r = row(cols, self.col_refs[k])
        if r is None:
          entries.append(ABSENT)
          continue
        try:
          wo = json.loads(r["widgetOptions"])
          dc = wo.pop("dropdownCondition")
          text = dc.pop("text")
          has = "parsed" in dc
          parsed = dc.pop("parsed", None)
          rest = {"wo": wo, "dc": dc, "type": r["type"], "formula": r["formula"], "parentId": r["parentId"]}
          entries.append(side(text, has, parsed, True, rest))
        except Exception:   # pylint: disable=broad-except
          entries.append(side(r["widgetOptions"], False, None, True, {}, present=False))
      else:
        r = row(trigs, self.trig_ids[k])
        if r is None:
          entries.append(ABSENT)
          continue
        try:
          cond = json.loads(r.pop("condition"))
          if e["kind"] == "trigc":
            cfg = cond["config"]
            text = cfg.pop("customExpression")
            has = "customExpressionParsed" in cfg
            parsed = cfg.pop("customExpressionParsed", None)
          else:
            text = cond.pop("text")
            has = "parsed" in cond
            parsed = cond.pop("parsed", None)
          r["cond"] = cond
          entries.append(side(text, has, parsed, False, r))
        except Exception:   # pylint: disable=broad-except
          entries.append(side("", False, None, False, r, present=False))
    attrs = []
    for rid in self.attr_rule_ids:
      r = row(rules, rid) or {}
      try:
        a = json.loads(r.get("userAttributes"))
        attrs.append({"ok": True, "name": a.pop("name"), "charId": a.pop("charId"), "tableId": a.pop("tableId"),
                      "lookupColId": a.pop("lookupColId"), "more": len(a), "formula": esc(r.get("aclFormula") or "")})
      except Exception:   # pylint: disable=broad-except
        attrs.append({"ok": False, "name": "", "charId": "", "tableId": "", "lookupColId": "", "more": 0, "formula": ""})
    res = []
    for k in range(len(doc["res"])):
      r = row(ress, k + 2) or {"tableId": "<absent>", "colIds": ""}
      res.append({"tableId": r["tableId"], "colIds": r["colIds"].split(",") if isinstance(r["colIds"], str) else ["<?>"]})
    star = row(ress, 1) or {"tableId": "<absent>", "colIds": ""}
    return entries, attrs, res, {"tableId": star["tableId"], "colIds": [star["colIds"]]}

  # -------------------------------------------------------------------------------------------------
  def step_refs(self, steps):
    """The column record each step renames (a later step may rename the result of an earlier one)."""
    refs, cur = [], {}
    for s in steps:
      ref = cur.pop((s["t"], s["old"]), None) or self.col_ref(s["t"], s["old"])
      cur[(s["t"], s["new"])] = ref
      refs.append(ref)
    return refs, [[ref, new] for (_t, new), ref in cur.items()]

  def rename_actions(self, steps, path, refs):
    if path == "RenameColumn":
      return [["RenameColumn", s["t"], s["old"], s["new"]] for s in steps]
    if path == "bulk" and len(set(refs)) == len(refs):
      return [["BulkUpdateRecord", "_grist_Tables_column", refs, {"colId": [s["new"] for s in steps]}]]
    field = "label" if path == "label" else "colId"
    return [["UpdateRecord", "_grist_Tables_column", ref, {field: s["new"]}] for ref, s in zip(refs, steps)]

  def colid_of(self, ref):
    c = self.eng.fetch_table("_grist_Tables_column")
    return c.columns["colId"][c.row_ids.index(ref)]


def run_item(inp):
  d = Doc(inp["doc"], [unesc(t["text"]) for t in inp["texts"]])
  before = d.record()
  refs, final = d.step_refs(inp["steps"])
  acts = d.rename_actions(inp["steps"], inp["path"], refs)
  exc, msg = "", ""
  try:
    adapter.apply(d.eng, acts)
  except Exception as e:   # pylint: disable=broad-except
    exc, msg = type(e).__name__, str(e)[:200]
  after = d.record()
  renamed = all(d.colid_of(ref) == new for ref, new in final)
  out = {"exc": exc, "msg": esc(msg), "renamed": renamed,
         "entries": [{"b": b, "a": a} for b, a in zip(before[0], after[0])],
         "attrs": [{"b": b, "a": a} for b, a in zip(before[1], after[1])],
         "res": [{"b": b, "a": a} for b, a in zip(before[2], after[2])],
         "star": {"b": before[3], "a": after[3]}}
  return {"inp": inp, "out": out}


# ---------------------------------------------------------------------------------------------------
# generated documents / expressions / renames beyond the bound of the design model
NAMES = ["X", "Xx", "X2", "rec", "user", "choice", "A", "name", "Y", "oldRec", "newRec", "col_1", "Email", "Xy"]
NEW = ["W", "Xnew", "X_", "a_much_longer_column_name", "N2", "q", "Xx2", "rec", "choice"]
BAD_TEXTS = [
  "rec.X ==", " rec.X == 1", "+rec.X", "rec.X == 1; 2", "x = rec.X", "rec.X if 1 else 2", "\trec.X", "rec.X ==\n1",
  "[$X for q in rec.X]", "# only", "$X $X", "rec.X == 'abc", "(rec.X", "rec.X)", "rec.X < choice.X < user.A.X",
  "-$X", "rec.X ** 2", "user.A.X[0]", "lambda: rec.X", "rec.X == 1 \\", "$", "$X == $", "rec..X", "rec.X or",
  "not", "rec.X is not", "f(**rec.X)", "{rec.X: 1}", "rec.X // 2", "~oldRec.X", "choice.X @ 1", "newRec.X := 1",
  "\xe9 == $X ==", "1 if $X", "$X.", "rec.X == b'a'", "rec.X == 1j", "...", "await rec.X", "yield rec.X",
]
# (kind, table of the rule / column / trigger, referenced table, resource); 1 = the table created last
STD_CONTEXTS = [("acl", 1, 0, 1), ("acl", 2, 0, 2), ("acl", 0, 0, 0), ("dc", 1, 2, 0), ("dc", 1, 0, 0),
                ("trig", 1, 0, 0), ("trig", 2, 0, 0), ("trigc", 1, 0, 0), ("trigc", 2, 0, 0), ("dc", 1, 1, 0)]


class Gen(object):
  def __init__(self, rnd):
    self.r = rnd

  def doc(self, ntexts):
    r = self.r
    names = r.sample(NAMES, 5)
    shared = names[0]
    t1, t2 = r.choice([("T", "U"), ("Tab", "Other"), ("Aa", "Bb"), ("Rec", "User")])
    tables = [[t2, [shared, names[3]]], [t1, [shared, names[1], names[2]]]]
    attr_names = r.sample(["A", "B", "Team", shared, "Email"], 2)
    attrs = [{"name": attr_names[0], "charId": "Email", "tableId": t2, "lookupColId": r.choice(tables[0][1])},
             {"name": attr_names[1], "charId": "Email", "tableId": t1, "lookupColId": r.choice(tables[1][1])}]

    def colids(cols):
      return ["*"] if r.random() < 0.2 else r.sample(cols, r.randint(1, len(cols)))
    variant = {"attrs": attrs, "res": [{"tableId": t1, "colIds": colids(tables[1][1])}, {"tableId": t2, "colIds": colids(tables[0][1])}],
               "reftype": r.choice(["Ref:", "RefList:"]), "plaintype": r.choice(["Text", "ChoiceList", "Choice"])}
    tab = {0: "*", 1: t1, 2: t2}
    # (a reference from the table created first to the later one cannot be declared at creation: not generated)
    contexts = [{"kind": k, "self": tab[s], "choice": tab[c] if c else "", "res": res}
                for k, s, c, res in STD_CONTEXTS]
    return doc_from_variant(variant, contexts, ntexts, tables), attr_names

  def leaf(self, cols, attr_names):
    r = self.r
    k = r.random()
    c = r.choice(cols)
    if k < 0.45:
      return ["Attr", ["Name", r.choice(["rec", "rec", "newRec", "oldRec", "choice", "choice"])], c]
    if k < 0.60:
      return ["Attr", ["Attr", ["Name", "user"], r.choice(attr_names + ["Nope"])], c]
    if k < 0.68:
      return ["Const", r.choice([c, "$" + c, "rec." + c, "\xe9日", 1, 2.5, None, True])]
    if k < 0.76:
      return ["Attr", ["Name", r.choice(["other", "user", "Rec", "record"])], c]
    if k < 0.84:
      return ["Attr", ["Attr", ["Name", r.choice(["rec", "choice", "oldRec"])], r.choice(cols)], c]
    if k < 0.90:
      return ["Name", r.choice([c, "rec", "choice", "user"])]
    return ["Attr", ["Attr", ["Attr", ["Name", "user"], r.choice(attr_names)], c], c]

  def expr(self, d, cols, attr_names):
    r = self.r
    if d <= 0 or r.random() < 0.2:
      return self.leaf(cols, attr_names)
    sub = lambda: self.expr(d - 1, cols, attr_names)   # noqa: E731
    k = r.random()
    if k < 0.2:
      return [r.choice(["And", "Or"])] + [sub() for _ in range(r.choice([2, 2, 3]))]
    if k < 0.28:
      return ["Not", sub()]
    if k < 0.6:
      return [r.choice(["Eq", "NotEq", "Lt", "LtE", "Gt", "GtE", "In", "NotIn", "Is", "IsNot"]), sub(), sub()]
    if k < 0.72:
      return [r.choice(["Add", "Sub", "Mult", "Div", "Mod"]), sub(), sub()]
    if k < 0.8:
      return ["List"] + [sub() for _ in range(r.choice([0, 1, 2, 3]))]
    if k < 0.92:
      args = [sub() for _ in range(r.choice([0, 1, 2]))]
      if r.random() < 0.5:
        args.append(["keywords"] + [[nm, sub()] for nm in r.sample(["k", r.choice(cols), "key"], r.choice([1, 2]))])
      return ["Call", r.choice([["Name", "f"], self.leaf(cols, attr_names)])] + args
    return ["Call", ["Attr", sub(), r.choice(["upper", "lower", r.choice(cols)])]]


def generated_items(seed, n):
  rnd = random.Random(seed)
  g = Gen(rnd)
  items = []
  for _ in range(n):
    ntexts = rnd.choice([1, 2, 3, 4])
    doc, attr_names = g.doc(ntexts)
    (t2, c2), (t1, c1) = doc["tables"]
    cols = sorted(set(c1 + c2))
    fresh = [x for x in NEW if x not in cols]
    # the columns that hold the conditions of the first text can be renamed and mentioned too
    holders = sorted({e["col"] for e in doc["entries"] if e["kind"] == "dc" and e["txt"] == 1 and e["self"] == t1})
    steps, live = [], {t1: list(c1) + holders, t2: list(c2)}
    if rnd.random() < 0.3:
      cols = cols + holders
    for _k in range(rnd.choice([1, 1, 1, 2, 2, 3])):
      t = rnd.choice([t1, t2])
      old = rnd.choice(live[t])
      # new names are distinct within an item: a bulk colId update disambiguates equal new names even
      # across tables, and then the rename that took place is not the one asked for
      new = rnd.choice([x for x in fresh if x not in live[t1] + live[t2]])
      live[t][live[t].index(old)] = new
      steps.append({"t": t, "old": old, "new": new})
    path = rnd.choice(["RenameColumn", "colId", "label", "bulk"])
    texts = []
    for _k in range(ntexts):
      if rnd.random() < 0.92:
        e = g.expr(rnd.choice([1, 2, 2, 3, 3, 4]), cols + (["W"] if rnd.random() < 0.1 else []), attr_names)
        texts.append(text_from_expr(e, rnd.choice(["full", "min", "cmt", "ws"])))
      else:
        texts.append(text_from_bad(rnd.choice(BAD_TEXTS).replace("X", rnd.choice(c1))))
    items.append({"texts": texts, "doc": doc, "steps": with_cp(steps), "path": path})
  return items


def main():
  args = json.loads(sys.argv[1])
  items = json.load(open(args["inp"]))
  cases = []
  for it in items:
    if "texts" in it:
      inps = [it]
    elif "rand" in it:
      inps = generated_items(it["rand"], it["n"])
    else:
      inps = [inp_from_item(it)]
    for inp in inps:
      cases.append(run_item(inp))
  json.dump(cases, open(args["out"], "w"))


if __name__ == "__main__":
  main()
