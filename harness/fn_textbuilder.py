"""
Worker for C37: build the real textbuilder objects for every input tree, record get_text() and the
result of map_back_patch for the requested output ranges.  argv[1] = JSON {"inp": file, "out": file}.

Input:  {"b": node, "ranges": [[s, e], ...], "all": 0|1}
        node = {"k": "T"|"S"|"R"|"C", "text": [code points], "val": int, "kids": [node], "patches": [{s, e, n}]}
        all = 1: call map_back_patch for every non-empty range of the produced text instead of `ranges`.
Case:   {"inp": <input>, "out": {"text": [code points], "maps": [rec, ...]}, "exc": ""}
        rec = {s, e, sent, kind, val, src, ps, pe, old, new}; kind = "patch" (a (text, value, Patch) tuple
        came back), "none" (None came back) or the name of the exception that was raised.
No judgement happens here.
"""
import json
import sys

import textbuilder


def s_of(cps):
  return "".join(chr(c) for c in cps)


def cps_of(s):
  return [ord(c) for c in s]


def build(node):
  k = node["k"]
  if k == "T":
    return textbuilder.Text(s_of(node["text"]), node["val"])
  if k == "S":
    return s_of(node["text"])
  if k == "R":
    kid = build(node["kids"][0])
    text = kid.get_text()
    patches = [textbuilder.make_patch(text, p["s"], p["e"], s_of(p["n"])) for p in node["patches"]]
    # handed over in descending order: the Replacer has to order them itself
    patches.sort(key=lambda p: (p.start, p.end), reverse=True)
    return textbuilder.Replacer(kid, patches)
  if k == "C":
    return textbuilder.Combiner([build(x) for x in node["kids"]])
  raise Exception("bad node kind %r" % (k,))


EMPTY = {"kind": "", "val": 0, "src": [], "ps": 0, "pe": 0, "old": [], "new": []}


def map_back(top, out_text, s, e):
  sent = "Z" * (1 + (s + e) % 2)
  rec = dict(EMPTY, s=s, e=e, sent=cps_of(sent))
  try:
    r = top.map_back_patch(textbuilder.make_patch(out_text, s, e, sent))
  except Exception as ex:   # pylint: disable=broad-except
    rec["kind"] = type(ex).__name__
    return rec
  if r is None:
    rec["kind"] = "none"
    return rec
  try:
    text, value, patch = r
    rec.update(kind="patch", val=value if isinstance(value, int) else -1, src=cps_of(text),
               ps=int(patch.start), pe=int(patch.end), old=cps_of(patch.old_text),
               new=cps_of(patch.new_text))
  except Exception as ex:   # pylint: disable=broad-except
    rec["kind"] = "unreadable:" + type(ex).__name__
  return rec


def run_one(inp):
  try:
    top = build(inp["b"])
    out_text = top.get_text()
  except Exception as ex:   # pylint: disable=broad-except
    return {"inp": inp, "out": {"text": [], "maps": []}, "exc": type(ex).__name__}
  if inp.get("all"):
    n = len(out_text)
    ranges = [(s, e) for s in range(n) for e in range(s + 1, n + 1)]
  else:
    ranges = [tuple(r) for r in inp["ranges"]]
  maps = [map_back(top, out_text, s, e) for s, e in ranges]
  return {"inp": inp, "out": {"text": cps_of(out_text), "maps": maps}, "exc": ""}


def main():
  args = json.loads(sys.argv[1])
  inputs = json.load(open(args["inp"]))
  json.dump([run_one(inp) for inp in inputs], open(args["out"], "w"))


main()
