"""
Seeded random generators of user-action bundles (the `histories` / `inputs` quantifiers).

A generator looks at the live engine only to pick *targets that exist* (tables, columns, row ids);
it never judges anything.  Profiles bias the vocabulary.  Formulas come from a catalogue of
"clean" shapes (every name resolvable when the formula is set, no self-dependency): the
hostile shapes are generated only by the checks that target them (DESIGN.md section 9).
"""
import random
import re

DATA_TYPES = ['Int', 'Numeric', 'Text', 'Bool', 'Any', 'Choice', 'ChoiceList', 'Date']


class DocView(object):
  """Cheap read-only view of what exists in the document."""
  def __init__(self, eng):
    self.eng = eng
    self.tables = {}       # tableId -> {tableRef, cols: {colId: (colRef, type, isFormula, formula)}, rows, summary}
    dm = eng.docmodel
    for t in dm.tables.all:
      tid = t.tableId
      if tid not in eng.tables:
        continue
      cols = {}
      for c in t.columns:
        cols[c.colId] = (c.id, c.type, bool(c.isFormula), c.formula, c)
      self.tables[tid] = {
        "ref": t.id, "cols": cols, "rows": list(eng.tables[tid].row_ids),
        "summary": bool(t.summarySourceTable), "rec": t,
      }

  def user_tables(self, summary=False):
    return sorted(t for t, v in self.tables.items() if summary or not v["summary"])

  def data_cols(self, tid, visible=True):
    return sorted(c for c, v in self.tables[tid]["cols"].items()
                  if not v[2] and c != 'manualSort' and not c.startswith('gristHelper_'))

  def all_cols(self, tid):
    # the 'group' column of a summary table is part of its definition, not a user column
    return sorted(c for c in self.tables[tid]["cols"]
                  if c != 'manualSort' and not c.startswith('gristHelper_')
                  and not (c == 'group' and self.tables[tid]["summary"]))

  def mentioned(self, name):
    """True if any formula text in the document mentions `name` as a word (clean-history rule)."""
    pat = re.compile(r"(?<![A-Za-z0-9_])%s(?![A-Za-z0-9_])" % re.escape(name))
    for t in self.tables.values():
      for c in t["cols"].values():
        if c[3] and pat.search(c[3]):
          return True
    return False

  def sections(self):
    """[(sectionRef, tableRef, viewRef, is_summary_table)] of all view sections"""
    out = []
    for sec in self.eng.docmodel.view_sections.all:
      out.append((sec.id, sec.tableRef.id, sec.parentId.id, bool(sec.tableRef.summarySourceTable)))
    return out

  def views(self):
    return [v.id for v in self.eng.docmodel.views.all]

  def fields(self, tid):
    """[(fieldRef, colRef)] of the fields showing columns of table tid"""
    out = []
    for sec in self.eng.docmodel.view_sections.all:
      if sec.tableRef.tableId == tid:
        for f in sec.fields:
          out.append((f.id, f.colRef.id))
    return out

  def formula_cols(self, tid):
    return sorted(c for c, v in self.tables[tid]["cols"].items()
                  if v[2] and not c.startswith('gristHelper_') and c != 'group')


class Gen(object):
  def __init__(self, seed, profile="general"):
    self.rng = random.Random(seed)
    self.profile = profile
    self.counter = 0

  # ---- small pieces ----
  def fresh(self, prefix):
    self.counter += 1
    return "%s%d" % (prefix, self.counter)

  def value(self, typ, view=None):
    r = self.rng
    base = typ.split(':')[0]
    if r.random() < 0.08:
      return r.choice([None, "", "x", 0, 1.5, True])
    if base == 'Int':
      return r.choice([0, 1, 2, 3, 5, -1, 10])
    if base == 'Numeric':
      return r.choice([0, 1, 2.5, 3, -1.5, 100])
    if base == 'Text':
      return r.choice(["", "a", "b", "c", "hello", "1", u"été"])
    if base == 'Bool':
      return r.choice([True, False])
    if base == 'Choice':
      return r.choice(["", "a", "b", "c"])
    if base == 'ChoiceList':
      return r.choice([None, ['L', 'a'], ['L', 'a', 'b'], ['L', 'c'], ['L', 'b', 'c', 'a']])
    if base == 'Date':
      return r.choice([None, 0, 86400, 1700006400, 1700092800])   # midnights: raw = normalised date
    if base == 'Ref':
      tgt = typ.split(':')[1] if ':' in typ else None
      rows = view.tables[tgt]["rows"] if view and tgt in view.tables else []
      return r.choice(rows + [0]) if rows else 0
    if base == 'RefList':
      tgt = typ.split(':')[1] if ':' in typ else None
      rows = view.tables[tgt]["rows"] if view and tgt in view.tables else []
      if not rows or r.random() < 0.2:
        return None
      k = r.randint(1, min(3, len(rows)))
      return ['L'] + r.sample(rows, k)
    return r.choice([None, 1, "a", 2.5, True])

  def formula(self, view, tid, exclude=(), before=None):
    """
    A clean formula over existing columns of tid (and other tables).  Clean = every name resolves,
    and no cycle can arise: it mentions data columns, and formula columns only if they were created
    before the column being defined (`before` = its colRef; None for a new column).
    """
    r = self.rng
    opts = PROFILE_OPTS.get(self.profile, {})
    def usable(t, c):
      ref, _typ, isf, _f, _rec = view.tables[t]["cols"][c]
      if t == tid and c in exclude:
        return False
      return (not isf) or before is None or ref < before
    cols = [c for c in view.all_cols(tid) if usable(tid, c)]
    dcols = [c for c in view.data_cols(tid) if usable(tid, c)]
    others = [t for t in view.user_tables() if t != tid]
    shapes = []
    if cols:
      c = r.choice(cols)
      shapes += ["$%s" % c, "rec.%s" % c, "($%s or 0) + 1" % c if self._numeric(view, tid, c) else "str($%s)" % c]
    if len(cols) >= 2:
      a, b = r.sample(cols, 2)
      shapes += ["[$%s, $%s]" % (a, b), "$%s if $%s else $%s" % (a, b, b), "($%s, $%s) == ($%s, $%s)" % (a, b, b, a)]
    # references
    for c in cols:
      typ = view.tables[tid]["cols"][c][1]
      if typ.startswith('Ref:') and typ[4:] in view.tables:
        tcols = [x for x in view.all_cols(typ[4:]) if usable(typ[4:], x)]
        if tcols:
          shapes.append("$%s.%s" % (c, r.choice(tcols)))
      if typ.startswith('RefList:') and typ[8:] in view.tables:
        tcols = [x for x in view.all_cols(typ[8:]) if usable(typ[8:], x)]
        if tcols:
          shapes.append("list($%s.%s)" % (c, r.choice(tcols)))
          shapes.append("len($%s)" % c)
    # the same target column reached through two different relations (two Ref columns to one table,
    # a Ref into the own table next to a direct read)
    by_target = {}
    for c in cols:
      typ = view.tables[tid]["cols"][c][1]
      if typ.startswith('Ref:') and typ[4:] in view.tables:
        by_target.setdefault(typ[4:], []).append(c)
    for tgt, rcs in by_target.items():
      tcols = [x for x in view.data_cols(tgt) if usable(tgt, x)]
      if tcols and len(rcs) >= 2:
        a, b = r.sample(rcs, 2)
        x = r.choice(tcols)
        shapes.append("[$%s.%s, $%s.%s]" % (a, x, b, x))
      if tcols and tgt == tid:
        x = r.choice(tcols)
        shapes.append("[$%s, $%s.%s]" % (x, rcs[0], x))
    # lookups into this or another table by a data column
    for t in ([tid] + others)[:3]:
      tcols = [c for c in view.data_cols(t) if usable(t, c)]
      if tcols and dcols:
        k = r.choice(tcols)
        mine = r.choice(dcols)
        shapes.append("len(%s.lookupRecords(%s=$%s))" % (t, k, mine))
        shapes.append("%s.lookupOne(%s=$%s).id" % (t, k, mine))
        shapes.append("sorted(r.id for r in %s.lookupRecords(%s=$%s))" % (t, k, mine))
        if len(tcols) >= 2:
          k2 = r.choice([c for c in tcols if c != k])
          if opts.get("sorted_lookups"):
            shapes.append("[r.id for r in %s.lookupRecords(%s=$%s, order_by='-%s')]" % (t, k, mine, k2))
          shapes.append("sorted(%s.lookupRecords(%s=$%s).%s, key=repr)" % (t, k, mine, k2))
          if len(tcols) >= 3:
            k3 = r.choice([c for c in tcols if c not in (k, k2)])
            shapes.append("[sorted(%s.lookupRecords(%s=$%s).%s, key=repr), sorted(%s.lookupRecords(%s=$%s).%s, key=repr)]"
                          % (t, k, mine, k3, t, k2, mine, k3))
    if not shapes:
      shapes = ["1", "'x'", "None", "rec.id * 2"]
    shapes += ["$id", "1 + 1"]
    return r.choice(shapes)

  def _numeric(self, view, tid, c):
    return view.tables[tid]["cols"][c][1] in ('Int', 'Numeric')

  # ---- user actions ----
  def ua_add_table(self, view):
    r = self.rng
    name = self.fresh("T")
    cols = []
    for i in range(r.randint(1, 3)):
      cid = "c%d" % (i + 1) if r.random() < 0.5 else self.fresh("k")
      typ = r.choice(DATA_TYPES)
      others = view.user_tables()
      if others and r.random() < 0.3:
        typ = r.choice(['Ref:', 'RefList:']) + r.choice(others)
      cols.append({'id': cid, 'type': typ, 'isFormula': False, 'formula': ''})
    return ['AddTable', name, cols]

  def ua_add_records(self, view, tid):
    r = self.rng
    dcols = view.data_cols(tid)
    n = r.randint(1, 3)
    cols = r.sample(dcols, r.randint(0, len(dcols))) if dcols else []
    vals = {c: [self.value(view.tables[tid]["cols"][c][1], view) for _ in range(n)] for c in cols}
    if n == 1 and r.random() < 0.5:
      return ['AddRecord', tid, None, {c: v[0] for c, v in vals.items()}]
    return ['BulkAddRecord', tid, [None] * n, vals]

  def ua_update_records(self, view, tid):
    r = self.rng
    rows = view.tables[tid]["rows"]
    dcols = view.data_cols(tid)
    if not rows or not dcols:
      return None
    ids = r.sample(rows, r.randint(1, min(3, len(rows))))
    if len(ids) >= 2 and r.random() < 0.15:
      ids.append(ids[0])         # a row named twice in one bulk update is legal: the last value wins
    cols = r.sample(dcols, r.randint(1, min(2, len(dcols))))
    vals = {c: [self.value(view.tables[tid]["cols"][c][1], view) for _ in ids] for c in cols}
    if len(ids) == 1 and r.random() < 0.5:
      return ['UpdateRecord', tid, ids[0], {c: v[0] for c, v in vals.items()}]
    return ['BulkUpdateRecord', tid, ids, vals]

  def ua_replace_data(self, view, tid):
    r = self.rng
    if view.tables[tid]["summary"]:
      return None
    dcols = view.data_cols(tid)
    n = r.randint(0, 3)
    ids = sorted(r.sample(range(1, 8), n))
    vals = {c: [self.value(view.tables[tid]["cols"][c][1], view) for _ in ids] for c in dcols}
    return ['ReplaceTableData', tid, ids, vals]

  def ua_remove_records(self, view, tid):
    r = self.rng
    rows = view.tables[tid]["rows"]
    if not rows:
      return None
    ids = r.sample(rows, r.randint(1, min(2, len(rows))))
    if len(ids) == 1 and r.random() < 0.5:
      return ['RemoveRecord', tid, ids[0]]
    return ['BulkRemoveRecord', tid, ids]

  def ua_add_column(self, view, tid):
    r = self.rng
    cid = self.fresh(r.choice(["A", "B", "col", "x"]))
    if r.random() < 0.5:
      f = self.formula(view, tid)
      typ = r.choice(['Any', 'Any', 'Int', 'Text', 'Numeric'])
      return ['AddColumn', tid, cid, {'type': typ, 'isFormula': True, 'formula': f}]
    typ = r.choice(DATA_TYPES)
    others = view.user_tables()
    if others and r.random() < 0.3:
      typ = r.choice(['Ref:', 'RefList:']) + r.choice(others)
    formula = ''
    if r.random() < 0.2:
      # a data column with a default formula (evaluated for new records only)
      base = typ.split(':')[0]
      # (a default formula that raises leaves an error value in a DATA cell: for types whose default is
      # None the error remembers "previous value None")
      formula = {'Ref': '1', 'RefList': '[1]', 'Int': '7', 'Numeric': '1.5', 'Text': '"dflt"',
                 'Any': '1/0', 'Date': '1/0', 'ChoiceList': '1/0', 'Choice': '1/0'}.get(base, '')
    return ['AddColumn', tid, cid, {'type': typ, 'isFormula': False, 'formula': formula}]

  def ua_make_trigger(self, view, tid):
    """Turn a data column into a TRIGGER-formula column: a formula that is re-run when one of its recalcDeps
    cells changes (recalcWhen 0) or on every manual update of the record (recalcWhen 2).  Some of the
    formulas depend on the cell's own stored value (`value`), so that an extra or a missing evaluation
    shows."""
    r = self.rng
    t = view.tables[tid]
    if t["summary"]:
      return None
    dcols = [c for c in view.data_cols(tid)
             if t["cols"][c][1] in ('Int', 'Numeric', 'Text', 'Any') and not getattr(t["cols"][c][4], 'recalcDeps', None)]
    if len(dcols) < 2:
      return None
    c = r.choice(dcols)
    dep = r.choice([d for d in dcols if d != c])
    typ = t["cols"][c][1]
    if typ in ('Int', 'Numeric'):
      f = r.choice(['(value or 0) + 1', '(value or 0) + 1', 'len(str($%s))' % dep])
    elif typ == 'Text':
      f = r.choice(['"t%%s" %% ($%s,)' % dep, '(value or "")[:3] + "x"'])
    else:
      f = r.choice(['(value or 0) + 1 if not isinstance(value, str) else 1', '$%s' % dep])
    when = r.choice([0, 0, 2])
    return ['UpdateRecord', '_grist_Tables_column', t["cols"][c][0],
            {'formula': f, 'recalcWhen': when, 'recalcDeps': ['L', t["cols"][dep][0]] if when == 0 else None}]

  def ua_remove_column(self, view, tid):
    # clean-history rule: never remove something a formula still mentions (stale/NameError zone,
    # explored separately by the C05 check)
    cols = [c for c in view.all_cols(tid) if not view.mentioned(c)]
    if not cols:
      return None
    return ['RemoveColumn', tid, self.rng.choice(cols)]

  def ua_rename_column(self, view, tid):
    cols = view.all_cols(tid)
    if not cols:
      return None
    return ['RenameColumn', tid, self.rng.choice(cols), self.fresh(self.rng.choice(["R", "ren", "Z"]))]

  def ua_modify_column(self, view, tid):
    r = self.rng
    cols = view.all_cols(tid)
    if not cols:
      return None
    c = r.choice(cols)
    _, typ, isf, formula, _rec = view.tables[tid]["cols"][c]
    k = r.random()
    ref = view.tables[tid]["cols"][c][0]
    if isf:
      if k < 0.6:
        return ['ModifyColumn', tid, c, {'formula': self.formula(view, tid, exclude=(c,), before=ref)}]
      if k < 0.8:
        return ['ModifyColumn', tid, c, {'type': r.choice(['Any', 'Int', 'Text', 'Numeric'])}]
      return ['ModifyColumn', tid, c, {'isFormula': False}]
    if k < 0.7:
      if typ.split(':')[0] in ('ChoiceList', 'RefList') and _rec.summaryGroupByColumns:
        return None    # known finding F-C12-list-values-in-any-groupby (scripted witness covers it)
      newt = r.choice(DATA_TYPES)
      others = view.user_tables()
      if others and r.random() < 0.25:
        newt = r.choice(['Ref:', 'RefList:']) + r.choice(others)
      return ['ModifyColumn', tid, c, {'type': newt}]
    if view.mentioned(c):
      return None     # clean-history rule: a mentioned data column does not turn into a formula
    return ['ModifyColumn', tid, c, {'isFormula': True, 'formula': self.formula(view, tid, exclude=(c,), before=ref)}]

  def ua_rename_table(self, view, tid):
    return ['RenameTable', tid, self.fresh("N")]

  def ua_remove_table(self, view, tid):
    if view.mentioned(tid) or any(view.mentioned(c) for c in view.all_cols(tid)):
      return None
    for t in view.tables.values():
      for c in t["cols"].values():
        if c[1] in ('Ref:' + tid, 'RefList:' + tid):
          return None
    return ['RemoveTable', tid]

  def ua_meta_label(self, view, tid):
    cols = view.all_cols(tid)
    if not cols:
      return None
    c = self.rng.choice(cols)
    ref = view.tables[tid]["cols"][c][0]
    return ['UpdateRecord', '_grist_Tables_column', ref, {'label': self.fresh("Label ")}]

  # ---- views / sections / summaries ----
  def ua_add_view(self, view, tid):
    return ['AddView', tid, self.rng.choice(['raw_data', 'empty']), self.fresh("Page ")]

  def ua_create_section(self, view, tid):
    r = self.rng
    tref = view.tables[tid]["ref"]
    views = view.views()
    vref = r.choice(views + [0]) if views else 0
    return ['CreateViewSection', tref, vref, r.choice(['record', 'detail', 'chart']), None, None]

  @staticmethod
  def _lists_in_plain_column(view, tid, col_id):
    """A column that is not of a list type but holds list values (a ChoiceList column converted to Any keeps
    them): grouping by it is the known finding F-C12-list-values-in-any-groupby, kept to its witness."""
    try:
      table = view.eng.tables[tid]
      col = table.get_column(col_id)
      if col.type_obj.typename() in ('ChoiceList', 'RefList'):
        return False
      return any(isinstance(col.raw_get(r), (list, tuple)) for r in table.row_ids)
    except Exception:   # pylint: disable=broad-except
      return False

  def ua_create_summary(self, view, tid):
    r = self.rng
    if view.tables[tid]["summary"]:
      return None
    tref = view.tables[tid]["ref"]
    dcols = [c for c in view.data_cols(tid) if not self._lists_in_plain_column(view, tid, c)]
    k = r.randint(0, min(2, len(dcols)))
    chosen = r.sample(dcols, k)
    listcols = [c for c in dcols if view.tables[tid]["cols"][c][1].split(':')[0] in ('ChoiceList', 'RefList')]
    if listcols and r.random() < 0.5:
      chosen = (chosen[:1] + [r.choice(listcols)]) if r.random() < 0.5 else [r.choice(listcols)]
    gb = sorted({view.tables[tid]["cols"][c][0] for c in chosen})
    views = view.views()
    vref = r.choice(views + [0]) if views else 0
    return ['CreateViewSection', tref, vref, 'record', gb, None]

  def ua_update_summary(self, view, tid):
    r = self.rng
    # only sections placed on a page: the raw / record-card sections of a summary table are not
    # something a user can regroup
    secs = [s for s in view.sections() if s[3] and s[2]]
    if not secs:
      return None
    sec = r.choice(secs)
    trec = view.eng.docmodel.tables.table.get_record(sec[1])
    src = trec.summarySourceTable
    dcols = [c for c in src.columns if not c.isFormula and c.colId != 'manualSort'
             and not c.colId.startswith('gristHelper_')
             and not self._lists_in_plain_column(view, src.tableId, c.colId)]
    k = r.randint(0, min(2, len(dcols)))
    gb = sorted(c.id for c in r.sample(dcols, k))
    return ['UpdateSummaryViewSection', sec[0], gb]

  def ua_detach_summary(self, view, tid):
    secs = [s for s in view.sections() if s[3] and s[2]]
    if not secs:
      return None
    return ['DetachSummaryViewSection', self.rng.choice(secs)[0]]

  def ua_remove_section(self, view, tid):
    secs = [s for s in view.sections() if s[2]]      # sections that belong to a view (not raw/card)
    if not secs:
      return None
    return ['RemoveViewSection', self.rng.choice(secs)[0]]

  def ua_remove_view(self, view, tid):
    views = view.views()
    if len(views) < 2:
      return None
    return ['RemoveView', self.rng.choice(views)]

  def ua_add_summary_formula(self, view, tid):
    r = self.rng
    sums = [t for t in view.user_tables(summary=True) if view.tables[t]["summary"]]
    if not sums:
      return None
    t = r.choice(sums)
    src = view.tables[t]["rec"].summarySourceTable.tableId
    scols = [c for c in view.data_cols(src)] if src in view.tables else []
    f = "len($group)" if not scols or r.random() < 0.4 else "sorted($group.%s, key=repr)" % r.choice(scols)
    return ['AddColumn', t, self.fresh("s"), {'type': 'Any', 'isFormula': True, 'formula': f}]

  # ---- display columns, rules, two-way references, choices ----
  def ua_ref_into_summary(self, view, tid):
    """A formula column of type Ref:<summary table> that looks its summary row up (then display columns
    can hang off it: removing the summary table's last widget makes a chain of auto-removals)."""
    r = self.rng
    sums = [t for t in view.user_tables(summary=True) if view.tables[t]["summary"]]
    r.shuffle(sums)
    for s in sums:
      rec = view.tables[s]["rec"]
      src = rec.summarySourceTable.tableId
      gb = [c for c in rec.columns if c.summarySourceCol]
      if src in view.tables and len(gb) == 1 and not view.tables[src]["summary"]:
        k = gb[0].colId
        srck = gb[0].summarySourceCol.colId
        return ['AddColumn', src, self.fresh("summ"), {'type': 'Ref:' + s, 'isFormula': True,
                                                       'formula': '%s.lookupOne(%s=$%s)' % (s, k, srck)}]
    return None

  def ua_display_formula(self, view, tid):
    r = self.rng
    refcols = [c for c in view.all_cols(tid) if view.tables[tid]["cols"][c][1].startswith('Ref')]
    if not refcols:
      return None
    c = r.choice(refcols)
    cref, typ = view.tables[tid]["cols"][c][0], view.tables[tid]["cols"][c][1]
    tgt = typ.split(':')[1]
    if tgt not in view.tables:
      return None
    tcols = view.data_cols(tgt) or [x for x in view.all_cols(tgt) if x != 'group']
    if not tcols:
      return None
    formula = "$%s.%s" % (c, r.choice(tcols)) if r.random() < 0.8 else ""
    fields = [f for f in view.fields(tid) if f[1] == cref]
    if fields and r.random() < 0.4:
      return ['SetDisplayFormula', tid, r.choice(fields)[0], None, formula]
    return ['SetDisplayFormula', tid, None, cref, formula]

  def ua_add_rule(self, view, tid):
    r = self.rng
    cols = view.all_cols(tid)
    if not cols:
      return None
    # prefer columns that already carry helper columns (rules, display column): removing such a column
    # later drags several helpers with it
    loaded = [c for c in cols if getattr(view.tables[tid]["cols"][c][4], 'rules', None)
              or getattr(view.tables[tid]["cols"][c][4], 'displayCol', 0)]
    if loaded and r.random() < 0.6:
      return ['AddEmptyRule', tid, 0, view.tables[tid]["cols"][r.choice(loaded)][0]]
    cref = view.tables[tid]["cols"][r.choice(cols)][0]
    fields = view.fields(tid)
    if fields and r.random() < 0.4:
      return ['AddEmptyRule', tid, r.choice(fields)[0], 0]
    return ['AddEmptyRule', tid, 0, cref]

  def ua_add_reverse(self, view, tid):
    r = self.rng
    refcols = [c for c in view.data_cols(tid) if view.tables[tid]["cols"][c][1].startswith('Ref')
               and not view.tables[tid]["cols"][c][4].reverseCol]
    if not refcols:
      return None
    return ['AddReverseColumn', tid, r.choice(refcols)]

  def ua_add_ref_column(self, view, tid):
    r = self.rng
    others = view.user_tables()
    typ = r.choice(['Ref:', 'RefList:']) + r.choice(others)
    formula = ('1' if typ.startswith('Ref:') else '[1]') if r.random() < 0.3 else ''
    return ['AddColumn', tid, self.fresh("ref"), {'type': typ, 'isFormula': False, 'formula': formula}]

  def ua_switch_ref_type(self, view, tid):
    r = self.rng
    refcols = [c for c in view.data_cols(tid) if view.tables[tid]["cols"][c][1].startswith('Ref')]
    if not refcols:
      return None
    c = r.choice(refcols)
    typ = view.tables[tid]["cols"][c][1]
    base, tgt = typ.split(':')
    return ['ModifyColumn', tid, c, {'type': ('RefList:' if base == 'Ref' else 'Ref:') + tgt}]

  def ua_update_refs(self, view, tid):
    r = self.rng
    rows = view.tables[tid]["rows"]
    refcols = [c for c in view.data_cols(tid) if view.tables[tid]["cols"][c][1].startswith('Ref')]
    if not rows or not refcols:
      return None
    ids = r.sample(rows, r.randint(1, min(3, len(rows))))
    c = r.choice(refcols)
    vals = {c: [self.value(view.tables[tid]["cols"][c][1], view) for _ in ids]}
    return ['BulkUpdateRecord', tid, ids, vals]

  def ua_rename_choices(self, view, tid):
    r = self.rng
    ccols = [c for c in view.data_cols(tid) if view.tables[tid]["cols"][c][1] in ('Choice', 'ChoiceList')]
    if not ccols:
      return None
    m = r.choice([{"a": "b", "b": "a"}, {"a": "z"}, {"a": "b", "b": "c"}, {"c": "a"}, {"x": "y"}])
    return ['RenameChoices', tid, r.choice(ccols), m]

  def ua_invalid(self, view):
    r = self.rng
    tabs = view.user_tables()
    choices = [['AddRecord', 'NoSuchTable', None, {}],
               ['RemoveColumn', tabs[0] if tabs else 'X', 'no_such_col'],
               ['UpdateRecord', tabs[0] if tabs else 'X', 999999, {}],
               ['RenameTable', 'NoSuchTable', 'Y'],
               ['NoSuchAction'],
               ['ModifyColumn', tabs[0] if tabs else 'X', 'nope', {'type': 'Int'}]]
    choices.append(['AddTable', self.fresh("Bad"), [{'id': 'A', 'type': 'Integer', 'isFormula': False, 'formula': ''}]])
    choices.append(['AddTable', self.fresh("Bad"), [{'id': 'A', 'type': 'Any', 'isFormula': True, 'formula': '1 +\f 2\n  x'}]])
    if tabs:
      t = r.choice(tabs)
      choices.append(['AddColumn', t, self.fresh("bad"), {'type': 'Integer', 'isFormula': False, 'formula': ''}])
      if view.all_cols(t):
        c = r.choice(view.all_cols(t))
        choices.append(['ModifyColumn', t, c, {'type': 'Foo'}])
        choices.append(['ModifyColumn', t, c, {'isFormula': True, 'formula': 'global rec\nrec'}])
      cols = view.all_cols(t)
      if cols:
        choices.append(['RenameColumn', t, cols[0], cols[-1] if len(cols) > 1 else 'id'])
        choices.append(['AddColumn', t, cols[0], {'type': 'Int', 'isFormula': False, 'formula': ''}])
      choices.append(['AddTable', t, [{'id': 'A', 'type': 'Int', 'isFormula': False, 'formula': ''}]])
    return r.choice(choices)

  # ---- profile set-up: a few bundles that make the interesting structures exist early ----
  def setup_bundles(self):
    r = self.rng
    col = lambda i, t: {'id': i, 'type': t, 'isFormula': False, 'formula': ''}
    if self.profile in ("twoway", "refs"):
      out = [
        [['AddTable', 'People', [col('name', 'Text'), col('age', 'Int')]]],
        [['AddTable', 'Tasks', [col('title', 'Text'), col('owner', 'Ref:People'),
                                col('helpers', 'RefList:People'), col('tag', 'Choice')]]],
        [['BulkAddRecord', 'People', [None] * 4, {'name': ['a', 'b', 'c', 'd'], 'age': [1, 2, 3, 2]}]],
        [['BulkAddRecord', 'Tasks', [None] * 4, {'title': ['t1', 't2', 't3', 't4'], 'owner': [1, 2, 0, 2],
                                                'helpers': [['L', 1, 2], None, ['L', 3], ['L', 2, 4]]}]],
        # one column of People reached through two different relations, and through a RefList
        [['AddColumn', 'Tasks', 'reviewer', col('reviewer', 'Ref:People')],
         ['AddColumn', 'Tasks', 'pair', {'type': 'Any', 'isFormula': True, 'formula': '[$owner.name, $reviewer.name]'}],
         ['AddColumn', 'Tasks', 'hnames', {'type': 'Any', 'isFormula': True, 'formula': 'list($helpers.name)'}]],
        [['BulkUpdateRecord', 'Tasks', [1, 2, 3], {'reviewer': [2, 3, 1]}]],
      ]
      if self.profile == "twoway":
        out.append([['AddReverseColumn', 'Tasks', r.choice(['owner', 'helpers'])]])
        if r.random() < 0.5:
          out.append([['AddReverseColumn', 'Tasks', 'owner'], ['AddReverseColumn', 'Tasks', 'helpers']][r.random() < 0.5:][:1])
      return out
    if self.profile == "summary":
      return [
        [['AddTable', 'People', [col('name', 'Text')]]],
        [['AddTable', 'Orders', [col('amount', 'Int'), col('kind', 'Choice'), col('tags', 'ChoiceList'),
                                 col('who', 'RefList:People'), col('buyer', 'Ref:People')]]],
        [['BulkAddRecord', 'People', [None] * 3, {'name': ['a', 'b', 'c']}]],
        [['BulkAddRecord', 'Orders', [None] * 5, {
          'amount': [1, 2, 1, 3, 2], 'kind': ['a', 'b', 'a', '', 'c'],
          'tags': [['L', 'a', 'b'], None, ['L', 'b'], ['L'], ['L', 'a', 'a']],
          'who': [['L', 1, 2], None, ['L', 3], ['L', 2], None], 'buyer': [1, 2, 0, 3, 1]}]],
      ]
    if self.profile == "views":
      return [
        [['AddTable', 'People', [col('name', 'Text'), col('age', 'Int')]]],
        [['AddTable', 'Tasks', [col('title', 'Text'), col('owner', 'Ref:People')]]],
        [['BulkAddRecord', 'People', [None] * 3, {'name': ['a', 'b', 'c'], 'age': [1, 2, 3]}]],
        [['BulkAddRecord', 'Tasks', [None] * 3, {'title': ['t1', 't2', 't3'], 'owner': [1, 2, 0]}]],
      ]
    return []

  # ---- bundle ----
  def user_action(self, view):
    r = self.rng
    tabs = view.user_tables()
    if not tabs or (len(tabs) < 3 and r.random() < 0.15):
      return self.ua_add_table(view)
    t = r.choice(tabs)
    weights = PROFILES[self.profile]
    names = list(weights)
    name = r.choices(names, [weights[n] for n in names])[0]
    fn = getattr(self, "ua_" + name)
    if name in ("add_table", "invalid"):
      return fn(view)
    return fn(view, t)

  def bundle(self, view, max_len=3, invalid_prob=0.0):
    r = self.rng
    max_len = PROFILE_OPTS.get(self.profile, {}).get("max_len", max_len)
    n = 1 if r.random() < 0.6 else r.randint(2, max_len)
    out = []
    for _ in range(n):
      ua = None
      for _try in range(5):
        ua = self.user_action(view)
        if ua:
          break
      if ua:
        out.append(ua)
    # Restructuring of summary tables / view sections is sent alone, the way the UI sends it: combined
    # with other actions in one bundle the generator's view of the document is stale (the first action
    # renames or removes the summary table the second one names), and the engine's undo of such bundles is
    # a known finding (F-C01-undo-raises-summary-multi), explored by a dedicated profile only.
    if self.profile != "summary-multi":
      has_summary = any(v["summary"] for v in view.tables.values())
      for ua in out:
        if ua[0] in RESTRUCTURING and not (ua[0] == 'CreateViewSection' and ua[4] is None):
          return [ua]
        if has_summary and ua[0] in SCHEMA_UAS and not (ua[0] == 'ModifyColumn' and 'type' not in ua[3]):
          return [ua]       # schema changes reshape summary tables too (formula / isFormula edits do not)
    # "edit, then reshape the same column" in one bundle: the value change and the removal / rename / type
    # change of a data column meet in the undo list and in the calc summary of the same bundle
    final = []
    for ua in out:
      if ua[0] in ('RemoveColumn', 'RenameColumn', 'ModifyColumn') and r.random() < 0.35:
        tid, cid = ua[1], ua[2]
        t = view.tables.get(tid)
        if t and not t["summary"] and t["rows"] and cid in view.data_cols(tid):
          ids = r.sample(t["rows"], r.randint(1, min(2, len(t["rows"]))))
          vals = [self.value(t["cols"][cid][1], view) for _ in ids]
          final.append(['UpdateRecord', tid, ids[0], {cid: vals[0]}] if len(ids) == 1
                       else ['BulkUpdateRecord', tid, ids, {cid: vals}])
      final.append(ua)
    out = final
    if invalid_prob and r.random() < invalid_prob:
      out.append(self.ua_invalid(view))
    return out


RESTRUCTURING = ('UpdateSummaryViewSection', 'DetachSummaryViewSection', 'CreateViewSection',
                 'RemoveViewSection', 'RemoveView')

SCHEMA_UAS = ('RemoveColumn', 'RenameColumn', 'ModifyColumn', 'RenameTable', 'RemoveTable')

PROFILE_OPTS = {
  "lookups": {"sorted_lookups": True},
}

PROFILES = {
  "views": {"add_records": 12, "update_records": 10, "remove_records": 5, "add_column": 8,
            "remove_column": 5, "rename_column": 4, "modify_column": 5, "rename_table": 2,
            "remove_table": 3, "add_table": 4, "add_view": 6, "create_section": 10, "remove_section": 8,
            "remove_view": 5, "display_formula": 8, "add_rule": 6, "add_ref_column": 5},
  "summary": {"ref_into_summary": 5, "display_formula": 6, "remove_view": 3, "add_records": 18, "update_records": 18, "remove_records": 10, "add_column": 5,
              "remove_column": 3, "rename_column": 4, "modify_column": 6, "rename_table": 2,
              "add_table": 2, "create_summary": 12, "update_summary": 8, "detach_summary": 3,
              "remove_section": 6, "add_summary_formula": 6},
  "twoway": {"add_records": 14, "update_records": 6, "update_refs": 25, "remove_records": 12,
             "add_ref_column": 8, "add_reverse": 12, "switch_ref_type": 8, "remove_column": 4,
             "rename_column": 3, "add_table": 3, "remove_table": 1},
  "refs": {"make_trigger": 2, "replace_data": 3, "add_records": 18, "update_records": 8, "update_refs": 22, "remove_records": 22,
           "add_ref_column": 10, "add_column": 5, "modify_column": 4, "remove_table": 2, "add_table": 4,
           "rename_choices": 4},
  "general": {"make_trigger": 5, "add_records": 20, "update_records": 20, "remove_records": 8, "add_column": 10,
              "remove_column": 4, "rename_column": 5, "modify_column": 8, "rename_table": 2,
              "remove_table": 1, "add_table": 3, "meta_label": 2},
  "records": {"make_trigger": 5, "add_records": 35, "update_records": 35, "remove_records": 15, "add_column": 5,
              "modify_column": 3, "add_table": 2, "replace_data": 4},
  "schema": {"make_trigger": 5, "add_records": 10, "update_records": 10, "remove_records": 4, "add_column": 15,
             "remove_column": 10, "rename_column": 12, "modify_column": 18, "rename_table": 6,
             "remove_table": 3, "add_table": 6, "meta_label": 6},
}
