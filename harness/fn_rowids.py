"""
Worker for C27: run the real AddRecord / BulkAddRecord / ReplaceTableData user actions of
/repo/sandbox/grist on one table and write judgement-free cases for spec/Trace_RowIds.tla.
argv[1] = JSON {"inp": <inputs file>, "out": <cases file>}.

An input is a history on ONE table:
  {"rows": [ids that exist at the start], "gone": [ids that were added and removed again at set-up],
   "steps": [{"kind": "AddRecord"|"BulkAddRecord"|"ReplaceTableData",
              "req": [{"k": "N", "v": 0} (None) | {"k": "I", "v": <int>}, ...]}, ...]}

A case is {"inp": input, "out": [one observation per step], "exc": ""} with the observation
  exc     ""  or the class name of the exception the user action raised
  retk    "ids" (retValue is an id / a list of ids), "none" (None), "other", "" (raised)
  ret     the returned ids as a list ([] unless retk = "ids")
  before  row ids of fetch_table before the step        after   ... after the step
  view    row ids in Table.row_ids after the step (the engine's own row id set)
  held    for every position of the request: the id of the row that now holds that record's value,
          -1 if no row holds it (each requested record carries a distinct value in column A)
  dig0 / dig1   31-bit digests of the whole document (every table, metadata included) before/after

Nothing is judged here.  The table is created fresh for every history (AddRawTable), rows of the
set-up are created at doc-action level so that the code under test is not used to prepare its input.
"""
import json
import sys
import zlib

import adapter
import actions

KINDS = ("AddRecord", "BulkAddRecord", "ReplaceTableData")
ENGINE_REUSE = 150          # histories per engine


def decode_req(req):
  return [None if r["k"] == "N" else int(r["v"]) for r in req]


def digest(eng):
  snap = adapter.fetch_all(eng)
  blob = json.dumps(snap, sort_keys=True, default=repr)
  return zlib.crc32(blob.encode("utf8")) & 0x3fffffff


def rows_of(eng, table_id):
  td = eng.fetch_table(table_id, formulas=True)
  return [int(r) for r in td.row_ids], list(td.columns["A"])


def as_ids(val):
  """(retk, ids) for one retValue."""
  if val is None:
    return "none", []
  if isinstance(val, int) and not isinstance(val, bool):
    return "ids", [val]
  if isinstance(val, list) and all(isinstance(x, int) and not isinstance(x, bool) for x in val):
    return "ids", [int(x) for x in val]
  return "other", []


class Runner(object):
  def __init__(self):
    self.eng = None
    self.used = 0
    self.serial = 0

  def engine(self):
    if self.eng is None or self.used >= ENGINE_REUSE:
      self.eng = adapter.new_engine()
      adapter.apply(self.eng, [["InitNewDoc"]])
      self.used = 0
    self.used += 1
    return self.eng

  def run(self, inp):
    eng = self.engine()
    self.serial += 1
    tid = "T"
    adapter.apply(eng, [["AddRawTable", tid, [{"id": "A", "type": "Int", "isFormula": False}]]])
    try:
      return self._history(eng, tid, inp)
    except Exception:      # the engine itself is in doubt: do not reuse it
      self.eng = None
      raise
    finally:
      if self.eng is not None:
        try:
          adapter.apply(eng, [["RemoveTable", tid]])
        except Exception:   # pylint: disable=broad-except
          self.eng = None

  def _history(self, eng, tid, inp):
    setup = sorted(set(inp["rows"]) | set(inp.get("gone", [])))
    if setup:
      # doc-action level set-up (what loading/replaying a stored action does), not the user action
      eng.apply_user_actions([adapter.useractions.from_repr(
        ["ApplyDocActions", [["BulkAddRecord", tid, setup, {"A": [-r for r in setup]}]]])])
    if inp.get("gone"):
      adapter.apply(eng, [["BulkRemoveRecord", tid, sorted(inp["gone"])]])
    obs = []
    value = 1000
    for step in inp["steps"]:
      kind, req = step["kind"], decode_req(step["req"])
      vals = list(range(value, value + len(req)))
      value += len(req) + 1
      before, _ = rows_of(eng, tid)
      dig0 = digest(eng)
      o = {"exc": "", "retk": "", "ret": [], "before": before}
      try:
        if kind == "AddRecord":
          ua = ["AddRecord", tid, req[0], {"A": vals[0]}]
        else:
          ua = [kind, tid, req, {"A": vals}]
        reply = adapter.apply(eng, [ua])
        o["retk"], o["ret"] = as_ids(reply["retValues"][0])
      except Exception as e:   # pylint: disable=broad-except
        o["exc"] = type(e).__name__
      after, acol = rows_of(eng, tid)
      o["after"] = after
      o["view"] = sorted(int(r) for r in eng.tables[tid].row_ids)
      o["held"] = [(after[acol.index(v)] if v in acol else -1) for v in vals]
      o["dig0"], o["dig1"] = dig0, digest(eng)
      obs.append(o)
    return obs


def main():
  args = json.loads(sys.argv[1])
  inputs = json.load(open(args["inp"]))
  runner = Runner()
  cases = []
  for inp in inputs:
    inp = {"rows": list(inp["rows"]), "gone": list(inp.get("gone", [])),
           "steps": [{"kind": s["kind"], "req": [dict(r) for r in s["req"]]} for s in inp["steps"]]}
    cases.append({"inp": inp, "out": runner.run(inp), "exc": ""})
  json.dump(cases, open(args["out"], "w"))


if __name__ == "__main__":
  main()
