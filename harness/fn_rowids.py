"""
Worker for C27: run the real AddRecord / BulkAddRecord / ReplaceTableData user actions of
/repo/sandbox/grist on one table and write judgement-free cases for spec/Trace_RowIds.tla.
argv[1] = JSON {"inp": <inputs file>, "out": <cases file>}.

An input is a history on ONE table:
  {"rows": [ids that exist at the start], "gone": [ids that were added and removed again at set-up],
   "steps": [{"kind": "AddRecord"|"BulkAddRecord"|"ReplaceTableData",
              "req": [{"k": "N", "v": 0} (None) | {"k": "I", "v": <int>}, ...]}, ...]}

A case is {"inp": input, "out": [one observation per step], "exc": ""} with the observation
  exc     ""  or the class name of the exception the user action raised
  retk    "ids" (retValue is an id / a list of ids), "none" (None), "other", "" (raised)
  ret     the returned ids as a list ([] unless retk = "ids")
  before  row ids of fetch_table before the step        after   ... after the step
  view    row ids in Table.row_ids after the step (the engine's own row id set)
  again   row ids of a follow-up fetch_table after the step
  held    for every position of the request: the id of the row that now holds that record's value,
          -1 if no row holds it (each requested record carries a distinct value in column A)
  dig0 / dig1   31-bit digests of the whole document (every table, metadata included) before/after

Nothing is judged here.  The table is emptied and re-filled at doc-action level before every history
(see Runner), so that the code under test is not used to prepare its own input; the worker only
insists that this set-up produced the rows of the input (else MachineryError).
"""
import json
import sys
import zlib

import adapter

TABLE = "T"
ENGINE_REUSE = 400          # histories per engine


def decode_req(req):
  return [None if r["k"] == "N" else int(r["v"]) for r in req]


def digest(snap):
  blob = json.dumps(snap, sort_keys=True, default=repr)
  return zlib.crc32(blob.encode("utf8")) & 0x3fffffff


def doc_apply(eng, doc_action_reprs):
  eng.apply_user_actions([adapter.useractions.from_repr(["ApplyDocActions", doc_action_reprs])])


def as_ids(val):
  """(retk, ids) for one retValue."""
  if val is None:
    return "none", []
  if isinstance(val, int) and not isinstance(val, bool):
    return "ids", [val]
  if isinstance(val, list) and all(isinstance(x, int) and not isinstance(x, bool) for x in val):
    return "ids", [int(x) for x in val]
  return "other", []


class Runner(object):
  """One engine and one table "T" for up to ENGINE_REUSE histories; the table is emptied and
  re-filled at doc-action level (docactions.ReplaceTableData -> Engine.load_table clears every
  column) before each history, so no history sees cells, sizes or row ids of an earlier one."""

  def __init__(self):
    self.eng = None
    self.used = 0

  def engine(self):
    if self.eng is None or self.used >= ENGINE_REUSE:
      self.eng = adapter.new_engine()
      adapter.apply(self.eng, [["InitNewDoc"]])
      adapter.apply(self.eng, [["AddTable", TABLE, [{"id": "A", "type": "Int", "isFormula": False}]]])
      self.used = 0
    self.used += 1
    return self.eng

  def run(self, inp):
    eng = self.engine()
    try:
      return self._history(eng, inp)
    except Exception:      # the engine itself is in doubt: do not reuse it
      self.eng = None
      raise

  def _history(self, eng, inp):
    rows, gone = sorted(set(inp["rows"])), sorted(set(inp.get("gone", [])))
    setup = sorted(set(rows) | set(gone))
    # doc-action level set-up (what replaying a stored action does), not the user actions under test
    doc_apply(eng, [["ReplaceTableData", TABLE, setup,
                     {"A": [-r for r in setup], "manualSort": [float(r) for r in setup]}]])
    if gone:
      doc_apply(eng, [["BulkRemoveRecord", TABLE, gone]])
    obs = []
    value = 1000
    for n, step in enumerate(inp["steps"]):
      kind, req = step["kind"], decode_req(step["req"])
      vals = list(range(value, value + len(req)))
      value += len(req) + 1
      snap0 = adapter.fetch_all(eng)
      before = [int(r) for r in snap0[TABLE][0]]
      if n == 0 and (before != rows or sorted(int(r) for r in eng.tables[TABLE].row_ids) != rows):
        raise adapter.MachineryError("set-up failed: wanted rows %r, table has %r" % (rows, before))
      o = {"exc": "", "retk": "", "ret": [], "before": before}
      try:
        if kind == "AddRecord":
          ua = ["AddRecord", TABLE, req[0], {"A": vals[0]}]
        else:
          ua = [kind, TABLE, req, {"A": vals}]
        reply = adapter.apply(eng, [ua])
        o["retk"], o["ret"] = as_ids(reply["retValues"][0])
      except Exception as e:   # pylint: disable=broad-except
        o["exc"] = type(e).__name__
      snap1 = adapter.fetch_all(eng)
      after, acol = [int(r) for r in snap1[TABLE][0]], snap1[TABLE][1]["A"]
      o["after"] = after
      o["view"] = sorted(int(r) for r in eng.tables[TABLE].row_ids)
      # a follow-up fetch_table of the same table
      o["again"] = [int(r) for r in eng.fetch_table(TABLE, formulas=True).row_ids]
      where = {v: r for r, v in zip(after, acol)}
      o["held"] = [where.get(v, -1) for v in vals]
      o["dig0"], o["dig1"] = digest(snap0), digest(snap1)
      obs.append(o)
    return obs


def main():
  args = json.loads(sys.argv[1])
  inputs = json.load(open(args["inp"]))
  runner = Runner()
  cases = []
  for inp in inputs:
    inp = {"rows": list(inp["rows"]), "gone": list(inp.get("gone", [])),
           "steps": [{"kind": s["kind"], "req": [dict(r) for r in s["req"]]} for s in inp["steps"]]}
    cases.append({"inp": inp, "out": runner.run(inp), "exc": ""})
  json.dump(cases, open(args["out"], "w"))


if __name__ == "__main__":
  main()
