"""
Worker for the S->C binding of Bundle.tla: run every (document, bundle) case TLC enumerated on the real
engine: once without a fault, and once for every doc-action boundary / rebuild_usercode call with an
injected fault (harness/faults.py).  argv[1] = {"inp": cases file, "out": results file}
"""
import json
import sys

import adapter
import faults

FORMULA = {'type': 'Int', 'isFormula': True, 'formula': '$A + 1'}


def render(x):
  n = x["n"]
  if n == "add":
    return ['AddRecord', 'T', x["r"], {'A': x["v"]}]
  if n == "upd":
    return ['UpdateRecord', 'T', x["r"], {'A': x["v"]}]
  if n == "rem":
    return ['RemoveRecord', 'T', x["r"]]
  if n == "addF":
    return ['AddColumn', 'T', 'F', dict(FORMULA)]
  if n == "remF":
    return ['RemoveColumn', 'T', 'F']
  return ['UpdateRecord', 'T', 999999, {'A': 5}]      # "bad": fails (no such row)


def build(rows, d):
  eng = adapter.new_engine()
  adapter.apply(eng, [['InitNewDoc']])
  adapter.apply(eng, [['AddTable', 'T', [{'id': 'A', 'type': 'Int', 'isFormula': False, 'formula': ''}]]])
  ids = [r for r, a in zip(rows, d["a"]) if a != -1]
  if ids:
    adapter.apply(eng, [['BulkAddRecord', 'T', ids, {'A': [a for a in d["a"] if a != -1]}]])
  if d["hasF"]:
    adapter.apply(eng, [['AddColumn', 'T', 'F', dict(FORMULA)]])
  return eng


def observe(eng, rows):
  rs, cols = adapter.fetch_all(eng)['T']
  a = {r: v for r, v in zip(rs, cols['A'])}
  hasF = 'F' in cols
  f = {r: v for r, v in zip(rs, cols['F'])} if hasF else {}
  def num(v):
    return v if isinstance(v, int) and not isinstance(v, bool) else (int(v) if isinstance(v, float) and v == int(v) else -7)
  extra = sorted(c for c in cols if c not in ('A', 'F', 'manualSort'))
  return {"a": [num(a[r]) if r in a else -1 for r in rows], "hasF": hasF and not extra,
          "f": [num(f[r]) if r in f else -9 for r in rows]}


def one_run(rows, d, uas, kind, k):
  eng = build(rows, d)
  fw = faults.FaultWrapper(eng)
  if kind != "none":
    fw.arm(kind, k)
  else:
    fw.reset()
  ok = True
  try:
    adapter.apply(eng, [render(x) for x in uas])
  except Exception:    # pylint: disable=broad-except
    ok = False
  fired = bool(fw.fired)
  counts = (fw.n_actions, fw.n_rebuilds)
  fw.reset()
  doc = observe(eng, rows)
  try:
    quiet = not adapter.apply(eng, [['Calculate']])["stored"]
  except Exception:    # pylint: disable=broad-except
    quiet = False
  return {"kind": kind, "k": k, "fired": fired, "ok": ok, "doc": doc, "quiet": quiet}, counts


def main():
  args = json.loads(sys.argv[1])
  spec = json.load(open(args["inp"]))
  rows = spec["rows"]
  out = []
  for cs in spec["cases"]:
    d, uas = cs["d"], cs["uas"]
    run0, (n_act, n_reb) = one_run(rows, d, uas, "none", 0)
    runs = [run0]
    for kind, n in (("before", n_act), ("after", n_act), ("rebuild", n_reb)):
      for k in range(1, n + 1):
        r, _ = one_run(rows, d, uas, kind, k)
        runs.append(r)
    out.append({"d": d, "uas": uas, "runs": runs})
  json.dump({"rows": rows, "cases": out}, open(args["out"], "w"))


main()
