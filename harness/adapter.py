"""
Engine adapter: runs the real data engine from /repo's working tree (must be imported by a process
started with PYTHONPATH=/repo/sandbox/grist:/verif/shim) and projects its state.

Nothing here judges a property; it only drives public calls and records what they returned.
"""
import logging
import os
import sys

logging.disable(logging.CRITICAL)

import actions          # noqa: E402  pylint: disable=wrong-import-position
import engine as engine_mod   # noqa: E402
import schema as schema_mod   # noqa: E402
import useractions      # noqa: E402
import objtypes         # noqa: E402

from tokens import TokenTable   # noqa: E402


class MachineryError(Exception):
  pass


def new_engine():
  eng = engine_mod.Engine()
  eng.load_empty()
  return eng


def apply(eng, user_action_reprs, user=None):
  """Apply one bundle. Returns the ActionGroup repr dict (encoded), raises what the engine raises."""
  uas = [useractions.from_repr(u) for u in user_action_reprs]
  ag = eng.apply_user_actions(uas, user)
  return ag.get_repr()


def fetch_all(eng, formulas=True):
  """{table_id: (row_ids, {col_id: [encoded values]})} for every table of the engine."""
  out = {}
  for table_id in list(eng.tables):
    td = eng.fetch_table(table_id, formulas=formulas)
    enc = actions.encode_objects(td)
    out[table_id] = (list(enc.row_ids), {c: list(vals) for c, vals in enc.columns.items()})
  return out


def schema_record(eng):
  """engine.schema as plain data: {tableId: {colId: [type, isFormula, formula, reverseColId]}}"""
  out = {}
  for tid, t in eng.schema.items():
    cols = {}
    for cid, c in t.columns.items():
      cols[cid] = [c.type, bool(c.isFormula), c.formula, getattr(c, 'reverseColId', None) or ""]
    out[tid] = cols
  return out


def schema_consistent(eng):
  try:
    eng.assert_schema_consistent()
    return True
  except AssertionError:
    return False


# ---------------------------------------------------------------------------------------------
# Fresh engines from what an engine reports (C05 Rebuild, C07 Reopen)
# ---------------------------------------------------------------------------------------------
import marshal   # noqa: E402


def _db_blob(table_id, row_ids, enc_columns):
  """What Node hands to load_table: a marshalled dict with byte keys; non-primitive values as BLOBs."""
  def dbval(v):
    if v is None or isinstance(v, (bool, int, float, str)):
      return v
    return marshal.dumps(v)
  d = {b"id": list(row_ids)}
  for c, vals in enc_columns.items():
    d[c.encode("utf8")] = [dbval(v) for v in vals]
  return marshal.dumps(d)


def reopen(eng):
  """
  C07: load a fresh engine from the data `eng` itself reports - metadata tables first, then every
  table including stored formula values, encoded as in its replies, marshalled, decoded with main.py's
  table_data_from_db - and apply Calculate.  Returns (new engine, Calculate reply repr).
  """
  import main as main_mod   # pylint: disable=import-outside-toplevel
  fetched = {}
  for table_id in list(eng.tables):
    td = actions.encode_objects(eng.fetch_table(table_id, formulas=True))
    fetched[table_id] = _db_blob(table_id, td.row_ids, td.columns)
  eng2 = engine_mod.Engine()
  mt = main_mod.table_data_from_db("_grist_Tables", fetched["_grist_Tables"])
  mc = main_mod.table_data_from_db("_grist_Tables_column", fetched["_grist_Tables_column"])
  expected = eng2.load_meta_tables(mt, mc)
  for table_id in expected:
    eng2.load_table(main_mod.table_data_from_db(table_id, fetched.get(table_id)))
  reply = apply(eng2, [['Calculate']])
  return eng2, reply


def rebuild(eng):
  """
  C05: a fresh engine that loads the same metadata and DATA columns only (no stored formula results)
  and calculates everything from scratch.  Returns the new engine.
  """
  eng2 = engine_mod.Engine()
  mt = eng.fetch_table("_grist_Tables", formulas=False)
  mc = eng.fetch_table("_grist_Tables_column", formulas=False)
  expected = eng2.load_meta_tables(mt, mc)
  for table_id in expected:
    if table_id in eng.tables:
      eng2.load_table(eng.fetch_table(table_id, formulas=False))
  apply(eng2, [['Calculate']])
  return eng2
