"""
Engine adapter: runs the real data engine from /repo's working tree (must be imported by a process
started with PYTHONPATH=/repo/sandbox/grist:/verif/shim) and projects its state.

Nothing here judges a property; it only drives public calls and records what they returned.
"""
import logging
import os
import sys

logging.disable(logging.CRITICAL)

import actions          # noqa: E402  pylint: disable=wrong-import-position
import engine as engine_mod   # noqa: E402
import schema as schema_mod   # noqa: E402
import useractions      # noqa: E402
import objtypes         # noqa: E402

from tokens import TokenTable   # noqa: E402


class MachineryError(Exception):
  pass


def new_engine():
  eng = engine_mod.Engine()
  eng.load_empty()
  return eng


def apply(eng, user_action_reprs, user=None):
  """Apply one bundle. Returns the ActionGroup repr dict (encoded), raises what the engine raises."""
  uas = [useractions.from_repr(u) for u in user_action_reprs]
  ag = eng.apply_user_actions(uas, user)
  return ag.get_repr()


def fetch_all(eng, formulas=True):
  """{table_id: (row_ids, {col_id: [encoded values]})} for every table of the engine."""
  out = {}
  for table_id in list(eng.tables):
    td = eng.fetch_table(table_id, formulas=formulas)
    enc = actions.encode_objects(td)
    out[table_id] = (list(enc.row_ids), {c: list(vals) for c, vals in enc.columns.items()})
  return out


def schema_record(eng):
  """engine.schema as plain data: {tableId: {colId: [type, isFormula, formula, reverseColId]}}"""
  out = {}
  for tid, t in eng.schema.items():
    cols = {}
    for cid, c in t.columns.items():
      cols[cid] = [c.type, bool(c.isFormula), c.formula, getattr(c, 'reverseColId', None) or ""]
    out[tid] = cols
  return out


def schema_consistent(eng):
  try:
    eng.assert_schema_consistent()
    return True
  except AssertionError:
    return False
