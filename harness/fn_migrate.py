"""
Worker for C25 (Migrate.tla): builds documents at schema version v with the code's OWN migrations,
fills them, calls the real migrations.create_migrations and records what it returned or raised.
Nothing here judges the property: the recorded cases go to Trace_Migrate (TLC).

argv[1] = JSON:
  {"mode": "history", "out": file}
      facts about the tree under test for the bounded model MC_Migrate and for the judge:
      curn / curv (schema.SCHEMA_VERSION and its token), cur (schema.schema_create_actions() as
      {table: {col: base type}}), schemas[v] (the metadata schema the code's migrations 1..v produce from
      the version-0 fixture of test_migrations.py), targets[v] (Text columns of version v that may receive
      hostile text), groups[v], legacy[v], needall[v].
  {"mode": "cases", "inp": descriptors file, "out": cases file, "seed": s, "hyp": n, "dump": bool}
      expands every descriptor {k, v, pop, t, c, cls, old, mo} (or an explicit {"k": "doc", ...}) into a
      document, plus n Hypothesis documents; writes
        out            {"curn", "curv", "cur", "schemas": {v: ...}, "pool": [action records],
                        "cases": [...]}   (read by TLC; a case lists its actions as indices into pool)
        out.docs.json  {case index: raw document}  (Hypothesis cases always, all cases with "dump")

A raw document is {"v", "mo", "types": {user table: {col: type}}, "ordinary": [...],
"tables": {table: {"ids": [...], "cols": {col: [raw values]}}}}.  Cells hold the values create_migrations
receives from Node (main.table_data_from_db): str / int / float / bool / None; RefList and ChoiceList
cells are JSON text or None, the form DocStorage keeps them in.
"""
import hashlib
import json
import logging
import random
import sys
import traceback

logging.disable(logging.CRITICAL)

import actions              # noqa: E402  pylint: disable=wrong-import-position
import migrations           # noqa: E402
import schema               # noqa: E402
import table_data_set       # noqa: E402
from test_migrations import schema_version0    # noqa: E402   the code's own version-0 fixture

import record               # noqa: E402
from tokens import TokenTable   # noqa: E402


class MachineryError(Exception):
  pass


CUR = schema.SCHEMA_VERSION

# ---------------------------------------------------------------------------------------------
# Version-v metadata, produced by the code's own migration functions
# ---------------------------------------------------------------------------------------------
def tdset_at(v):
  """The version-0 fixture brought to version v the way create_migrations does it."""
  td = table_data_set.TableDataSet()
  td.apply_doc_actions(schema_version0())
  for i in range(1, v + 1):
    migrations.all_migrations.get(i, migrations.noop_migration)(td)
  td.apply_doc_action(actions.UpdateRecord('_grist_DocInfo', 1, {'schemaVersion': v}))
  return td


_TYPES = {}


def types_at(v):
  if v not in _TYPES:
    _TYPES[v] = {t: {c: info['type'] for c, info in cols.items()}
                 for t, cols in tdset_at(v).get_schema().items()}
  return _TYPES[v]


def bases(types):
  return {t: {c: record.base_type(ty) for c, ty in cols.items()} for t, cols in types.items()}


GROUPS = {
  "views": ["_grist_Views", "_grist_Views_section", "_grist_Views_section_field", "_grist_TabItems",
            "_grist_TabBar", "_grist_TableViews", "_grist_Pages"],
  "filters": ["_grist_Filters"],
  "acl": ["_grist_ACLMemberships", "_grist_ACLPrincipals", "_grist_ACLResources", "_grist_ACLRules"],
  "cells": ["_grist_Cells"],
}
CORE = ("_grist_DocInfo", "_grist_Tables", "_grist_Tables_column")
# Text cells that describe the user tables themselves: kept consistent with them, never hostile
STRUCTURAL = {("_grist_Tables", "tableId"), ("_grist_Tables_column", "colId"),
              ("_grist_Tables_column", "type")}
# column types of pre-release documents and the version whose migration abolished them
LEGACY = {"Image": 17, "Derived": 3}


def group_of(table_id):
  for g, ts in GROUPS.items():
    if table_id in ts:
      return g
  return "core" if table_id in CORE else "misc"


def groups_at(v):
  ty = types_at(v)
  gs = {group_of(t) for t in ty} - {"core"}
  gs.add("user")
  if "summarySourceTable" in ty["_grist_Tables"]:
    gs.add("summary")
  return sorted(gs)


def targets_at(v):
  return sorted([t, c] for t, cols in types_at(v).items() for c, ty in cols.items()
                if ty == "Text" and (t, c) not in STRUCTURAL)


def history():
  tok = TokenTable().tok
  return {
    "curn": CUR, "curv": tok(CUR),
    "cur": {a.table_id: {c['id']: record.base_type(c['type']) for c in a.columns}
            for a in schema.schema_create_actions()},
    "schemas": {str(v): bases(types_at(v)) for v in range(CUR + 1)},
    "targets": {str(v): targets_at(v) for v in range(CUR + 1)},
    "groups": {str(v): groups_at(v) for v in range(CUR + 1)},
    "legacy": {str(v): sorted(k for k, until in LEGACY.items() if v < until) for v in range(CUR + 1)},
    # a later migration is marked need_all_tables: the metadata-only call is refused by design
    "needall": {str(v): any(getattr(migrations.all_migrations.get(i), "need_all_tables", False)
                            for i in range(v + 1, CUR + 1)) for v in range(CUR + 1)},
  }


# ---------------------------------------------------------------------------------------------
# Text classes
# ---------------------------------------------------------------------------------------------
KEYS = ["visibleCol", "filterBar", "timeCreated", "timeUpdated", "resolved", "rulesOptions",
        "1", "2", "3", "4", "5", "6", "7", "8"]
OKVAL = {"visibleCol": "D", "filterBar": True, "timeCreated": 1700000000000,
         "timeUpdated": 1700000000500.5, "resolved": True, "rulesOptions": []}


def _dict_of(val):
  return "{" + ", ".join('%s: %s' % (json.dumps(k), val) for k in KEYS) + "}"


CLASS_TEXT = {
  "plain":   "plain text",
  "nonjson": "{not json",
  "empty":   "",
  "jnum":    "5",
  "jstr":    '"abc"',
  "jnull":   "null",
  "jtrue":   "true",
  "jlist1":  "[1]",
  "jlistc":  '["Comment"]',
  "lok":     '["Comment", ["Const", true], "a memo"]',
  "dstr":    _dict_of('"abc"'),
  "dlist":   _dict_of("[1]"),
  "dhuge":   _dict_of("1e400"),
  "ddict":   _dict_of('{"a": 1}'),
  "dok":     json.dumps({k: OKVAL.get(k, ["a", 1]) for k in KEYS}),
}
PLAIN_POOL = ["", "x", "Table1", "a b", "{x", "café ✓", "$A + 1", "rec.id"]


class RandGen(object):
  """Choices of the deterministic expansion of an enumerated descriptor."""
  hostile_mix = False

  def __init__(self, seed):
    self.r = random.Random(seed)

  def integer(self, lo, hi):
    return self.r.randint(lo, hi)

  def choice(self, seq):
    return seq[self.r.randrange(len(seq))]

  def text(self):
    return self.choice(PLAIN_POOL)

  def number(self):
    return self.choice([0.0, 1.5, -2.0, 1e9, 3.0, 1700000000.0])

  def big(self):
    return self.choice([0, 1, -1, 7, 100, 2 ** 40])

  def nrows(self):
    return 2


class HypGen(object):
  """Choices drawn by Hypothesis."""
  hostile_mix = True

  def __init__(self, draw, st):
    self.draw, self.st = draw, st
    leaf = st.one_of(st.none(), st.booleans(), st.integers(-10, 10 ** 13), st.text(max_size=3),
                     st.floats(allow_nan=False), st.sampled_from([1e400, -1e400, 2 ** 70, 10 ** 400, 0.5]))
    self.jsonval = st.recursive(
      leaf, lambda ch: st.one_of(st.lists(ch, max_size=3),
                                 st.dictionaries(st.sampled_from(KEYS + ["a"]), ch, max_size=4)),
      max_leaves=6)
    self.anytext = st.one_of(
      st.sampled_from(PLAIN_POOL), st.text(max_size=8),
      st.sampled_from(sorted(CLASS_TEXT.values())),
      self.jsonval.map(json.dumps))

  def integer(self, lo, hi):
    return self.draw(self.st.integers(lo, hi))

  def choice(self, seq):
    return self.draw(self.st.sampled_from(list(seq)))

  def text(self):
    return self.draw(self.anytext)

  def number(self):
    return self.draw(self.st.one_of(self.st.floats(allow_nan=False, allow_infinity=False),
                                    self.st.integers(-5, 2 * 10 ** 9).map(float)))

  def big(self):
    return self.draw(self.st.one_of(self.st.integers(-3, 20), self.st.integers(-2 ** 62, 2 ** 62)))

  def nrows(self):
    return self.draw(self.st.integers(0, 3))


# ---------------------------------------------------------------------------------------------
# Documents
# ---------------------------------------------------------------------------------------------
def user_spec(v, pop, old, g):
  """[(tableId, summary source or None, [(colId, type, isFormula, formula, summary source col)])]"""
  if "user" not in pop:
    return []
  ms = ("manualSort", "ManualSortPos", False, "", None)
  t1 = [ms, ("A", "Text", False, "", None), ("B", "Numeric", False, "", None),
        ("R", "Ref:T2", False, "", None), ("S", "Ref:T2", False, "", None),
        ("F", "Any", True, "$B + 1", None)]
  t2 = [ms, ("D", "Text", False, "", None), ("E", "Int", False, "", None),
        ("Q", "Ref:T1", False, "", None)]
  if v >= LEGACY["Image"]:
    t2.append(("X", "Attachments", False, "", None))
  if old and v < LEGACY["Image"]:
    t2.append(("I", "Image", False, "", None))
    t2.append(("J", "Image", True, "$E", None))
  if old and v < LEGACY["Derived"]:
    t2.append(("V", "Derived", True, "T1.lookupOrAddDerived($D, $E)", None))
  if g.hostile_mix:
    extra = ["Text", "Int", "Numeric", "Bool", "Date", "Any", "Choice", "Ref:T1", "Ref:T2"]
    for i in range(g.integer(0, 2)):
      t1.append(("N%d" % i, g.choice(extra), False, "", None))
  spec = [("T1", None, t1), ("T2", None, t2)]
  if "summary" in pop and "summarySourceTable" in types_at(v)["_grist_Tables"]:
    name = "GristSummary_2_T1" if v < 31 else "T1_summary_A"
    spec.append((name, "T1", [("A", "Text", False, "", "A"),
                              ("group", "RefList:T1", True, "table.getSummarySourceGroup(rec)", None),
                              ("count", "Int", True, "len($group)", None)]))
  return spec


def user_cell(g, typ, ids_of):
  base = typ.split(':', 1)[0]
  if base in ("Text", "Choice"):
    return g.text()
  if base in ("Int",):
    return g.big()
  if base in ("Numeric", "ManualSortPos", "PositionNumber"):
    return g.number()
  if base == "Bool":
    return g.choice([False, True])
  if base == "Ref":
    return g.choice([0] + ids_of(typ[4:]))
  if base == "Image":
    return g.choice([0, 1, 7])
  if base == "Attachments":
    return g.choice([None, "[1]", "[1,2]"])
  if base == "Date":
    return g.choice([None, 1700000000, 86400.0])
  return g.choice([None, "alt", 3, 2.5])


REQUIRED = {("_grist_Views_section", "tableRef"), ("_grist_Views_section_field", "parentId"),
            ("_grist_Views_section_field", "colRef")}


def meta_cell(g, t, c, typ, ids_of):
  base = typ.split(':', 1)[0]
  if base == "Text":
    return g.text()
  if base == "Int":
    return g.big()
  if base == "Bool":
    return g.choice([False, True])
  if base in ("Numeric", "PositionNumber", "ManualSortPos"):
    return g.number()
  if base in ("DateTime", "Date"):
    return g.choice([None, 0, 1700000000, 1700000000.25])
  if base == "Ref":
    ids = ids_of(typ[4:])
    if not ids:
      return 0
    return g.choice(ids if (t, c) in REQUIRED else [0] + ids)
  if base == "RefList":
    ids = ids_of(typ[8:])
    k = g.integer(0, min(2, len(ids)))
    return None if k == 0 else json.dumps(ids[:k], separators=(',', ':'))
  if base == "ChoiceList":
    return g.choice([None, '["add"]', '["add","update"]'])
  return None


def build_doc(d, g):
  """Raw document for descriptor d (keys v, pop, t, c, cls, old, mo)."""
  v = d["v"]
  if not 0 <= v <= CUR:
    raise MachineryError("version out of range: %r" % (d,))
  types = types_at(v)
  base_td = tdset_at(v)
  pop = set(d["pop"])
  spec = user_spec(v, pop, d.get("old", False), g)
  tables = {}
  # 1. row ids
  ids = {}
  for t in types:
    grp = group_of(t)
    own = list(base_td.all_tables[t].row_ids)      # rows the migrations themselves created
    if t == "_grist_DocInfo":
      ids[t] = [1]
    elif t == "_grist_Tables":
      ids[t] = list(range(1, len(spec) + 1))
    elif t == "_grist_Tables_column":
      ids[t] = list(range(1, sum(len(cols) for _, _, cols in spec) + 1))
    elif grp in pop:
      ids[t] = own + list(range(len(own) + 1, len(own) + 1 + g.nrows()))
    else:
      ids[t] = own
  user_ids = {}
  for tid, _src, _cols in spec:
    n = g.nrows() + (0 if g.hostile_mix else 1)
    user_ids[tid] = list(range(1, n + 1))

  def ids_of(target):
    return ids.get(target) or user_ids.get(target) or []

  # 2. the two tables describing the user tables
  table_ref = {tid: i + 1 for i, (tid, _s, _c) in enumerate(spec)}
  col_ref, col_rows = {}, []
  for tid, _src, cols in spec:
    for pos, (cid, typ, isf, formula, scol) in enumerate(cols):
      col_ref[(tid, cid)] = len(col_rows) + 1
      col_rows.append((tid, pos, cid, typ, isf, formula, scol))
  # 3. generic filling by declared type
  for t, cols in types.items():
    own_td = base_td.all_tables[t]
    own_pos = {r: i for i, r in enumerate(own_td.row_ids)}
    tab = {"ids": ids[t], "cols": {}}
    for c, typ in sorted(cols.items()):
      vals = []
      for k, r in enumerate(ids[t]):
        if r in own_pos and t != "_grist_DocInfo":
          vals.append(own_td.columns[c][own_pos[r]])
        else:
          vals.append(meta_cell(g, t, c, typ, ids_of))
      tab["cols"][c] = vals
    tables[t] = tab
  tables["_grist_DocInfo"]["cols"]["schemaVersion"] = [v]
  mt, mc = tables["_grist_Tables"]["cols"], tables["_grist_Tables_column"]["cols"]
  for i, (tid, src, _cols) in enumerate(spec):
    mt["tableId"][i] = tid
    if "summarySourceTable" in mt:
      mt["summarySourceTable"][i] = table_ref[src] if src else 0
  for i, (tid, pos, cid, typ, isf, formula, scol) in enumerate(col_rows):
    mc["parentId"][i] = table_ref[tid]
    mc["parentPos"][i] = float(pos + 1)
    mc["colId"][i] = cid
    mc["type"][i] = typ
    mc["isFormula"][i] = isf
    if isf:
      mc["formula"][i] = formula
    if "summarySourceCol" in mc:
      src = [s for (t2, s, _c) in spec if t2 == tid][0]
      mc["summarySourceCol"][i] = col_ref[(src, scol)] if scol else 0
  # 4. hostile text
  cls = d.get("cls", "plain")
  if cls not in CLASS_TEXT:
    raise MachineryError("unknown text class %r" % (cls,))
  placed = 0
  if d["k"] in ("uni", "one"):
    for t, c in targets_at(v):
      if d["k"] == "one" and (t, c) != (d["t"], d["c"]):
        continue
      col = tables[t]["cols"][c]
      for i in range(len(col)):
        if t in ("_grist_Tables_column",) and c == "formula" and col_rows[i][4]:
          continue       # formulas of the formula columns stay what the user tables say
        col[i] = CLASS_TEXT[cls]
        placed += 1
  # 5. user data (DocStorage keeps the cells of formula columns too)
  utypes = {}
  for tid, src, cols in spec:
    utypes[tid] = {cid: typ for cid, typ, _isf, _f, _s in cols}
    tables[tid] = {"ids": user_ids[tid],
                   "cols": {cid: [user_cell(g, typ, ids_of) for _ in user_ids[tid]]
                            for cid, typ, _isf, _f, _s in cols}}
  mo = bool(d.get("mo", False))
  return {"v": v, "mo": mo, "types": utypes, "ordinary": [tid for tid, src, _c in spec if not src],
          "tables": tables, "placed": placed}


# ---------------------------------------------------------------------------------------------
# One recorded call
# ---------------------------------------------------------------------------------------------
def where_of(exc):
  """(migration function, innermost function) on the traceback: facts about where it was raised."""
  mig, inner = "", ""
  for fr in traceback.extract_tb(exc.__traceback__):
    if fr.filename.endswith("migrations.py") and fr.name.startswith("migration") and not mig:
      mig = fr.name
    inner = fr.name
  return mig, inner


POOL = {}      # uniform action record (as JSON text) -> 1-based index into the file-level "pool"


def pooled(rec):
  key = json.dumps(rec, sort_keys=True)
  if key not in POOL:
    POOL[key] = len(POOL) + 1
  return POOL[key]


def run_doc(inp, doc):
  tt = TokenTable()
  v = doc["v"]
  user = sorted(doc["types"])
  obs = {}
  for t, tab in doc["tables"].items():
    if tab["ids"]:
      obs[t] = {"rows": list(tab["ids"]), "cols": {c: [tt.tok(x) for x in vals] for c, vals in tab["cols"].items()}}
  ubase = {t: {c: record.base_type(ty) for c, ty in doc["types"][t].items()} for t in user}
  case = {"inp": {k: x for k, x in inp.items() if k != "doc"}, "v": v, "mo": doc["mo"], "tables": obs, "ubase": ubase, "user": user,
          "ordinary": list(doc["ordinary"]), "actions": [], "exc": "", "where": "", "inner": "", "msg": "",
          "nrows": sum(len(t["ids"]) for t in doc["tables"].values()), "placed": doc.get("placed", 0)}
  all_tables = {t: actions.TableData(t, list(tab["ids"]), {c: list(vals) for c, vals in tab["cols"].items()})
                for t, tab in doc["tables"].items() if not (doc["mo"] and t in doc["types"])}
  try:
    acts = migrations.create_migrations(all_tables, doc["mo"])
  except Exception as e:    # pylint: disable=broad-except
    case["exc"] = type(e).__name__
    case["where"], case["inner"] = where_of(e)
    case["msg"] = str(e)[:200].encode("ascii", "replace").decode()
    return case
  for a in acts:
    rep = actions.get_action_repr(a)
    rec = record.encode_action(rep, tt)
    raw_ids = rep[2] if rec["n"] in ("BulkAddRecord", "BulkUpdateRecord", "BulkRemoveRecord",
                                     "ReplaceTableData") and isinstance(rep[2], list) else \
              ([rep[2]] if rep[0] in ("AddRecord", "UpdateRecord", "RemoveRecord") else [])
    # positions (1-based) whose row id is None = "assign the next free id" (SQLite, useractions)
    rec["auto"] = [i + 1 for i, r in enumerate(raw_ids) if r is None]
    case["actions"].append(pooled(rec))
  return case


def seed_of(seed, d):
  blob = json.dumps([seed, d["k"], d["v"], sorted(d["pop"]), d.get("t"), d.get("c"), d.get("cls"),
                     bool(d.get("old")), bool(d.get("mo"))])
  return int(hashlib.sha256(blob.encode()).hexdigest()[:12], 16)


def expand(inp, seed):
  """(inp with everything needed to replay it, raw document)"""
  if inp["k"] == "doc":
    return inp, inp["doc"]
  inp = dict(inp)
  inp.setdefault("seed", seed)
  doc = build_doc(inp, RandGen(seed_of(inp["seed"], inp)))
  return inp, doc


def hypothesis_docs(seed, n, needall):
  import hypothesis                          # pylint: disable=import-outside-toplevel
  from hypothesis import strategies as st    # pylint: disable=import-outside-toplevel

  @st.composite
  def docs(draw):
    g = HypGen(draw, st)
    v = draw(st.one_of(st.integers(0, CUR), st.sampled_from([0, 9, 14, 15, 24, 28, 33, 34, 44, CUR])))
    pop = [grp for grp in groups_at(v) if draw(st.integers(0, 3)) > 0]
    d = {"k": "hyp", "v": v, "pop": pop, "t": "", "c": "", "cls": "plain",
         "old": draw(st.booleans()), "mo": (not needall[v]) and draw(st.booleans())}
    return build_doc(d, g)

  found = []

  @hypothesis.seed(seed)
  @hypothesis.settings(max_examples=n, database=None, deadline=None, derandomize=True,
                       suppress_health_check=list(hypothesis.HealthCheck),
                       phases=[hypothesis.Phase.generate])
  @hypothesis.given(docs())
  def collect(doc):
    found.append(doc)

  collect()
  return found


def main():
  args = json.loads(sys.argv[1])
  if args.get("mode") == "history":
    with open(args["out"], "w") as f:
      json.dump(history(), f)
    return
  hist = history()
  seed = int(args.get("seed", 0))
  cases, docs = [], {}
  for inp in json.load(open(args["inp"])):
    inp, doc = expand(inp, seed)
    cases.append(run_doc(inp, doc))
    if args.get("dump") or cases[-1]["exc"]:
      docs[str(len(cases))] = doc
  if args.get("hyp"):
    needall = {int(k): x for k, x in hist["needall"].items()}
    for doc in hypothesis_docs(seed * 1000 + int(args.get("shard", 0)), int(args["hyp"]), needall):
      inp = {"k": "hyp", "v": doc["v"], "pop": [], "t": "", "c": "", "cls": "plain", "old": False,
             "mo": doc["mo"], "seed": seed}
      cases.append(run_doc(inp, doc))
      docs[str(len(cases))] = doc
  used = sorted({str(c["v"]) for c in cases})
  with open(args["out"], "w") as f:
    json.dump({"curn": hist["curn"], "curv": hist["curv"], "cur": hist["cur"],
               "schemas": {v: hist["schemas"][v] for v in used},
               "pool": [json.loads(k) for k, _ in sorted(POOL.items(), key=lambda kv: kv[1])],
               "cases": cases}, f)
  with open(args["out"] + ".docs.json", "w") as f:
    json.dump(docs, f)


main()
