"""
Worker for C32 (CsvShape.tla): run the real CSV importer on grids of text cells.

argv[1] = JSON {"inp": <inputs file>, "out": <cases file>, "tmp": <scratch dir>,
                optional "hyp": {"seed": int, "n": int}}   (Hypothesis grids instead of an inputs file)

An input is either a run-length SHAPE enumerated by TLC
    {"src": "shape", "segs": [[rows, width, kind, hole], ...], "delim": name, "quote": name, "headers": 0|1}
or an explicit grid of cell kinds (Hypothesis / replay)
    {"src": "grid", "rows": [[kind, ...], ...], "delim": name, "quote": name, "headers": 0|1}

Both are expanded to a concrete grid of ASCII texts (cell text is a function of (kind, row, column), so
that every cell that can be told apart is), written with Python's csv.writer(delimiter, quotechar)
and parsed by import_csv.parse_file with exactly the explicit options delimiter, quotechar and
include_col_names_as_headers.

This module does not judge anything.  It records the written grid and the returned table in one and
the same lossless, compact form - per column, the maximal runs of non-empty cells
    [k0, len, kind, r0, c]   rows k0..k0+len-1 hold the texts  text(kind, r0 + t, c), t = 0..len-1
                             (r0 = 0: the text of this kind does not depend on the row)
where (kind, r, c) is the unique token with text(kind, r, c) == cell text ("?<text>" if there is none).
CsvShape!Clauses compares the two.  `out.skip` = 1 if the importer reports skipinitialspace (a fact about
the returned parse options; not used by the specification, only to describe a known finding).
"""
import csv
import json
import logging
import os
import re
import sys

DELIMS = {"comma": ",", "semi": ";", "tab": "\t", "pipe": "|"}
QUOTES = {"dq": '"', "sq": "'"}
KINDS = ["e", "a", "1", "-", "x", "d", "q", "n"]
SAMPLE = 100


def text(kind, r, c, delim, quote):
  """The text of the cell token (kind, r, c).  r, c are 1-based positions in the written grid."""
  if kind == "e":
    return ""
  if kind == "a":
    return "a_r%d_c%d" % (r, c)
  if kind == "1":
    return "%d" % (1000000 + r * 10 + c)
  if kind == "-":
    return "-"
  if kind == "x":
    return " x_r%d_c%d" % (r, c)
  if kind == "d":
    return "d%sr%dc%d" % (delim, r, c)
  if kind == "q":
    return "q%sr%dc%d" % (quote, r, c)
  if kind == "n":
    return "n\nr%dc%d" % (r, c)
  if kind == "h":
    return "h_c%d" % c
  raise ValueError(kind)


_PATTERNS = [
  ("a", re.compile(r"^a_r(\d+)_c(\d+)$")),
  ("x", re.compile(r"^ x_r(\d+)_c(\d+)$")),
  ("d", re.compile(r"^d.r(\d+)c(\d+)$", re.S)),
  ("q", re.compile(r"^q.r(\d+)c(\d+)$", re.S)),
  ("n", re.compile(r"^n\nr(\d+)c(\d+)$")),
]


def token(value, delim, quote):
  """Inverse of text(): [kind, r, c] with text(kind, r, c) == value, else ["?<value>", 0, 0]."""
  if not isinstance(value, str):
    return ["?" + ascii(value), 0, 0]
  cands = []
  if value == "-":
    cands.append(("-", 0, 0))
  m = re.match(r"^h_c(\d+)$", value)
  if m:
    cands.append(("h", 0, int(m.group(1))))
  if re.match(r"^1\d{6,}$", value):
    n = int(value) - 1000000
    cands.append(("1", n // 10, n % 10))
  for kind, pat in _PATTERNS:
    m = pat.match(value)
    if m:
      cands.append((kind, int(m.group(1)), int(m.group(2))))
  for kind, r, c in cands:
    if r < 2 ** 30 and text(kind, r, c, delim, quote) == value:
      return [kind, r, c]
  return ["?" + ascii(value), 0, 0]


def runs_of(values, delim, quote):
  """Maximal runs of non-empty cells of one column (values[0] is row 1)."""
  runs = []
  for k, v in enumerate(values, 1):
    if v == "":
      continue
    kind, r, c = token(v, delim, quote)
    if runs:
      k0, n, kind0, r0, c0 = runs[-1]
      if k0 + n == k and kind0 == kind and c0 == c and \
         ((r0 == 0 and r == 0) or (r0 > 0 and r == r0 + n)):
        runs[-1][1] += 1
        continue
    runs.append([k, 1, kind, r, c])
  return runs


def kinds_of_shape(inp):
  """Rows of cell kinds described by a shape (without the header row)."""
  rows = []
  for n, w, kind, hole in inp["segs"]:
    row = [("e" if c == hole else kind) for c in range(1, w + 1)]
    rows.extend([row] * n)
  return rows


def build_grid(inp):
  delim, quote = DELIMS[inp["delim"]], QUOTES[inp["quote"]]
  krows = kinds_of_shape(inp) if inp["src"] == "shape" else inp["rows"]
  grid = []
  if inp["headers"]:
    width = max([1] + [len(r) for r in krows])
    grid.append([text("h", 0, c, delim, quote) for c in range(1, width + 1)])
  for krow in krows:
    r = len(grid) + 1
    grid.append([text(k, r, c, delim, quote) for c, k in enumerate(krow, 1)])
  return grid


def describe_grid(grid, delim, quote):
  width = max([0] + [len(r) for r in grid])
  cols = [[(row[c] if c < len(row) else "") for row in grid] for c in range(width)]
  return {"n": len(grid), "cols": [runs_of(col, delim, quote) for col in cols]}


def run_one(inp, path):
  import_csv = sys.modules["imports.import_csv"]
  delim, quote = DELIMS[inp["delim"]], QUOTES[inp["quote"]]
  grid = build_grid(inp)
  with open(path, "w", newline="", encoding="ascii") as f:
    w = csv.writer(f, delimiter=delim, quotechar=quote)
    for row in grid:
      w.writerow(row)
  case = {"inp": {"src": inp["src"], "segs": inp.get("segs", []), "rows": inp.get("rows", []),
                  "delim": inp["delim"], "quote": inp["quote"], "headers": inp["headers"]},
          "grid": describe_grid(grid, delim, quote),
          "out": {"nt": 0, "names": [], "lens": [], "cols": [], "skip": 0}, "exc": ""}
  try:
    options, tables = import_csv.parse_file(path, {
      "delimiter": delim, "quotechar": quote,
      "include_col_names_as_headers": bool(inp["headers"])})
    out = case["out"]
    out["nt"] = len(tables)
    out["skip"] = 1 if options.get("skipinitialspace") else 0   # the dialect the importer reports
    if tables:
      t = tables[0]
      out["names"] = [token(m["id"], delim, quote) if m["id"] != "" else ["e", 0, 0]
                      for m in t["column_metadata"]]
      out["lens"] = [len(col) for col in t["table_data"]]
      out["cols"] = [runs_of(col, delim, quote) for col in t["table_data"]]
  except Exception as e:   # pylint: disable=broad-except
    case["exc"] = type(e).__name__
  return case


def hypothesis_inputs(seed, n):
  """Grids beyond the run-length shapes: more columns, mixed kinds per row, any row counts."""
  import hypothesis
  from hypothesis import strategies as st

  kind = st.sampled_from(KINDS)
  count = st.one_of(st.integers(1, 4), st.integers(95, 105), st.integers(1, 260),
                    st.sampled_from([99, 100, 101, 199, 200, 201]))

  @st.composite
  def segment(draw):
    width = draw(st.integers(0, 6))
    base = draw(st.lists(kind, min_size=width, max_size=width))
    nrows = draw(count)
    rows = [list(base) for _ in range(nrows)]
    # sprinkle a few deviating cells / ragged rows
    for _ in range(draw(st.integers(0, 2))):
      if rows:
        i = draw(st.integers(0, len(rows) - 1))
        rows[i] = draw(st.lists(kind, min_size=0, max_size=6))
    return rows

  @st.composite
  def grids(draw):
    if draw(st.integers(0, 3)) == 0:
      rows = draw(st.lists(st.lists(kind, min_size=0, max_size=6), min_size=0, max_size=8))
    else:
      rows = [r for seg in draw(st.lists(segment(), min_size=1, max_size=4)) for r in seg]
    return {"src": "grid", "rows": rows[:600],
            "delim": draw(st.sampled_from(sorted(DELIMS))),
            "quote": draw(st.sampled_from(sorted(QUOTES))),
            "headers": draw(st.integers(0, 1))}

  found = []

  @hypothesis.seed(seed)
  @hypothesis.settings(max_examples=n, database=None, deadline=None, derandomize=True,
                       suppress_health_check=list(hypothesis.HealthCheck),
                       phases=[hypothesis.Phase.generate])
  @hypothesis.given(grids())
  def collect(g):
    found.append(g)

  collect()
  seen, uniq = set(), []
  for g in found:
    key = json.dumps(g, sort_keys=True)
    if key not in seen:
      seen.add(key)
      uniq.append(g)
  return uniq


def main():
  args = json.loads(sys.argv[1])
  logging.disable(logging.CRITICAL)
  from imports import import_csv   # noqa: F401  pylint: disable=unused-import,import-outside-toplevel
  if "hyp" in args:
    inputs = hypothesis_inputs(args["hyp"]["seed"], args["hyp"]["n"])
  else:
    inputs = json.load(open(args["inp"]))
  path = os.path.join(args.get("tmp") or os.path.dirname(args["out"]),
                      "grid-%d-%s.csv" % (os.getpid(), args.get("shard", 0)))
  cases = [run_one(inp, path) for inp in inputs]
  if os.path.exists(path):
    os.unlink(path)
  with open(args["out"], "w") as f:
    json.dump(cases, f)


if __name__ == "__main__":
  main()
