"""
Fault injection from outside (C04): wraps bound methods of the live Engine object.  Enabled only when
GRIST_VERIF_WRAP=1 is in the environment of the worker (MANIFEST.hooks.guard); no source hook.

Boundaries: entry ("before") and return ("after") of every Engine.apply_doc_action call made outside
the recompute loop (user-action phase and auto-remove phase), and every Engine.rebuild_usercode call
("rebuild": inside a schema doc action, after the schema object was mutated - the failure
apply_doc_action explicitly guards against).  The rollback itself is never faulted.
"""
import os


class InjectedFault(Exception):
  pass


class FaultWrapper(object):
  def __init__(self, eng):
    if os.environ.get("GRIST_VERIF_WRAP") != "1":
      raise RuntimeError("GRIST_VERIF_WRAP=1 required to wrap engine methods")
    for name in ("apply_doc_action", "rebuild_usercode", "_undo_to_checkpoint"):
      if not callable(getattr(eng, name, None)):
        raise LookupError("wrapped engine method disappeared: " + name)
    self.eng = eng
    self.reset()
    self._orig_apply = eng.apply_doc_action
    self._orig_rebuild = eng.rebuild_usercode
    self._orig_undo = eng._undo_to_checkpoint
    eng.apply_doc_action = self._apply
    eng.rebuild_usercode = self._rebuild
    eng._undo_to_checkpoint = self._undo

  def reset(self):
    self.armed = None      # (kind, k) or None
    self.fired = False
    self.in_rollback = 0
    self.n_actions = 0
    self.n_rebuilds = 0

  def arm(self, kind, k):
    self.reset()
    self.armed = (kind, k)

  def _active(self):
    return not self.in_rollback and not self.fired and not self.eng._in_update_loop

  def _apply(self, doc_action):
    if not self._active():
      return self._orig_apply(doc_action)
    self.n_actions += 1
    k = self.n_actions
    if self.armed == ("before", k):
      self.fired = True
      raise InjectedFault("before doc action %d %s" % (k, type(doc_action).__name__))
    r = self._orig_apply(doc_action)
    if self.armed == ("after", k) and not self.fired:
      self.fired = True
      raise InjectedFault("after doc action %d %s" % (k, type(doc_action).__name__))
    return r

  def _rebuild(self):
    if self._active():
      self.n_rebuilds += 1
      if self.armed == ("rebuild", self.n_rebuilds):
        self.fired = True
        raise InjectedFault("in rebuild_usercode %d" % self.n_rebuilds)
    return self._orig_rebuild()

  def _undo(self, checkpoint):
    # _recompute_one_cell also reverts side effects of a failed formula through this method, possibly
    # nested inside the rollback of a bundle: count the depth.
    self.in_rollback += 1
    try:
      return self._orig_undo(checkpoint)
    finally:
      self.in_rollback -= 1
