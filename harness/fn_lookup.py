"""
Worker for C13: run edit histories on a target table T of the real engine in /repo/sandbox/grist and
record, after the initial load and after EVERY edit, what the observer table O shows (formula columns
calling T.lookupRecords / T.lookupOne) together with the table contents actually stored.  Nothing is
judged here; spec/Trace_Lookup.tla judges every recorded step with Lookup!Clauses.
argv[1] = JSON {"inp": <inputs file>, "out": <cases file>, "fresh": bool}

Inputs file:  {"obsets": [[observer, ...], ...], "hist": [history, ...]}
  observer = {"one": bool, "keys": [{"col", "how": "eq"|"in"|"inme", "src": "q"|"p"|"id", "me": value}],
              "mode": "default"|"order_by"|"sort_by", "ord": [{"c": column, "desc": bool}]}
  history  = {"ox": 1-based index into obsets, "probes": [{"id", "q": value, "p": value}],
              "init": [content, ...], "edits": [edit, ...], ...}
  content  = {"k", "L", "s1", "s2", "r"} (values);  edit = the record of Lookup!E (op, row, col, val, col2, val2,
  cells, rows, ids);  value = {"k": tag, "n": twice the number, "s": text, "l": [values]} as in Lookup.tla.

Cases file:   {"obsets": ..., "cases": [{"inp": history, "out": [step, ...], "from": n, "exc": ""}]}
  step = {"ty": {column: type name}, "rows": [{"id", "pos", "k", "L", "s1", "s2", "r"}], "probes": [...],
          "cells": [[[row ids] per probe] per observer], "errs": [{"j": observer, "i": probe, "e": class}],
          "di", "dn": an identical record (same observers) is step dn of the earlier case di of the file (0: none)}
  out[0] is the observation after the initial load, out[n] after edit n.  "from" = number of leading
  steps whose input AND recorded observation are identical to those of the previous case of this file
  (they were judged there); these steps are blanked in the file.

The schema (tables O and T, the observer formulas) is built once per engine; between two histories
the worker empties T with BulkRemoveRecord, restores probes, and loads the next initial rows with
BulkAddRecord, so a history runs as the continuation of the earlier ones of its engine ("s0" = index
of the first case of that engine; "fresh": one engine per history, used to re-run a suspicious history
on its own; a history with a non-empty "session" runs those histories first, in an engine of its own).
An engine is dropped after a history with a type change or ReplaceTableData.
"""
import json
import sys

import adapter

SESSION = 150            # histories per engine
DATA_COLS = ("k", "L", "s1", "s2", "r")
T_COLS = [("k", "Int"), ("L", "ChoiceList"), ("s1", "Int"), ("s2", "Text"), ("r", "Ref:O")]


# ---- values ----------------------------------------------------------------------------------
def py(v):
  """Python value (as a user action carries it) of a tagged value."""
  k = v["k"]
  if k == "z":
    return None
  if k == "i":
    return v["n"] // 2
  if k == "f":
    return v["n"] / 2.0
  if k == "b":
    return bool(v["n"])
  if k == "s":
    return v["s"]
  if k == "l":
    return ["L"] + [py(x) for x in v["l"]]
  raise adapter.MachineryError("value %r cannot be sent to the engine" % (v,))


def _t(k, n=0, s="", l=()):
  return {"k": k, "n": n, "s": s, "l": list(l)}


def tag(x):
  """Tagged value of an encoded cell value (type-exact transcription)."""
  if x is None:
    return _t("z")
  if isinstance(x, bool):
    return _t("b", 2 if x else 0)
  if isinstance(x, int):
    return _t("i", 2 * x) if abs(x) < 2 ** 29 else _t("?")
  if isinstance(x, float):
    return _t("f", int(2 * x)) if (2 * x == int(2 * x) and abs(x) < 2 ** 29) else _t("?")
  if isinstance(x, str):
    return _t("s", 0, x) if x.isascii() else _t("?")
  if isinstance(x, (list, tuple)) and len(x) >= 1 and x[0] == "L":
    return _t("l", 0, "", [tag(e) for e in x[1:]])
  return _t("?")


# ---- formulas ----------------------------------------------------------------------------------
def formula(obs):
  args = []
  for key in obs["keys"]:
    expr = {"q": "$q", "p": "$p", "id": "$id"}[key["src"]]
    if key["how"] == "in":
      expr = "CONTAINS(%s)" % expr
    elif key["how"] == "inme":
      expr = "CONTAINS(%s, match_empty=%r)" % (expr, py(key["me"]))
    args.append("%s=%s" % (key["col"], expr))
  toks = [("-" if o["desc"] else "") + o["c"] for o in obs["ord"]]
  if obs["mode"] == "order_by":
    args.append("order_by=" + repr(None if not toks else toks[0] if len(toks) == 1 else tuple(toks)))
  elif obs["mode"] == "sort_by":
    args.append("sort_by=" + repr(toks[0]))
  if obs["one"]:
    return "T.lookupOne(%s).id" % ", ".join(args)
  return "[r.id for r in T.lookupRecords(%s)]" % ", ".join(args)


class Session(object):
  def __init__(self, obs_list):
    self.obs = obs_list
    self.formulas = [formula(o) for o in obs_list]
    self.eng = eng = adapter.new_engine()
    adapter.apply(eng, [["InitNewDoc"]])
    # O first (T.r refers to it); its formulas name T, which exists from the second action on
    adapter.apply(eng, [
      ["AddTable", "O", [{"id": "q", "type": "Any", "isFormula": False},
                         {"id": "p", "type": "Any", "isFormula": False}] +
                        [{"id": "c%d" % (j + 1), "type": "Any", "isFormula": True, "formula": f}
                         for j, f in enumerate(self.formulas)]],
      ["AddTable", "T", [{"id": c, "type": t, "isFormula": False} for c, t in T_COLS]]])
    self.probes = None
    self.used = 0
    self.toggle = 0

  # -- what the engine holds ---------------------------------------------------------------------
  def types(self):
    sch = adapter.schema_record(self.eng)["T"]
    return {c: sch[c][0].split(":")[0] for c in DATA_COLS}

  def observe(self):
    snap = adapter.fetch_all(self.eng)
    ids, cols = snap["T"]
    ms = cols["manualSort"]
    rows = []
    for x, rid in enumerate(ids):
      row = {"id": int(rid), "pos": 1 + sum(1 for m in ms if m < ms[x])}
      for c in DATA_COLS:
        row[c] = tag(cols[c][x])
      rows.append(row)
    oids, ocols = snap["O"]
    probes = [{"id": int(i), "q": tag(ocols["q"][x]), "p": tag(ocols["p"][x])} for x, i in enumerate(oids)]
    cells, errs = [], []
    for j in range(len(self.obs)):
      col, vals = [], ocols["c%d" % (j + 1)]
      for x in range(len(oids)):
        v = vals[x]
        if self.obs[j]["one"] and isinstance(v, int) and not isinstance(v, bool):
          col.append([v])
        elif isinstance(v, list) and v[:1] == ["L"] and \
             all(isinstance(e, int) and not isinstance(e, bool) for e in v[1:]):
          col.append([int(e) for e in v[1:]])
        else:
          col.append([])
          e = v[1] if isinstance(v, list) and len(v) >= 2 and v[0] == "E" else "BadValue"
          errs.append({"j": j + 1, "i": x + 1, "e": str(e)})
      cells.append(col)
    return {"ty": self.types(), "rows": rows, "probes": probes, "cells": cells, "errs": errs}

  def stored(self):
    ids, cols = adapter.fetch_all(self.eng)["T"]
    return [int(i) for i in ids], dict(zip([int(i) for i in ids], cols["manualSort"]))

  # -- set-up of one history -----------------------------------------------------------------------
  def reset(self, probes):
    eng = self.eng
    if self.types()["s1"] != "Int":
      adapter.apply(eng, [["ModifyColumn", "T", "s1", {"type": "Int"}]])
    ids, _ = self.stored()
    if ids:
      adapter.apply(eng, [["BulkRemoveRecord", "T", ids]])
    if self.probes != probes:
      oids = [int(i) for i in eng.fetch_table("O").row_ids]
      if oids:
        adapter.apply(eng, [["BulkRemoveRecord", "O", oids]])
      adapter.apply(eng, [["BulkAddRecord", "O", [p["id"] for p in probes],
                           {"q": [py(p["q"]) for p in probes], "p": [py(p["p"]) for p in probes]}]])
      self.probes = json.loads(json.dumps(probes))

  @staticmethod
  def _cols(contents):
    return {c: [py(r[c]) for r in contents] for c in DATA_COLS}

  def action(self, e, last_undo):
    """The user action of one edit."""
    op = e["op"]
    if op == "upd":
      return ["UpdateRecord", "T", e["row"], {e["col"]: py(e["val"])}]
    if op == "upd2":
      return ["UpdateRecord", "T", e["row"], {e["col"]: py(e["val"]), e["col2"]: py(e["val2"])}]
    if op == "bupd":
      return ["BulkUpdateRecord", "T", list(e["ids"]), {e["col"]: [py(v) for v in e["cells"]]}]
    if op == "add":
      if len(e["rows"]) == 1:
        return ["AddRecord", "T", None, {c: v[0] for c, v in self._cols(e["rows"]).items()}]
      return ["BulkAddRecord", "T", [None] * len(e["rows"]), self._cols(e["rows"])]
    if op == "rem":
      return ["RemoveRecord", "T", e["ids"][0]] if len(e["ids"]) == 1 else ["BulkRemoveRecord", "T", list(e["ids"])]
    if op == "mv":
      _, ms = self.stored()
      b = e["val"]["n"] // 2
      return ["UpdateRecord", "T", e["row"], {"manualSort": ms[b] if b else max(ms.values()) + 1.0}]
    if op == "retype":
      return ["ModifyColumn", "T", e["col"], {"type": e["val"]["s"]}]
    if op == "repl":
      return ["ReplaceTableData", "T", list(e["ids"]), self._cols(e["rows"])]
    if op == "probe":
      self.probes = None
      return ["UpdateRecord", "O", e["row"], {e["col"]: py(e["val"])}]
    if op == "undo":
      if last_undo is None:
        raise adapter.MachineryError("undo without a previous action")
      return ["ApplyUndoActions", last_undo]
    raise adapter.MachineryError("unknown edit %r" % (op,))

  def apply_edit(self, e, last_undo):
    if e["op"] == "reobs":
      # the same formulas entered again (one trailing blank more or less): dependencies, relations and
      # the lookup indexes of T are dropped and rebuilt over the rows that exist now
      self.toggle ^= 1
      pad = " " * self.toggle
      reply = adapter.apply(self.eng, [["ModifyColumn", "O", "c%d" % (j + 1), {"formula": f + pad}]
                                       for j, f in enumerate(self.formulas)])
    else:
      reply = adapter.apply(self.eng, [self.action(e, last_undo)])
    return reply["undo"]

  def run(self, h):
    self.used += 1
    self.reset(h["probes"])
    out = []
    last_undo = None
    if h["init"]:
      reply = adapter.apply(self.eng, [["BulkAddRecord", "T", [None] * len(h["init"]), self._cols(h["init"])]])
      last_undo = reply["undo"]
    out.append(self.observe())
    exc = ""
    for e in h["edits"]:
      try:
        last_undo = self.apply_edit(e, last_undo)
      except adapter.MachineryError:
        raise
      except Exception as ex:   # pylint: disable=broad-except
        exc = type(ex).__name__
        break
      out.append(self.observe())
    return out, exc


def blank(step):
  return {"ty": step["ty"], "rows": [], "probes": [], "cells": [], "errs": [], "di": 0, "dn": 0}


def main():
  args = json.loads(sys.argv[1])
  data = json.load(open(args["inp"]))
  fresh = bool(args.get("fresh"))
  obsets = data["obsets"]
  cases = []
  sess, sess_ox, s0 = None, None, 1
  records = {}
  prev = None                      # (history, full recorded out) of the previous case
  for h in data["hist"]:
    ox = h["ox"]
    before = h.get("session") or []
    if sess is None or sess_ox != ox or fresh or before or sess.used >= SESSION:
      sess, sess_ox, s0 = Session(obsets[ox - 1]), ox, len(cases) + 1
    try:
      for b in before:             # a recorded session: the histories that ran before this one
        sess.run(b)
      out, exc = sess.run(h)
    except adapter.MachineryError:
      raise
    except Exception:              # the engine itself is in doubt: do not reuse it
      sess = None
      raise
    shared = 0
    if prev is not None and not fresh and not exc and not before:
      ph, pout = prev
      if ph["ox"] == ox and ph["probes"] == h["probes"] and ph["init"] == h["init"]:
        shared = 1
        while shared <= min(len(h["edits"]), len(ph["edits"])) and shared < len(out) and shared < len(pout) \
              and h["edits"][shared - 1] == ph["edits"][shared - 1]:
          shared += 1
        # only what was recorded identically counts as judged already
        n = 0
        while n < shared and out[n] == pout[n]:
          n += 1
        shared = n
    prev = (h, [dict(s) for s in out]) if not exc else None
    # a record identical to one recorded earlier in this file (same observers) is marked, not judged twice
    for n, s in enumerate(out):
      s["di"] = s["dn"] = 0
    for n, s in enumerate(out):
      if n >= shared:
        key = (ox, json.dumps([s["ty"], s["rows"], s["probes"], s["cells"], s["errs"]], sort_keys=True))
        first = records.setdefault(key, (len(cases) + 1, n))
        if first != (len(cases) + 1, n):
          out[n] = dict(s, di=first[0], dn=first[1])
    cases.append({"inp": h, "out": [blank(s) if n < shared else s for n, s in enumerate(out)],
                  "from": shared, "exc": exc, "s0": s0})
    # after an exception, a type change or ReplaceTableData the engine is not used again: on the
    # unchanged tree both leave the lookup helpers of T in a state that later histories would inherit
    if exc or before or any(e["op"] in ("retype", "repl") for e in h["edits"]):
      sess = None
  json.dump({"obsets": obsets, "cases": cases}, open(args["out"], "w"))


if __name__ == "__main__":
  main()
