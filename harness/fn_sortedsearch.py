"""
Worker for C14: watch the real RecordSet.find.lt/le/gt/ge/eq and PREVIOUS / NEXT / RANK of
/repo/sandbox/grist through formula columns of a real engine and write judgement-free cases for
spec/Trace_SortedSearch.tla.
argv[1] = JSON {"inp": <inputs file>, "out": <cases file>, "obs": <observers file>, "fresh": bool}.

The observers file is what TLC wrote from SortedSearch!FindObs / PosObs:
  {"F": {set: [{"grp", "mode", "ob": [{"c", "desc"}], "pr": ["g0"|"q", ...]}, ...]},
   "P": {set: [{"gb", "ob": [...]}, ...]}}
For an observer set the worker keeps one engine with two tables
  T(g: Int, s: Any) + one formula column per position observer and operation:
      PREVIOUS(rec, [group_by="g",] order_by=<ob>).id      NEXT(...).id
      RANK(rec, [group_by="g",] order_by=<ob>)             RANK(..., order="desc")
  O(g0: Int, q: Any) + one formula column per find observer and operation:
      T.lookupRecords([g=$g0,] order_by|sort_by=<ob>).find.<lt|le|gt|ge|eq>(<pr>).id

An input is a history of T:
  {"set": observer set, "rows": [{"id", "ms" (TWICE manualSort), "g", "s": tagged value}],
   "pr": [{"g0", "q": tagged value}], "steps": [{"op": "set_s"|"set_g"|"rm"|"add", "id", "g", "s"}]}
A tagged value is {"k": "z"|"i"|"f"|"b"|"s", "n": twice the number, "s": [code points]}.

A case is {"inp": input, "out": [one observation per table state], "exc": "" | exception class,
"errs": [...]}: the first observation is taken after the set-up, one more after every step.  An
observation is
  t   the stored rows of T as read back from the engine ({"id", "ms", "g", "s"})
  pr  the stored rows of O ({"g0", "q"})
  f   per find observer, per row of O: [lt, le, gt, ge, eq]         (ids; 0 = the empty record)
  p   per position observer, per row of T: [prev, next, rank, rank desc]
      a result that is not an int: -1 if the formula raised, -2 otherwise
errs lists "<state>:<column>:<row>:<error class>" of the formulas that raised (for messages only).

Nothing is judged here.  T and O are emptied and re-filled with BulkRemoveRecord / BulkAddRecord doc
actions before every history (see Runner.refill), the steps are ordinary user actions.
"""
import json
import sys

import adapter

FIND_OPS = ("lt", "le", "gt", "ge", "eq")
POS_OPS = ("prev", "next", "rank", "rankd")
ENGINE_REUSE = 300          # histories per engine


# ---------------------------------------------------------------------------------------------
# tagged values
# ---------------------------------------------------------------------------------------------
def untag(v):
  k = v["k"]
  if k == "z":
    return None
  if k == "i":
    assert v["n"] % 2 == 0
    return v["n"] // 2
  if k == "f":
    return v["n"] / 2.0
  if k == "b":
    return bool(v["n"])
  if k == "s":
    return "".join(chr(c) for c in v["s"])
  raise adapter.MachineryError("cannot decode value %r" % (v,))


def tag(x):
  """What the engine holds, as a tagged value ("?" for anything the specification does not model)."""
  if x is None:
    return {"k": "z", "n": 0, "s": []}
  if isinstance(x, bool):
    return {"k": "b", "n": 2 if x else 0, "s": []}
  if isinstance(x, int) and abs(x) < 2 ** 29:
    return {"k": "i", "n": 2 * x, "s": []}
  if isinstance(x, float) and abs(x) < 2 ** 29 and float(int(2 * x)) == 2 * x:
    return {"k": "f", "n": int(2 * x), "s": []}
  if isinstance(x, str) and all(ord(c) < 2 ** 20 for c in x):
    return {"k": "s", "n": 0, "s": [ord(c) for c in x]}
  return {"k": "?", "n": 0, "s": []}


def small_int(x, what):
  if isinstance(x, bool) or not isinstance(x, int) or abs(x) >= 2 ** 30:
    raise adapter.MachineryError("%s is not a small int: %r" % (what, x))
  return x


# ---------------------------------------------------------------------------------------------
# observers -> formulas
# ---------------------------------------------------------------------------------------------
def order_arg(mode, ob):
  items = [("-" if it["desc"] else "") + it["c"] for it in ob]
  if mode == "sort_by":
    assert len(items) == 1
    return "sort_by=%r" % items[0]
  if not items:
    return "order_by=None"
  if len(items) == 1:
    return "order_by=%r" % items[0]
  return "order_by=%r" % (tuple(items),)


def find_formula(fo, op):
  return "T.lookupRecords(%s%s).find.%s(%s).id" % (
    "g=$g0, " if fo["grp"] else "", order_arg(fo["mode"], fo["ob"]), op,
    ", ".join("$" + name for name in fo["pr"]))


def pos_formula(po, op):
  args = "rec, %s%s" % ('group_by="g", ' if po["gb"] else "", order_arg("order_by", po["ob"]))
  if op == "prev":
    return "PREVIOUS(%s).id" % args
  if op == "next":
    return "NEXT(%s).id" % args
  if op == "rank":
    return "RANK(%s)" % args
  return 'RANK(%s, order="desc")' % args


def formulas(obs, oset):
  """{"O": [(col id, formula)], "T": [...]} (also used by the check to print a formula)."""
  out = {"O": [], "T": []}
  for fi, fo in enumerate(obs["F"][oset]):
    for op in FIND_OPS:
      out["O"].append(("f%d_%s" % (fi + 1, op), find_formula(fo, op)))
  for pi, po in enumerate(obs["P"][oset]):
    for op in POS_OPS:
      out["T"].append(("p%d_%s" % (pi + 1, op), pos_formula(po, op)))
  return out


# ---------------------------------------------------------------------------------------------
def doc_apply(eng, doc_action_reprs):
  eng.apply_user_actions([adapter.useractions.from_repr(["ApplyDocActions", doc_action_reprs])])


class Runner(object):
  def __init__(self, obs, fresh=False, replace_setup=False):
    self.obs = obs
    self.fresh = fresh
    self.replace_setup = replace_setup       # experiments only
    self.engines = {}        # observer set -> [engine, uses]

  def engine(self, oset):
    ent = self.engines.get(oset)
    if ent is None or ent[1] >= ENGINE_REUSE or self.fresh:
      eng = adapter.new_engine()
      adapter.apply(eng, [["InitNewDoc"]])
      adapter.apply(eng, [["AddTable", "T", [{"id": "g", "type": "Int", "isFormula": False},
                                             {"id": "s", "type": "Any", "isFormula": False}]]])
      adapter.apply(eng, [["AddTable", "O", [{"id": "g0", "type": "Int", "isFormula": False},
                                             {"id": "q", "type": "Any", "isFormula": False}]]])
      fm = formulas(self.obs, oset)
      for table in ("T", "O"):
        for col, formula in fm[table]:
          adapter.apply(eng, [["AddColumn", table, col, {"type": "Any", "isFormula": True, "formula": formula}]])
      ent = self.engines[oset] = [eng, 0]
    ent[1] += 1
    return ent[0]

  def run(self, inp):
    eng = self.engine(inp["set"])
    case = {"inp": inp, "out": [], "exc": "", "errs": []}
    try:
      self._history(eng, inp, case)
    except adapter.MachineryError:
      raise
    except Exception as e:     # pylint: disable=broad-except
      # an exception that escaped a user action: recorded; the engine is not reused
      case["exc"] = type(e).__name__
      self.engines.pop(inp["set"], None)
    return case

  def _history(self, eng, inp, case):
    rows, pr = inp["rows"], inp["pr"]
    ids = [r["id"] for r in rows]
    self.refill(eng, "O", list(range(1, len(pr) + 1)),
                {"g0": [p["g0"] for p in pr], "q": [untag(p["q"]) for p in pr],
                 "manualSort": [float(j + 1) for j in range(len(pr))]})
    self.refill(eng, "T", ids, {"g": [r["g"] for r in rows], "s": [untag(r["s"]) for r in rows],
                                "manualSort": [r["ms"] / 2.0 for r in rows]})
    ob = self.observe(eng, inp["set"], case, 0)
    want_t = sorted(rows, key=lambda r: r["id"])
    if ob["t"] != [{"id": r["id"], "ms": r["ms"], "g": r["g"], "s": r["s"]} for r in want_t] or \
       ob["pr"] != [{"g0": p["g0"], "q": p["q"]} for p in pr]:
      raise adapter.MachineryError("set-up failed: wanted %r / %r, the engine holds %r / %r"
                                   % (want_t, pr, ob["t"], ob["pr"]))
    case["out"].append(ob)
    for n, st in enumerate(inp["steps"]):
      if st["op"] == "set_s":
        ua = ["UpdateRecord", "T", st["id"], {"s": untag(st["s"])}]
      elif st["op"] == "set_g":
        ua = ["UpdateRecord", "T", st["id"], {"g": st["g"]}]
      elif st["op"] == "rm":
        ua = ["RemoveRecord", "T", st["id"]]
      elif st["op"] == "add":
        ua = ["AddRecord", "T", None, {"g": st["g"], "s": untag(st["s"])}]
      else:
        raise adapter.MachineryError("unknown step %r" % (st,))
      adapter.apply(eng, [ua])
      case["out"].append(self.observe(eng, inp["set"], case, n + 1))

  def refill(self, eng, table_id, ids, columns):
    """Empty the table and add the given rows with BulkRemoveRecord / BulkAddRecord DOC actions: the
    path every edit of a document ends in (cells, manualSort and row ids are taken as given).
    (The ReplaceTableData doc action is Engine.load_table: it clears the columns, the lookup maps
    included, without telling the dependent formulas - not a way to prepare a table that is watched.)"""
    if self.replace_setup:
      doc_apply(eng, [["ReplaceTableData", table_id, ids, columns]])
      return
    old = [int(r) for r in eng.fetch_table(table_id, formulas=False).row_ids]
    acts = ([["BulkRemoveRecord", table_id, old]] if old else []) + \
           ([["BulkAddRecord", table_id, ids, columns]] if ids else [])
    if acts:
      doc_apply(eng, acts)

  def observe(self, eng, oset, case, state):
    fm = formulas(self.obs, oset)
    t = eng.fetch_table("T", formulas=True)
    o = eng.fetch_table("O", formulas=True)

    def result(table, col, k, x):
      if isinstance(x, int) and not isinstance(x, bool) and 0 <= x < 2 ** 30:
        return x
      if isinstance(x, adapter.objtypes.RaisedException):
        case["errs"].append("%d:%s.%s:%d:%s" % (state, table, col, k + 1, type(x.error).__name__))
        return -1
      return -2

    t_ids = [small_int(r, "row id") for r in t.row_ids]
    order = sorted(range(len(t_ids)), key=lambda k: t_ids[k])
    rows = []
    for k in order:
      ms = t.columns["manualSort"][k]
      if not isinstance(ms, (int, float)) or float(int(2 * ms)) != 2 * ms or abs(ms) >= 2 ** 29:
        raise adapter.MachineryError("manualSort %r cannot be passed to TLC" % (ms,))
      rows.append({"id": t_ids[k], "ms": int(2 * ms), "g": small_int(t.columns["g"][k], "g"),
                   "s": tag(t.columns["s"][k])})
    pr = [{"g0": small_int(o.columns["g0"][j], "g0"), "q": tag(o.columns["q"][j])}
          for j in range(len(o.row_ids))]
    if list(o.row_ids) != list(range(1, len(pr) + 1)):
      raise adapter.MachineryError("rows of O: %r" % (list(o.row_ids),))
    nf, np_ = len(self.obs["F"][oset]), len(self.obs["P"][oset])
    f = [[[result("O", "f%d_%s" % (fi + 1, op), j, o.columns["f%d_%s" % (fi + 1, op)][j]) for op in FIND_OPS]
          for j in range(len(pr))] for fi in range(nf)]
    p = [[[result("T", "p%d_%s" % (pi + 1, op), k, t.columns["p%d_%s" % (pi + 1, op)][k]) for op in POS_OPS]
          for k in order] for pi in range(np_)]
    assert len(fm["O"]) == nf * len(FIND_OPS) and len(fm["T"]) == np_ * len(POS_OPS)
    return {"t": rows, "pr": pr, "f": f, "p": p}


def main():
  args = json.loads(sys.argv[1])
  inputs = json.load(open(args["inp"]))
  obs = json.load(open(args["obs"]))
  runner = Runner(obs, fresh=bool(args.get("fresh")), replace_setup=bool(args.get("replace_setup")))
  cases = [runner.run(inp) for inp in inputs]
  json.dump(cases, open(args["out"], "w"))
  # the formulas that were used, for the messages of the check
  json.dump({oset: formulas(obs, oset) for oset in obs["F"]}, open(args["out"] + ".formulas.json", "w"))


if __name__ == "__main__":
  main()
