"""Worker: run the real treeview.fix_indents on the inputs TLC enumerated. argv[1] = JSON args."""
import json
import sys
from collections import namedtuple

import treeview

Item = namedtuple("Item", ("id", "indentation"))


def main():
  args = json.loads(sys.argv[1])
  inputs = json.load(open(args["inp"]))
  cases = []
  for inp in inputs:
    items = [Item(i + 1, ind) for i, ind in enumerate(inp["ind"])]
    try:
      out = treeview.fix_indents(items, set(inp["del"]))
      cases.append({"inp": inp, "out": [[int(a), int(b)] for a, b in out], "exc": ""})
    except Exception as e:   # pylint: disable=broad-except
      cases.append({"inp": inp, "out": [], "exc": type(e).__name__})
  json.dump(cases, open(args["out"], "w"))


main()
