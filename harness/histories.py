"""
History driver: one seeded random history on a real engine -> one recorded trace.

Protocol of a history (DESIGN.md section 6, C01-C04, C07, C08, C31):
  InitNewDoc, then n bundles; a bundle that raises is followed by a Calculate (tag "quiet");
  a successful bundle is, with probability 1/2, undone (ApplyUndoActions of the undo it returned) and
  then (usually) redone (ApplyDocActions of the stored actions it returned); at the end every live
  bundle is undone in reverse order, which must lead back to the state after InitNewDoc.
"""
import random

import adapter
from gen import Gen, DocView
from record import Recorder


def run_history(seed, profile="general", n_bundles=20, invalid_prob=0.15, undo_prob=0.5,
                tid=None, hooks=None, peer_every=5):
  rng = random.Random("hist-%s" % (seed,))
  gen = Gen("gen-%s" % (seed,), profile)
  rec = Recorder(tid=tid or "%s-%d" % (profile, seed))
  rec.keep_states = bool(hooks and hooks.get("keep_states"))
  # The trace starts from the empty document; InitNewDoc is the first event.
  rec.state = {}
  rec.init_state = {}
  rec.schema = {}
  rec.init_schema = {}
  rec.bundle([['InitNewDoc']], tag="init")
  live = []     # stack of (event index, undo action reprs)
  for uas in gen.setup_bundles():
    _, reply, exc = rec.bundle(uas, note=uas_note(uas))
    if exc is None:
      live.append((len(rec.events), reply['undo']))

  for step in range(n_bundles):
    if peer_every and step % peer_every == peer_every - 1:
      rec.reopen_event()
      rec.rebuild_event()
    view = DocView(rec.eng)
    uas = gen.bundle(view, invalid_prob=invalid_prob)
    if hooks and hooks.get("before_bundle"):
      hooks["before_bundle"](rec, uas)
    ev, reply, exc = rec.bundle(uas, note=uas_note(uas))
    idx = len(rec.events)
    if exc is not None:
      rec.bundle([['Calculate']], tag="quiet", clause="C04.quiet")
      continue
    if rng.random() < undo_prob:
      _, r2, e2 = rec.bundle([['ApplyUndoActions', reply['undo']]], tag="undo", of=idx)
      if e2 is None and rng.random() < 0.7:
        _, r3, e3 = rec.bundle([['ApplyDocActions', reply['stored']]], tag="redo", of=idx)
        if e3 is None:
          live.append((len(rec.events), r3['undo']))
      elif e2 is not None:
        # undo raised (reported as C01.applies): the bundle is still applied (C04); its undo is known not
        # to work, so older bundles cannot be unwound through it: start a new unwinding base here
        live = []
    else:
      live.append((idx, reply['undo']))

  for idx, undo in reversed(live):
    _, _, e = rec.bundle([['ApplyUndoActions', undo]], tag="undo", of=idx)
    if e is not None:
      break      # the undo itself failed (C01.applies): older snapshots no longer correspond
  return rec


def uas_note(uas):
  """Abstract of the user actions for samples / signatures: names + table/column arguments only."""
  out = []
  for u in uas:
    item = [u[0]]
    for a in u[1:3]:
      if isinstance(a, str):
        item.append(a)
    out.append(" ".join(item))
  return out


POISON = ['RemoveRecord', 'NoSuchTable_verif_poison', 1]


def run_fault_history(seed, profile="general", n_bundles=12, probe_prob=0.6, max_positions=10, tid=None,
                      hooks=None):
  """
  C04 fault enumeration on a real history.  Before a sampled bundle is applied for real:
    1. dry run: the bundle plus a poison action that fails last (a later action failing after earlier
       ones succeeded) - counts the doc-action boundaries and rebuild_usercode calls of the bundle;
    2. for each boundary position (all of them when <= max_positions, else a seeded sample): the same
       bundle with InjectedFault armed before/after that doc action or inside that rebuild_usercode;
  every failed call is followed by a Calculate.  Trace_Doc judges C04.unchanged / C04.schema /
  C08.schema on the failed call and C04.quiet on the Calculate; since every probe must leave no
  trace, the history continues exactly as if no probe had happened (C04.usable).
  """
  import faults    # pylint: disable=import-outside-toplevel
  rng = random.Random("fault-%s" % (seed,))
  gen = Gen("gen-%s" % (seed,), profile)
  rec = Recorder(tid=tid or "fault:%s-%d" % (profile, seed))
  rec.keep_states = bool(hooks and hooks.get("keep_states"))
  rec.state, rec.init_state, rec.schema, rec.init_schema = {}, {}, {}, {}
  rec.bundle([['InitNewDoc']], tag="init")
  fw = faults.FaultWrapper(rec.eng)
  probes = 0
  for _ in range(n_bundles):
    view = DocView(rec.eng)
    uas = gen.bundle(view, invalid_prob=0.1)
    note = uas_note(uas)
    if rng.random() < probe_prob:
      fw.reset()
      rec.bundle(uas + [POISON], note=note + ["<poison>"])
      n_act, n_reb = fw.n_actions, fw.n_rebuilds
      rec.bundle([['Calculate']], tag="quiet", clause="C04.quiet")
      positions = [("before", k) for k in range(1, n_act + 1)] + \
                  [("after", k) for k in range(1, n_act + 1)] + \
                  [("rebuild", k) for k in range(1, n_reb + 1)]
      if len(positions) > max_positions:
        positions = rng.sample(positions, max_positions)
      for kind, k in positions:
        fw.arm(kind, k)
        ev, _, exc = rec.bundle(uas, note=note + ["<fault %s %d>" % (kind, k)])
        ev["fault"] = [kind, k]
        ev["fired"] = bool(fw.fired)
        probes += 1
        fw.reset()
        if exc is not None:
          rec.bundle([['Calculate']], tag="quiet", clause="C04.quiet")
        else:
          # the fault position was not reached (e.g. the bundle raised earlier on its own): the bundle
          # was applied for real; go on with the next bundle
          break
      else:
        fw.reset()
        _, _, exc = rec.bundle(uas, note=note)
        if exc is not None:
          rec.bundle([['Calculate']], tag="quiet", clause="C04.quiet")
    else:
      fw.reset()
      _, _, exc = rec.bundle(uas, note=note)
      if exc is not None:
        rec.bundle([['Calculate']], tag="quiet", clause="C04.quiet")
  rec.n_probes = probes
  return rec


def run_readonly_history(seed, profile="summary", n_bundles=10, tid=None, hooks=None):
  """
  C29: after every bundle of a history on documents with side-effecting formulas (summary tables use
  lookupOrAddDerived), a batch of read-only calls with enumerated / random arguments, then Calculate.
  """
  rng = random.Random("ro-%s" % (seed,))
  gen = Gen("gen-%s" % (seed,), profile)
  rec = Recorder(tid=tid or "ro:%s-%d" % (profile, seed))
  rec.keep_states = bool(hooks and hooks.get("keep_states"))
  rec.state, rec.init_state, rec.schema, rec.init_schema = {}, {}, {}, {}
  rec.bundle([['InitNewDoc']], tag="init")
  for uas in gen.setup_bundles():
    rec.bundle(uas, note=uas_note(uas))
  for _ in range(n_bundles):
    view = DocView(rec.eng)
    uas = gen.bundle(view, invalid_prob=0.05)
    _, _, exc = rec.bundle(uas, note=uas_note(uas))
    view = DocView(rec.eng)
    tabs = view.user_tables(summary=True)
    calls = [("fetch_meta_tables", [])]
    for t in rng.sample(tabs, min(3, len(tabs))):
      cols = sorted(view.tables[t]["cols"])
      rows = view.tables[t]["rows"]
      calls.append(("fetch_table", [t]))
      fcols = [c for c in cols if view.tables[t]["cols"][c][2]] or cols
      dcols = view.data_cols(t)
      if cols and rows:
        c, r = rng.choice(fcols), rng.choice(rows)
        calls.append(("get_formula_error", [t, c, r]))
        calls.append(("evaluate_formula", [t, rng.choice(fcols), rng.choice(rows)]))
        calls.append(("autocomplete", [rng.choice(["$", "rec.", "%s.lookupRecords(" % t, "$%s." % c, "len("]),
                                       t, rng.choice(cols), rng.choice(rows + ["new"]), None]))
      if cols:
        calls.append(("get_formula_prompt", [t, rng.choice(cols)]))
      if dcols:
        qc = rng.choice(dcols)
        calls.append(("fetch_table_query", [t, {qc: [gen.value(view.tables[t]["cols"][qc][1], view), 1, "a"]}]))
      calls.append(("find_col_from_values", [[1, 2, "a", "b", 3], 3, rng.choice([None, t])]))
    # rows of the hidden summary helper columns evaluate lookupOrAddDerived
    for t in tabs:
      for c in list(rec.eng.tables[t].all_columns):
        if c.startswith("#summary#") and view.tables[t]["rows"]:
          calls.append(("get_formula_error", [t, c, rng.choice(view.tables[t]["rows"])]))
    for call, args in calls:
      rec.readonly_event(call, args)
    rec.bundle([['Calculate']], tag="quiet", clause="C29.quiet")
  return rec


def run_script(name, tid=None, hooks=None):
  """
  A scripted history (harness/witness/<name>.json): the specific input of a known finding or of a
  repaired defect, replayed on every run.  Steps: ["apply", [user actions]] | ["undo"] (undo the last
  applied bundle) | ["redo"] (re-apply the stored actions of the bundle just undone) | ["reopen"] |
  ["rebuild"] | ["calc"] | ["readonly", call, args].
  """
  import json, os    # pylint: disable=import-outside-toplevel,multiple-imports
  path = os.path.join(os.path.dirname(os.path.abspath(__file__)), "witness", name + ".json")
  script = json.load(open(path))
  rec = Recorder(tid=tid or "script:%s-0" % name)
  rec.keep_states = bool(hooks and hooks.get("keep_states"))
  rec.state, rec.init_state, rec.schema, rec.init_schema = {}, {}, {}, {}
  rec.bundle([['InitNewDoc']], tag="init")
  last = None       # (event index, reply) of the last successfully applied bundle
  undone = None
  for step in script["steps"]:
    kind = step[0]
    if kind == "apply":
      _, reply, exc = rec.bundle(step[1], note=uas_note(step[1]))
      if exc is None:
        last = (len(rec.events), reply)
      else:
        rec.bundle([['Calculate']], tag="quiet", clause="C04.quiet")
    elif kind == "undo" and last:
      rec.bundle([['ApplyUndoActions', last[1]['undo']]], tag="undo", of=last[0])
      undone, last = last, None
    elif kind == "redo" and undone:
      _, reply, exc = rec.bundle([['ApplyDocActions', undone[1]['stored']]], tag="redo", of=undone[0])
      if exc is None:
        last = (len(rec.events), reply)
      undone = None
    elif kind == "reopen":
      rec.reopen_event()
    elif kind == "rebuild":
      rec.rebuild_event()
    elif kind == "calc":
      rec.bundle([['Calculate']], tag="quiet", clause=step[1] if len(step) > 1 else "C04.quiet")
    elif kind == "readonly":
      rec.readonly_event(step[1], step[2])
    elif kind == "fault":
      # ["fault", kind, k, [user actions]]: the bundle with InjectedFault armed, then Calculate
      import faults    # pylint: disable=import-outside-toplevel
      fw = getattr(rec, "_fw", None) or faults.FaultWrapper(rec.eng)
      rec._fw = fw
      fw.arm(step[1], step[2])
      ev, reply, exc = rec.bundle(step[3], note=uas_note(step[3]) + ["<fault %s %d>" % (step[1], step[2])])
      ev["fault"] = [step[1], step[2]]
      ev["fired"] = bool(fw.fired)
      fw.reset()
      if exc is not None:
        rec.bundle([['Calculate']], tag="quiet", clause="C04.quiet")
      else:
        last = (len(rec.events), reply)
  return rec
