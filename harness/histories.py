"""
History driver: one seeded random history on a real engine -> one recorded trace.

Protocol of a history (DESIGN.md section 6, C01-C04, C07, C08, C31):
  InitNewDoc, then n bundles; a bundle that raises is followed by a Calculate (tag "quiet");
  a successful bundle is, with probability 1/2, undone (ApplyUndoActions of the undo it returned) and
  then (usually) redone (ApplyDocActions of the stored actions it returned); at the end every live
  bundle is undone in reverse order, which must lead back to the state after InitNewDoc.
"""
import random

import adapter
from gen import Gen, DocView
from record import Recorder


def run_history(seed, profile="general", n_bundles=20, invalid_prob=0.15, undo_prob=0.5,
                tid=None, hooks=None):
  rng = random.Random("hist-%s" % (seed,))
  gen = Gen("gen-%s" % (seed,), profile)
  rec = Recorder(tid=tid or "%s-%d" % (profile, seed))
  # The trace starts from the empty document; InitNewDoc is the first event.
  rec.state = {}
  rec.init_state = {}
  rec.schema = {}
  rec.init_schema = {}
  rec.bundle([['InitNewDoc']], tag="init")
  live = []     # stack of (event index, undo action reprs)

  for _ in range(n_bundles):
    view = DocView(rec.eng)
    uas = gen.bundle(view, invalid_prob=invalid_prob)
    if hooks and hooks.get("before_bundle"):
      hooks["before_bundle"](rec, uas)
    ev, reply, exc = rec.bundle(uas, note=uas_note(uas))
    idx = len(rec.events)
    if exc is not None:
      rec.bundle([['Calculate']], tag="quiet", clause="C04.quiet")
      continue
    if rng.random() < undo_prob:
      _, r2, e2 = rec.bundle([['ApplyUndoActions', reply['undo']]], tag="undo", of=idx)
      if e2 is None and rng.random() < 0.7:
        _, r3, e3 = rec.bundle([['ApplyDocActions', reply['stored']]], tag="redo", of=idx)
        if e3 is None:
          live.append((len(rec.events), r3['undo']))
      elif e2 is not None:
        # undo raised: the bundle is still applied (C04), keep it live
        live.append((idx, reply['undo']))
    else:
      live.append((idx, reply['undo']))

  for idx, undo in reversed(live):
    rec.bundle([['ApplyUndoActions', undo]], tag="undo", of=idx)
  return rec


def uas_note(uas):
  """Abstract of the user actions for samples / signatures: names + table/column arguments only."""
  out = []
  for u in uas:
    item = [u[0]]
    for a in u[1:3]:
      if isinstance(a, str):
        item.append(a)
    out.append(" ".join(item))
  return out
