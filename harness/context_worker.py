"""
Re-run one deterministic history and print the Python-side context of event l as JSON (for replay
files and known-finding matchers; never a verdict).  argv[1] = {"profile","seed","n_bundles","l"}.
"""
import json
import sys

import adapter   # noqa: F401
import histories


def cell_diffs(a, b, eng_schema=None, limit=60):
  out = []
  for t in sorted(set(a) | set(b)):
    if t not in a or t not in b:
      out.append({"t": t, "c": "", "kind": "table-missing-in-" + ("first" if t not in a else "second")})
      continue
    if a[t] == b[t]:
      continue
    ra, rb = a[t]["rows"], b[t]["rows"]
    if ra != rb:
      out.append({"t": t, "c": "", "kind": "rows", "a": ra[:20], "b": rb[:20]})
      continue
    for c in sorted(set(a[t]["cols"]) | set(b[t]["cols"])):
      ca, cb = a[t]["cols"].get(c), b[t]["cols"].get(c)
      if ca == cb:
        continue
      if ca is None or cb is None:
        out.append({"t": t, "c": c, "kind": "column-missing-in-" + ("first" if ca is None else "second")})
        continue
      cells = [[r, x, y] for r, x, y in zip(ra, ca, cb) if x != y]
      out.append({"t": t, "c": c, "kind": "cells", "cells": cells[:limit]})
  return out


def groupby_oddities(state):
  """{summary table ref: kinds of unusual values found in the source cells of its group-by columns}
  (facts about the recorded document for known-finding matchers; never a verdict):
    error   an error value (a data column whose default / trigger formula raised)
    bool    True / False in a column that is not Bool or Any
    negref  a negative number in a Ref column
    list    a list in a column that is not ChoiceList / RefList"""
  def num(tok):
    try:
      return int(float(tok[1:])) if isinstance(tok, str) and tok.startswith("#") else 0
    except ValueError:
      return 0
  out = {}
  try:
    T, C = state["_grist_Tables"], state["_grist_Tables_column"]
    tname = {r: t[1:] for r, t in zip(T["rows"], T["cols"]["tableId"])}
    cname = {r: c[1:] for r, c in zip(C["rows"], C["cols"]["colId"])}
    for tref, src in zip(T["rows"], T["cols"]["summarySourceTable"]):
      src = num(src)
      if not src or tname.get(src) not in state:
        continue
      S = state[tname[src]]
      kinds = set()
      for cref, parent, ssc in zip(C["rows"], C["cols"]["parentId"], C["cols"]["summarySourceCol"]):
        if num(parent) != tref or not num(ssc):
          continue
        col = cname.get(num(ssc))
        if col not in S["cols"]:
          continue
        base = S.get("base", {}).get(col, "")
        for tok in S["cols"][col]:
          if tok.startswith("E"):
            kinds.add("error")
          elif tok in ("b0", "b1") and base not in ("Bool", "Any"):
            kinds.add("bool")
          elif tok.startswith("#-") and base == "Ref":
            kinds.add("negref")
          elif tok.startswith("L") and base not in ("ChoiceList", "RefList"):
            kinds.add("list")
      if kinds:
        out[str(tref)] = sorted(kinds)
  except Exception as e:   # pylint: disable=broad-except
    out["?"] = [type(e).__name__]
  return out


def main():
  args = json.loads(sys.argv[1])
  l = args["l"]
  if args["profile"].startswith("script:"):
    rec = histories.run_script(args["profile"][7:], hooks={"keep_states": True})
  elif args["profile"].startswith("ro:"):
    rec = histories.run_readonly_history(args["seed"], profile=args["profile"][3:], n_bundles=args["n_bundles"],
                                         hooks={"keep_states": True})
  elif args["profile"].startswith("fault:"):
    rec = histories.run_fault_history(args["seed"], profile=args["profile"][6:], n_bundles=args["n_bundles"],
                                      hooks={"keep_states": True}, **args.get("kw", {}))
  else:
    rec = histories.run_history(args["seed"], profile=args["profile"], n_bundles=args["n_bundles"],
                                hooks={"keep_states": True}, **args.get("kw", {}))
  ev = rec.events[l - 1]
  states = rec.states
  def before(i):     # state before event i (1-based)
    return states[i - 2] if i >= 2 else {}
  ctx = {"tag": ev["tag"], "k": ev["k"], "of": ev["of"], "exc": ev.get("exc", ""),
         "uas": rec.full[l - 1], "note": ev["uas"], "fault": ev.get("fault"), "fired": ev.get("fired")}
  raw = rec.raw[l - 1]
  if isinstance(raw, dict) and "stored" in raw:
    ctx["stored_names"] = [a[0] for a in raw["stored"]]
  if ev["tag"] in ("undo", "redo") and ev["of"]:
    of = ev["of"]
    ctx["of_uas"] = rec.full[of - 1]
    ro = rec.raw[of - 1]
    if isinstance(ro, dict) and "stored" in ro:
      ctx["of_stored"] = [[a[0], a[1]] + ([a[2]] if a[0].endswith("Column") else []) +
                          ([sorted(a[3].keys())] if a[0] == "ModifyColumn" else []) for a in ro["stored"]]
    ref = before(of) if ev["tag"] == "undo" else states[of - 1]
    ctx["diffs"] = cell_diffs(ref, states[l - 1])
  elif ev["k"] == "P":
    ctx["diffs"] = cell_diffs(states[l - 1], rec.peers[l - 1])
  else:
    ctx["diffs"] = cell_diffs(before(l), states[l - 1]) if ev["k"] in ("F", "Q") or ev["tag"] == "quiet" else []
  # column facts for the differing cells: formula flag, type
  facts = {}
  for d in ctx["diffs"]:
    if d.get("c"):
      col = rec.colfacts[l - 1].get(d["t"], {}).get(d["c"])
      if col:
        facts["%s.%s" % (d["t"], d["c"])] = {"type": col[0], "isFormula": bool(col[1]), "formula": col[2]}
  ctx["cols"] = facts
  ctx["groupby_oddities"] = groupby_oddities(states[l - 1])
  print(json.dumps(ctx))


main()
