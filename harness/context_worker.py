"""
Re-run one deterministic history and print the Python-side context of event l as JSON (for replay
files and known-finding matchers; never a verdict).  argv[1] = {"profile","seed","n_bundles","l"}.
"""
import json
import sys

import adapter   # noqa: F401
import histories


def cell_diffs(a, b, eng_schema=None, limit=60):
  out = []
  for t in sorted(set(a) | set(b)):
    if t not in a or t not in b:
      out.append({"t": t, "c": "", "kind": "table-missing-in-" + ("first" if t not in a else "second")})
      continue
    if a[t] == b[t]:
      continue
    ra, rb = a[t]["rows"], b[t]["rows"]
    if ra != rb:
      out.append({"t": t, "c": "", "kind": "rows", "a": ra[:20], "b": rb[:20]})
      continue
    for c in sorted(set(a[t]["cols"]) | set(b[t]["cols"])):
      ca, cb = a[t]["cols"].get(c), b[t]["cols"].get(c)
      if ca == cb:
        continue
      if ca is None or cb is None:
        out.append({"t": t, "c": c, "kind": "column-missing-in-" + ("first" if ca is None else "second")})
        continue
      cells = [[r, x, y] for r, x, y in zip(ra, ca, cb) if x != y]
      out.append({"t": t, "c": c, "kind": "cells", "cells": cells[:limit]})
  return out


def main():
  args = json.loads(sys.argv[1])
  l = args["l"]
  if args["profile"].startswith("script:"):
    rec = histories.run_script(args["profile"][7:], hooks={"keep_states": True})
  elif args["profile"].startswith("ro:"):
    rec = histories.run_readonly_history(args["seed"], profile=args["profile"][3:], n_bundles=args["n_bundles"],
                                         hooks={"keep_states": True})
  elif args["profile"].startswith("fault:"):
    rec = histories.run_fault_history(args["seed"], profile=args["profile"][6:], n_bundles=args["n_bundles"],
                                      hooks={"keep_states": True}, **args.get("kw", {}))
  else:
    rec = histories.run_history(args["seed"], profile=args["profile"], n_bundles=args["n_bundles"],
                                hooks={"keep_states": True}, **args.get("kw", {}))
  ev = rec.events[l - 1]
  states = rec.states
  def before(i):     # state before event i (1-based)
    return states[i - 2] if i >= 2 else {}
  ctx = {"tag": ev["tag"], "k": ev["k"], "of": ev["of"], "exc": ev.get("exc", ""),
         "uas": rec.full[l - 1], "note": ev["uas"], "fault": ev.get("fault"), "fired": ev.get("fired")}
  raw = rec.raw[l - 1]
  if isinstance(raw, dict) and "stored" in raw:
    ctx["stored_names"] = [a[0] for a in raw["stored"]]
  if ev["tag"] in ("undo", "redo") and ev["of"]:
    of = ev["of"]
    ctx["of_uas"] = rec.full[of - 1]
    ro = rec.raw[of - 1]
    if isinstance(ro, dict) and "stored" in ro:
      ctx["of_stored"] = [[a[0], a[1]] + ([a[2]] if a[0].endswith("Column") else []) +
                          ([sorted(a[3].keys())] if a[0] == "ModifyColumn" else []) for a in ro["stored"]]
    ref = before(of) if ev["tag"] == "undo" else states[of - 1]
    ctx["diffs"] = cell_diffs(ref, states[l - 1])
  elif ev["k"] == "P":
    ctx["diffs"] = cell_diffs(states[l - 1], rec.peers[l - 1])
  else:
    ctx["diffs"] = cell_diffs(before(l), states[l - 1]) if ev["k"] in ("F", "Q") or ev["tag"] == "quiet" else []
  # column facts for the differing cells: formula flag, type
  facts = {}
  for d in ctx["diffs"]:
    if d.get("c"):
      col = rec.colfacts[l - 1].get(d["t"], {}).get(d["c"])
      if col:
        facts["%s.%s" % (d["t"], d["c"])] = {"type": col[0], "isFormula": bool(col[1]), "formula": col[2]}
  ctx["cols"] = facts
  print(json.dumps(ctx))


main()
