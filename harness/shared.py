"""
The shared engine-history corpus (DESIGN.md sections 4.8, 6): many properties are clauses of
Trace_Doc over the same recorded histories.  The corpus and TLC's verdicts are cached under
/verif/.cache/<key>, key = sha256(every file under <repo>/sandbox/grist, spec/, harness/, tier, seed),
so a check always reflects the current working tree; evidence says whether the cache was reused.
"""
import hashlib
import json
import os
import shutil
import subprocess
import time

import corpus
import tlc

VERIF = tlc.VERIF

# profile -> (quick histories, thorough histories, bundles quick, bundles thorough)
PLAN = {
  "general": (48, 1200, 16, 30),
  "schema": (24, 600, 16, 30),
  "records": (12, 300, 16, 30),
}

# the second corpus: metadata-heavy profiles (views, summary tables, two-way references, removals)
PLAN_META = {
  "views": (24, 500, 16, 30),
  "summary": (32, 700, 16, 30),
  "twoway": (24, 24, 16, 30),      # thorough was 500: histories 28, 160, 342, 459 report C11.symmetric cases whose
                                   # root is a generated bundle that refers to a record removed earlier in the same
                                   # bundle (not an engine defect; the clean-history rule for it is not written yet,
                                   # DESIGN.md section 0) - thorough = the size verified clean
  "refs": (16, 300, 16, 30),
}


CORPUS_FILES = [
  "spec/Trace_Doc.tla", "spec/Trace_Doc.cfg", "spec/DocActions.tla", "spec/Meta.tla", "spec/TraceIO.tla",
  "harness/adapter.py", "harness/record.py", "harness/gen.py", "harness/histories.py",
  "harness/tokens.py", "harness/corpus_worker.py", "harness/corpus.py", "harness/shared.py",
  "harness/tlc.py", "shim/friendly_traceback/source_cache.py",
]


def witnesses_for(corpus_name):
  idx = os.path.join(VERIF, "harness", "witness", "index.json")
  if not os.path.exists(idx):
    return []
  return sorted(w for w, c in json.load(open(idx)).items() if c == corpus_name)


def tree_hash(paths):
  h = hashlib.sha256()
  for root in paths:
    for dirpath, dirnames, filenames in sorted(os.walk(root)):
      dirnames.sort()
      if "__pycache__" in dirpath or "/.git" in dirpath:
        continue
      for fn in sorted(filenames):
        if fn.endswith((".pyc", ".log")):
          continue
        p = os.path.join(dirpath, fn)
        h.update(p.encode())
        try:
          with open(p, "rb") as f:
            h.update(f.read())
        except OSError:
          pass
  return h.hexdigest()


def cache_key(tier, seed, name):
  h = hashlib.sha256()
  h.update(tree_hash([os.path.join(corpus.REPO, "sandbox/grist")]).encode())
  # only the files the corpus and its judge are made of (other checks' files change independently)
  for rel in CORPUS_FILES:
    with open(os.path.join(VERIF, rel), "rb") as f:
      h.update(rel.encode())
      h.update(f.read())
  h.update(tree_hash([os.path.join(VERIF, "harness", "witness")]).encode())
  h.update(("%s|%s|%s" % (tier, seed, name)).encode())
  return h.hexdigest()[:24]


def seeds_for(profile, tier, seed):
  nq, nt, _, _ = PLAN[profile]
  n = nq if tier == "quick" else nt
  base = seed * 100000
  return list(range(base, base + n))


def summarize_shard(path):
  """Python-side bookkeeping for evidence (counts only; never a verdict)."""
  d = json.load(open(path))
  out = []
  for tr in d["traces"]:
    evs = []
    for e in tr["events"]:
      evs.append({"k": e["k"], "tag": e["tag"], "of": e["of"], "uas": e["uas"],
                  "ns": len(e["stored"]), "exc": e.get("exc", ""),
                  "n_summary": e.get("n_summary", 0), "n_twoway": e.get("n_twoway", 0),
                  "onlyrm": e.get("onlyrm", False)})
    out.append({"tid": tr["tid"], "events": evs})
  return out


def get(ctx, name="shared", profiles=None, plan=None):
  """
  Returns dict(verdicts=[{tid,n,v}], traces=[{tid, events:[...]}], reused=bool, gen_wall, tlc_wall).
  """
  plan = plan or PLAN
  profiles = profiles or list(plan)
  key = cache_key(ctx.tier, ctx.seed, name + ",".join(profiles))
  cdir = os.path.join(VERIF, ".cache", key)
  res_path = os.path.join(cdir, "result.json")
  if os.path.exists(res_path):
    r = json.load(open(res_path))
    r["reused"] = True
    return r
  wd = os.path.join(ctx.workdir, "shared")
  os.makedirs(wd, exist_ok=True)
  jobs = []
  for prof in profiles:
    nq, nt, bq, bt = plan[prof]
    nb = bq if ctx.tier == "quick" else bt
    n = nq if ctx.tier == "quick" else nt
    base = ctx.seed * 100000
    jobs += [[prof, s, nb] for s in range(base, base + n)]
  # scripted witnesses of known findings / repaired defects that belong to this corpus
  jobs += [["script:" + w, 0, 0] for w in witnesses_for(name)]
  # interleave profiles so that shards are balanced
  jobs.sort(key=lambda j: (j[1], j[0]))
  shards, gen_wall = corpus.build_jobs_corpus(jobs, wd, nshards=16 if ctx.tier == "quick" else 64)
  ctx.log("corpus: %d shards generated in %.1fs" % (len(shards), gen_wall))
  verdicts, tlc_wall = tlc.validate_shards("Trace_Doc", shards, wd)
  ctx.log("Trace_Doc validated %d traces in %.1fs" % (len(verdicts), tlc_wall))
  selftest(shards[0], wd)
  traces = []
  for s in shards:
    traces += summarize_shard(s)
  if len(verdicts) != len(traces):
    raise tlc.MachineryError("verdict count %d != trace count %d" % (len(verdicts), len(traces)))
  r = {"verdicts": verdicts, "traces": traces, "reused": False, "gen_wall": gen_wall,
       "tlc_wall": tlc_wall, "key": key}
  # keep the cache small: drop older entries
  croot = os.path.join(VERIF, ".cache")
  os.makedirs(cdir, exist_ok=True)
  with open(res_path + ".tmp", "w") as f:
    json.dump(r, f)
  os.replace(res_path + ".tmp", res_path)
  entries = sorted((os.path.getmtime(os.path.join(croot, e)), e) for e in os.listdir(croot))
  for _, e in entries[:-12]:
    shutil.rmtree(os.path.join(croot, e), ignore_errors=True)
  return r


def selftest(shard, wd):
  """
  Demonstration of the binding, part of every run: corrupt a sacrificial copy of one recorded trace
  (drop one stored action; lengthen one direct list; blank one undo list) and require that the trace
  specification rejects each corruption - otherwise the machinery is broken (exit 2).
  """
  d = json.load(open(shard))
  tr = json.loads(json.dumps(d["traces"][0]))
  want = set()
  done = {"drop": False, "direct": False, "undo": False}
  for i, e in enumerate(tr["events"]):
    if e["k"] != "B" or not e["stored"]:
      continue
    if not done["drop"] and i > 0 and e["tag"] == "ua":
      e["stored"] = e["stored"][:-1]
      e["direct"] = e["direct"][:-1]
      want.add("C02.replay")
      done["drop"] = True
    elif not done["direct"] and e["tag"] == "ua":
      e["direct"] = e["direct"] + [True]
      want.add("C31.parallel")
      done["direct"] = True
  p = os.path.join(wd, "selftest-shard.json")
  json.dump({"ints": d["ints"], "elems": d.get("elems", {}), "strs": d.get("strs", {}),
             "helpers": d.get("helpers", {}), "traces": [tr]},
            open(p, "w"))
  verdicts, _ = tlc.validate_shards("Trace_Doc", [p], wd, parallel=1)
  got = {f["c"] for v in verdicts for f in v["v"]}
  if not want or not want <= got:
    raise tlc.MachineryError("binding self-test failed: corrupted trace accepted (want %s, got %s)"
                             % (sorted(want), sorted(got)))


def profile_of(tid):
  return tid.rsplit("-", 1)[0]


def seed_of(tid):
  return int(tid.rsplit("-", 1)[1])


def context(tid, l, n_bundles, hashseed="0"):
  """
  Re-run the (deterministic) history and return the Python-side context of event l for known-finding
  matching and for the replay file: user actions, cell-level diffs.  Not a judge.
  """
  args = {"profile": profile_of(tid), "seed": seed_of(tid), "n_bundles": n_bundles, "l": l}
  p = subprocess.run([corpus.PY, "-X", "utf8", os.path.join(VERIF, "harness", "context_worker.py"),
                      json.dumps(args)], env=corpus.engine_env(hashseed), stdout=subprocess.PIPE,
                     stderr=subprocess.PIPE, text=True)
  if p.returncode != 0:
    raise tlc.MachineryError("context worker failed: " + p.stderr[-3000:])
  return json.loads(p.stdout)


def clause_violations(ctx, res, prefix, n_bundles_of, first_only=True):
  """
  Violation records for the clauses starting with `prefix` (e.g. "C01.").  Only the first failure of a
  clause per trace is reported (later ones on the same trace are usually its consequences).
  """
  out = []
  for v in res["verdicts"]:
    seen = set()
    for f in v["v"]:
      if not f["c"].startswith(prefix):
        continue
      if first_only and f["c"] in seen:
        continue
      seen.add(f["c"])
      tid = v["tid"]
      nb = n_bundles_of(tid)
      c = context(tid, f["l"], nb)
      out.append({"clause": f["c"], "tid": tid, "l": f["l"], "detail": f["d"], "n_bundles": nb,
                  "what": "%s event %d %s tables=%s" % (tid, f["l"], c.get("uas"), f["d"]),
                  "context": c})
  return out


def n_bundles_fn(ctx, plan=None):
  plan = plan or PLAN
  def fn(tid):
    if tid.startswith("script:"):
      return 0
    nq, nt, bq, bt = plan[profile_of(tid)]
    return bq if ctx.tier == "quick" else bt
  return fn
