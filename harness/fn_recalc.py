"""
Worker for C06/C18 (S->C): run formula programs enumerated by TLC (MC_Recalc) on the real engine under
every evaluation order.  argv[1] = {"inp": programs file, "out": cases file, "perms": "all"|k}
"""
import itertools
import json
import random
import sys

import adapter
import sched


TRACE_EVENTS = False
LAST_EVENTS = []
PHASE2_COL = None
LAST_VALS2 = {}


def render(col, same, cross):
  parts = ["1"] + ["$%s" % d for d in same] + ["$R.%s" % d for d in cross]
  return " + ".join(parts)


def value_of(v):
  if isinstance(v, bool):
    return -3
  if isinstance(v, int):
    return v
  if isinstance(v, float) and v == int(v):
    return int(v)
  if isinstance(v, list) and v and v[0] == 'E':
    return -1 if len(v) > 1 and v[1] == 'CircularRefError' else -3
  return -3


def run_program(cols, rows, prog, perm):
  eng = adapter.new_engine()
  adapter.apply(eng, [['InitNewDoc']])
  adapter.apply(eng, [['AddTable', 'T', [{'id': 'R', 'type': 'Ref:T', 'isFormula': False, 'formula': ''}]]])
  adapter.apply(eng, [['BulkAddRecord', 'T', list(rows), {'R': [1] * len(rows)}]])
  sw = sched.ScheduleWrapper(eng)
  pos = {c: i for i, c in enumerate(perm)}
  sw.set_order(lambda node: (0, pos[node.col_id]) if node.table_id == 'T' and node.col_id in pos
               else (1, node))
  uas = [['AddColumn', 'T', c, {'type': 'Any', 'isFormula': True,
                                'formula': render(c, prog["same"][c], prog["cross"][c])}] for c in cols]
  tracer = SchedulerTracer(eng, cols) if TRACE_EVENTS else None
  seen = []
  orig_make = eng._make_sorted_work_items
  def spy(nodes):
    items = orig_make(nodes)
    seen.append([it.node.col_id for it in items if it.node.table_id == 'T'])
    return items
  eng._make_sorted_work_items = spy
  reply = adapter.apply(eng, uas)
  rows_now, colvals = adapter.fetch_all(eng)['T']
  assert rows_now == list(rows)
  # canonical multiset of the stored actions (judgement-free: sorted JSON texts)
  sig = json.dumps(sorted(json.dumps(a, sort_keys=True) for a in reply["stored"]))
  # the order in which the engine's first full work list processes the columns (items pop from the end)
  first = next((list(reversed(s)) for s in seen if len(s) == len(cols)), [])
  LAST_EVENTS[:] = tracer.events if tracer else []
  # Phase 2 (histories): a later bundle replaces one column's formula by a constant - which breaks every
  # cycle through it - and everything must again equal the from-scratch meaning of the NEW program,
  # whatever order the first bundle was evaluated in (dependency edges recorded during phase 1 decide
  # what gets recalculated now).
  vals2 = {}
  if PHASE2_COL is not None:
    eng._make_sorted_work_items = orig_make
    adapter.apply(eng, [['ModifyColumn', 'T', PHASE2_COL, {'formula': '1'}]])
    _rows2, colvals2 = adapter.fetch_all(eng)['T']
    vals2 = {c: [value_of(v) for v in colvals2[c]] for c in cols}
  LAST_VALS2.clear()
  LAST_VALS2.update(vals2)
  return {c: [value_of(v) for v in colvals[c]] for c in cols}, sig, first


class SchedulerTracer(object):
  """
  Logs scheduler events of a live engine from outside (GRIST_VERIF_WRAP=1): one event per call of
  _make_sorted_work_items, per top-level _recompute_step (a popped work item) and per
  _recompute_one_cell, for the nodes of table T only.  The event is emitted when the call returns or
  raises (the linearisation point), with its arguments and outcome.
  """
  def __init__(self, eng, cols):
    import os
    import engine as engine_mod
    if os.environ.get("GRIST_VERIF_WRAP") != "1":
      raise RuntimeError("GRIST_VERIF_WRAP=1 required")
    self.events = []
    self.cols = set(cols)
    self.OrderError = engine_mod.OrderError
    for name in ("_make_sorted_work_items", "_recompute_step", "_recompute_one_cell"):
      if not callable(getattr(eng, name, None)):
        raise LookupError("wrapped engine method disappeared: " + name)
    om, os_, oc = eng._make_sorted_work_items, eng._recompute_step, eng._recompute_one_cell
    tr = self

    def make(nodes):
      items = om(nodes)
      mine = [it.node.col_id for it in items if it.node.table_id == 'T' and it.node.col_id in tr.cols]
      if mine:
        tr.events.append({"e": "make", "order": list(reversed(mine))})
      return items

    def step(node, allow_evaluation=True, require_rows=None):
      if allow_evaluation and node.table_id == 'T' and node.col_id in tr.cols:
        tr.events.append({"e": "pop", "node": node.col_id, "rows": sorted(require_rows or [])})
      return os_(node, allow_evaluation=allow_evaluation, require_rows=require_rows)

    def cell(table, col, row_id, cycle=False, node=None, record_attributes=None):
      mine = table.table_id == 'T' and col.col_id in tr.cols and node is not None
      try:
        res = oc(table, col, row_id, cycle=cycle, node=node, record_attributes=record_attributes)
      except tr.OrderError as e:
        if mine:
          tr.events.append({"e": "eval", "node": col.col_id, "row": row_id, "cycle": bool(cycle), "out": "order",
                            "tnode": e.node.col_id, "trow": e.row_id, "val": 0})
        raise
      if mine:
        tr.events.append({"e": "eval", "node": col.col_id, "row": row_id, "cycle": bool(cycle), "out": "value",
                          "tnode": "", "trow": 0, "val": value_of(encode_res(res))})
      return res

    eng._make_sorted_work_items, eng._recompute_step, eng._recompute_one_cell = make, step, cell


def encode_res(res):
  import objtypes
  return objtypes.encode_object(res)


def main():
  global TRACE_EVENTS
  args = json.loads(sys.argv[1])
  spec = json.load(open(args["inp"]))
  cols, rows, programs = spec["cols"], spec["rows"], spec["programs"]
  TRACE_EVENTS = bool(args.get("events"))
  traces = []
  rng = random.Random(args.get("seed", 0))
  cases = []
  allperms = list(itertools.permutations(cols))
  for prog in programs:
    perms = allperms if args.get("perms", "all") == "all" else \
        [allperms[0]] + rng.sample(allperms, min(len(allperms), args["perms"]))
    ref_sig = None
    global PHASE2_COL
    for pi, perm in enumerate(perms):
      # the column whose formula phase 2 replaces rotates with the permutation index
      PHASE2_COL = cols[pi % len(cols)] if args.get("phase2", True) else None
      case = {"cols": cols, "rows": rows, "same": prog["same"], "cross": prog["cross"], "perm": list(perm),
              "vals": {c: [] for c in cols}, "exc": "", "sig": "", "ref_sig": "", "order_seen": [],
              "col2": PHASE2_COL or "", "vals2": {c: [] for c in cols}}
      try:
        case["vals"], case["sig"], case["order_seen"] = run_program(cols, rows, prog, perm)
        if PHASE2_COL:
          case["vals2"] = dict(LAST_VALS2)
        if TRACE_EVENTS:
          traces.append({"tid": "%d/%s" % (len(traces), "".join(perm)), "same": prog["same"],
                         "cross": prog["cross"], "events": list(LAST_EVENTS)})
        if ref_sig is None:
          ref_sig = case["sig"]
        case["ref_sig"] = ref_sig
      except Exception as e:   # pylint: disable=broad-except
        case["exc"] = type(e).__name__ + ": " + str(e)[:200]
      cases.append(case)
  json.dump(cases, open(args["out"], "w"))
  if TRACE_EVENTS:
    json.dump({"cols": cols, "rows": rows, "traces": traces}, open(args["events"], "w"))


main()
