"""
Worker for C06/C18 (S->C): run formula programs enumerated by TLC (MC_Recalc) on the real engine under
every evaluation order.  argv[1] = {"inp": programs file, "out": cases file, "perms": "all"|k}
"""
import itertools
import json
import random
import sys

import adapter
import sched


def render(col, same, cross):
  parts = ["1"] + ["$%s" % d for d in same] + ["$R.%s" % d for d in cross]
  return " + ".join(parts)


def value_of(v):
  if isinstance(v, bool):
    return -3
  if isinstance(v, int):
    return v
  if isinstance(v, float) and v == int(v):
    return int(v)
  if isinstance(v, list) and v and v[0] == 'E':
    return -1 if len(v) > 1 and v[1] == 'CircularRefError' else -3
  return -3


def run_program(cols, rows, prog, perm):
  eng = adapter.new_engine()
  adapter.apply(eng, [['InitNewDoc']])
  adapter.apply(eng, [['AddTable', 'T', [{'id': 'R', 'type': 'Ref:T', 'isFormula': False, 'formula': ''}]]])
  adapter.apply(eng, [['BulkAddRecord', 'T', list(rows), {'R': [1] * len(rows)}]])
  sw = sched.ScheduleWrapper(eng)
  pos = {c: i for i, c in enumerate(perm)}
  sw.set_order(lambda node: (0, pos[node.col_id]) if node.table_id == 'T' and node.col_id in pos
               else (1, node))
  uas = [['AddColumn', 'T', c, {'type': 'Any', 'isFormula': True,
                                'formula': render(c, prog["same"][c], prog["cross"][c])}] for c in cols]
  seen = []
  orig_make = eng._make_sorted_work_items
  def spy(nodes):
    items = orig_make(nodes)
    seen.append([it.node.col_id for it in items if it.node.table_id == 'T'])
    return items
  eng._make_sorted_work_items = spy
  reply = adapter.apply(eng, uas)
  rows_now, colvals = adapter.fetch_all(eng)['T']
  assert rows_now == list(rows)
  # canonical multiset of the stored actions (judgement-free: sorted JSON texts)
  sig = json.dumps(sorted(json.dumps(a, sort_keys=True) for a in reply["stored"]))
  # the order in which the engine's first full work list processes the columns (items pop from the end)
  first = next((list(reversed(s)) for s in seen if len(s) == len(cols)), [])
  return {c: [value_of(v) for v in colvals[c]] for c in cols}, sig, first


def main():
  args = json.loads(sys.argv[1])
  spec = json.load(open(args["inp"]))
  cols, rows, programs = spec["cols"], spec["rows"], spec["programs"]
  rng = random.Random(args.get("seed", 0))
  cases = []
  allperms = list(itertools.permutations(cols))
  for prog in programs:
    perms = allperms if args.get("perms", "all") == "all" else \
        [allperms[0]] + rng.sample(allperms, min(len(allperms), args["perms"]))
    ref_sig = None
    for perm in perms:
      case = {"cols": cols, "rows": rows, "same": prog["same"], "cross": prog["cross"], "perm": list(perm),
              "vals": {c: [] for c in cols}, "exc": "", "sig": "", "ref_sig": "", "order_seen": []}
      try:
        case["vals"], case["sig"], case["order_seen"] = run_program(cols, rows, prog, perm)
        if ref_sig is None:
          ref_sig = case["sig"]
        case["ref_sig"] = ref_sig
      except Exception as e:   # pylint: disable=broad-except
        case["exc"] = type(e).__name__ + ": " + str(e)[:200]
      cases.append(case)
  json.dump(cases, open(args["out"], "w"))


main()
