"""Debug/authoring helper: run witness scripts through Trace_Doc and print the verdicts."""
import json, sys, os
sys.path.insert(0, os.path.dirname(os.path.abspath(__file__)))
import corpus, tlc
wd = tlc.scratch_dir()
if "--wrap" in sys.argv:
  os.environ["GRIST_VERIF_WRAP"] = "1"
names = [a for a in sys.argv[1:] if not a.startswith("--")]
shards, _ = corpus.build_jobs_corpus([["script:" + n, 0, 0] for n in names], wd, nshards=1)
res, _ = tlc.validate_shards("Trace_Doc", shards, wd, parallel=1)
for r in res:
  print(r["tid"], r["n"], json.dumps(r["v"]))
import shutil; shutil.rmtree(wd)
