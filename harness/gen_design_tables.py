"""Regenerates the generated sections of DESIGN.md (between <!-- GEN:x --> markers) from
known_findings.json, seeded/*/meta.json, MANIFEST.json and evidence/*.json."""
import glob
import json
import os
import re

V = os.path.dirname(os.path.dirname(os.path.abspath(__file__)))


def findings():
  kf = json.load(open(os.path.join(V, "known_findings.json")))["findings"]
  fixed = [k for k in kf if k["status"] == "fixed"]
  opn = [k for k in kf if k["status"] == "open"]
  out = ["### Repaired (`fix:` commits in /repo)", "", "| commit | property | defect (specific input) |", "|---|---|---|"]
  seen = set()
  for k in fixed:
    key = (k.get("commit"), k["property"])
    if key in seen:
      continue
    seen.add(key)
    d = re.sub(r"^fixed: property=\S+ \S+ ", "", k["description"])
    out.append("| %s | %s | %s |" % (k.get("commit", ""), k["property"], d.replace("|", "\\|")))
  out += ["", "### Known findings (open)", "", "| id | property | matched by | what fails (specific input) |", "|---|---|---|---|"]
  for k in opn:
    by = ("witness `%s`" % k["witness"]) if k.get("witness") else ""
    if k.get("matcher"):
      by += (" + " if by else "") + "matcher `%s`" % k["matcher"]
    out.append("| %s | %s | %s | %s |" % (k["id"], k["property"], by, k["description"].replace("|", "\\|")))
  return "\n".join(out)


def seeded():
  out = ["| seeded change | property | what it needs to manifest | caught by | confirmed |", "|---|---|---|---|---|"]
  for p in sorted(glob.glob(os.path.join(V, "seeded", "C*", "meta.json"))):
    m = json.load(open(p))
    out.append("| `seeded/%s` %s | %s | %s | %s | %s |" % (
      os.path.basename(os.path.dirname(p)), m.get("change", "").replace("|", "\\|"), m.get("property", ""),
      m.get("needs", "").replace("|", "\\|"), "; ".join(m.get("caught_by", ["(see RESULTS.txt)"])),
      m.get("confirmed", "").replace("|", "\\|")))
  return "\n".join(out)


def asbuilt():
  m = json.load(open(os.path.join(V, "MANIFEST.json")))
  out = ["| id | level | technique (deciding method) | last quick run: evaluations / states / wall |", "|---|---|---|---|"]
  for c in m["checks"]:
    ev = {}
    p = os.path.join(V, c["evidence_file"])
    if os.path.exists(p):
      ev = json.load(open(p))
    cov = ev.get("coverage", {})
    out.append("| %s | %s | %s | %s / %s / %ss |" % (
      c["property_id"], c["level_claimed"]["category"], c.get("technique", ""),
      cov.get("evaluations", "-"), cov.get("states", "-"), ev.get("wall_s", "-")))
  for n in m.get("not_applicable", []):
    out.append("| %s | not_applicable | %s | - |" % (n["property_id"], n["reason"]))
  return "\n".join(out)


def main():
  p = os.path.join(V, "DESIGN.md")
  s = open(p).read()
  for name, fn in (("findings", findings), ("seeded", seeded), ("asbuilt", asbuilt)):
    a, b = "<!-- GEN:%s -->" % name, "<!-- /GEN:%s -->" % name
    if a in s and b in s:
      s = s[:s.index(a) + len(a)] + "\n" + fn() + "\n" + s[s.index(b):]
  open(p, "w").write(s)


main()
