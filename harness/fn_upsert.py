"""
Worker for C28: run the real BulkAddOrUpdateRecord / AddOrUpdateRecord user actions of
/repo/sandbox/grist on one table and write judgement-free cases for spec/Trace_Upsert.tla.
argv[1] = JSON {"inp": <inputs file>, "out": <cases file>}.

The table is T(k1: Int, k2: Text, v: Int).  A cell value travels as {"t", "n", "s"}:
  {"t": "i",  "n": 5}    the integer 5
  {"t": "ns", "n": 5}    the text "5" (a canonical decimal numeral)
  {"t": "s",  "s": "a"}  any other text
  {"t": "o",  "s": ...}  anything else the engine may hand back (never produced by a generator)

An input is
  {"kind": "bulk" | "single",
   "rows": [{"id", "k1", "k2", "v"}, ...]            the table before (ascending ids, stored values)
   "require": [{"col", "vals": [...]}, ...], "colvals": [...]   column id -> list of cell values
                                                      (kind "single": lists of exactly one value)
   "opts": {"on_many": "-" | "first" | ..., "update": "-" | "T" | "F", "add": ..., "allow": ...}
                                                      "-" = the key is not given
   "prep": {"kind": "doc"}                            how the table is brought about (default), or
           {"kind": "replace" | "remove" | "update", "pre": [rows]}   a history, see below}

A case is {"inp": input, "exc": "", "out": {...}} with the observation
  exc     "" or the class name of the exception the user action raised
  same    1 if the document is as before (on an exception: the table AND a digest of every other
          table, metadata included; otherwise just the table), else 0
  retok   1 if the returned value has the documented shape
  recs    recordIds as a list of id lists (single: [recordIds]);  adds / upds: addRecordIds /
          updateRecordIds (single: []);  action: "ADD" / "UPDATE" / "NONE" (bulk: "")
  after   the table afterwards, same form as rows

Preparation.  "doc": the rows are removed and added at doc-action level (BulkRemoveRecord +
BulkAddRecord through ApplyDocActions, what replaying stored actions does); the code under test is
not used to prepare its own input.  Histories (fresh engine each, discarded afterwards): the table
first holds `pre`, the same request is applied once with update and add switched off (so the lookups
of the request have been made before), then a USER action brings the table to `rows`:
ReplaceTableData ("replace"), BulkRemoveRecord of the rows not in `rows` ("remove"), BulkUpdateRecord
of every row ("update").  The worker insists that the table then is `rows` (else MachineryError).
Nothing is judged here.
"""
import json
import re
import sys
import zlib

import adapter

TABLE = "T"
COLS = ("k1", "k2", "v")
ENGINE_REUSE = 2000
NUMERAL = re.compile(r"\A(0|-?[1-9][0-9]{0,8})\Z")


def dec(val):
  if val["t"] == "i":
    return int(val["n"])
  if val["t"] == "ns":
    return str(int(val["n"]))
  if val["t"] == "s":
    return val["s"]
  raise adapter.MachineryError("cannot decode %r" % (val,))


def enc(x):
  if isinstance(x, int) and not isinstance(x, bool) and abs(x) < 2 ** 31:
    return {"t": "i", "n": x, "s": ""}
  if isinstance(x, str) and all(32 <= ord(ch) < 127 for ch in x):
    if NUMERAL.match(x):
      return {"t": "ns", "n": int(x), "s": ""}
    return {"t": "s", "n": 0, "s": x}
  return {"t": "o", "n": 0, "s": ascii(x)}


def digest(snap):
  blob = json.dumps(snap, sort_keys=True, default=repr)
  return zlib.crc32(blob.encode("utf8")) & 0x3fffffff


def is_id(x):
  return isinstance(x, int) and not isinstance(x, bool)


def id_list(x):
  return isinstance(x, list) and all(is_id(i) for i in x)


def parse_ret(kind, val):
  bad = {"retok": 0, "recs": [], "adds": [], "upds": [], "action": ""}
  if not isinstance(val, dict):
    return bad
  if kind == "single":
    if set(val) != {"recordIds", "action"} or not id_list(val["recordIds"]) or \
       val["action"] not in ("ADD", "UPDATE", "NONE"):
      return bad
    return {"retok": 1, "recs": [list(val["recordIds"])], "adds": [], "upds": [], "action": val["action"]}
  if set(val) != {"recordIds", "addRecordIds", "updateRecordIds"}:
    return bad
  recs, adds, upds = val["recordIds"], val["addRecordIds"], val["updateRecordIds"]
  if not (isinstance(recs, list) and all(id_list(r) for r in recs) and id_list(adds) and
          isinstance(upds, list) and all(id_list(u) for u in upds)):
    return bad
  return {"retok": 1, "recs": [list(r) for r in recs], "adds": list(adds),
          "upds": [list(u) for u in upds], "action": ""}


def user_action(inp, opts=None):
  single = inp["kind"] == "single"

  def cols(spec):
    return {c["col"]: (dec(c["vals"][0]) if single else [dec(x) for x in c["vals"]]) for c in spec}
  if opts is None:
    o = inp["opts"]
    opts = {}
    if o["on_many"] != "-":
      opts["on_many"] = o["on_many"]
    for key, name in (("update", "update"), ("add", "add"), ("allow", "allow_empty_require")):
      if o[key] != "-":
        opts[name] = o[key] == "T"
  name = "AddOrUpdateRecord" if single else "BulkAddOrUpdateRecord"
  return [name, TABLE, cols(inp["require"]), cols(inp["colvals"]), opts]


def plain(rows):
  return [(int(r["id"]),) + tuple(dec(r[c]) for c in COLS) for r in rows]


def bulk_cols(rows):
  d = {c: [r[1 + j] for r in rows] for j, c in enumerate(COLS)}
  d["manualSort"] = [float(r[0]) for r in rows]
  return d


class Runner(object):
  def __init__(self):
    self.eng = None
    self.used = 0
    self.meta = None
    self.current = None       # the table as last fetched, plain form

  def fresh(self):
    self.eng = adapter.new_engine()
    adapter.apply(self.eng, [["InitNewDoc"]])
    # every second document gives the data columns k2 and v DEFAULT FORMULAS whose values are the plain
    # type defaults ('' and 0): the specification is the same, but `require` / col_values now name
    # columns that "have a formula" without being formula columns
    self.n_fresh = getattr(self, "n_fresh", 0) + 1
    self.variant = getattr(self, "force_variant", None)
    if self.variant is None:
      self.variant = "formulas" if self.n_fresh % 2 == 0 else "plain"
    f2, fv = ("''", "0") if self.variant == "formulas" else ("", "")
    adapter.apply(self.eng, [["AddTable", TABLE, [
      {"id": "k1", "type": "Int", "isFormula": False},
      {"id": "k2", "type": "Text", "isFormula": False, "formula": f2},
      {"id": "v", "type": "Int", "isFormula": False, "formula": fv}]]])
    self.used = 0
    self.meta = self.meta_digest()
    self.current = self.table()[0]

  def meta_digest(self):
    snap = adapter.fetch_all(self.eng)
    snap.pop(TABLE, None)
    return digest(snap)

  def table(self):
    """(plain rows, encoded rows) of the table as fetch_table reports it."""
    td = adapter.actions.encode_objects(self.eng.fetch_table(TABLE, formulas=True))
    cols = [td.columns[c] for c in COLS]
    rows = [(int(r),) + tuple(col[n] for col in cols) for n, r in enumerate(td.row_ids)]
    rows.sort(key=lambda r: r[0])
    encd = [{"id": r[0], "k1": enc(r[1]), "k2": enc(r[2]), "v": enc(r[3])} for r in rows]
    return rows, encd

  def doc_apply(self, doc_actions):
    self.eng.apply_user_actions([adapter.useractions.from_repr(["ApplyDocActions", doc_actions])])

  def set_rows(self, want):
    """Doc-action level: remove every row, add the wanted ones."""
    if self.current == want:
      return
    das = []
    if self.current:
      das.append(["BulkRemoveRecord", TABLE, [r[0] for r in self.current]])
    if want:
      das.append(["BulkAddRecord", TABLE, [r[0] for r in want], bulk_cols(want)])
    self.doc_apply(das)
    self.current = self.table()[0]

  def prepare(self, inp):
    want = plain(inp["rows"])
    prep = inp.get("prep") or {"kind": "doc"}
    kind = prep["kind"]
    if kind == "doc":
      if self.eng is None or self.used >= ENGINE_REUSE:
        self.fresh()
      self.set_rows(want)
    else:
      self.fresh()
      self.used = ENGINE_REUSE       # a history leaves its engine to nobody
      pre = plain(prep["pre"])
      self.set_rows(pre)
      try:
        adapter.apply(self.eng, [user_action(inp, {"update": False, "add": False,
                                                   "allow_empty_require": True})])
      except Exception:   # pylint: disable=broad-except
        pass                # invalid arguments: no lookups were made, the history is just shorter
      ids = [r[0] for r in want]
      if kind == "replace":
        adapter.apply(self.eng, [["ReplaceTableData", TABLE, ids, bulk_cols(want)]])
      elif kind == "remove":
        gone = [r[0] for r in pre if r[0] not in set(ids)]
        if gone:
          adapter.apply(self.eng, [["BulkRemoveRecord", TABLE, gone]])
      elif kind == "update":
        if ids:
          d = bulk_cols(want)
          d.pop("manualSort")
          adapter.apply(self.eng, [["BulkUpdateRecord", TABLE, ids, d]])
      else:
        raise adapter.MachineryError("unknown preparation %r" % (kind,))
      self.current = self.table()[0]
    if self.current != want:
      raise adapter.MachineryError("set-up (%s) failed: wanted %r, table has %r" % (kind, want, self.current))
    self.used += 1

  def run(self, inp):
    try:
      return self._run(inp)
    except Exception:
      self.eng = None
      raise

  def _run(self, inp):
    if inp.get("docvariant"):         # a replay names the document variant of the recorded run
      if getattr(self, "variant", None) != inp["docvariant"]:
        self.force_variant = inp["docvariant"]
        self.eng = None
    self.prepare(inp)
    inp["docvariant"] = self.variant
    before = self.current
    o = {"exc": "", "same": 0, "retok": 0, "recs": [], "adds": [], "upds": [], "action": ""}
    try:
      reply = adapter.apply(self.eng, [user_action(inp)])
      o.update(parse_ret(inp["kind"], reply["retValues"][0]))
    except Exception as e:   # pylint: disable=broad-except
      o["exc"] = type(e).__name__
    self.current, o["after"] = self.table()
    o["same"] = int(self.current == before)
    if o["exc"]:
      if self.meta_digest() != self.meta:
        o["same"] = 0
        self.used = ENGINE_REUSE
    return o


def normal(inp):
  def cols(spec):
    return [{"col": c["col"], "vals": [dict(x) for x in c["vals"]]} for c in spec]
  d = {"kind": inp["kind"], "rows": [dict(r) for r in inp["rows"]], "require": cols(inp["require"]),
       "colvals": cols(inp["colvals"]), "opts": dict(inp["opts"])}
  prep = inp.get("prep") or {"kind": "doc"}
  d["prep"] = {"kind": prep["kind"], "pre": [dict(r) for r in prep.get("pre", [])]}
  if inp.get("docvariant"):
    d["docvariant"] = inp["docvariant"]
  return d


def main():
  args = json.loads(sys.argv[1])
  inputs = json.load(open(args["inp"]))
  runner = Runner()
  cases = []
  for inp in inputs:
    inp = normal(inp)
    cases.append({"inp": inp, "out": runner.run(inp), "exc": ""})
  json.dump(cases, open(args["out"], "w"), separators=(",", ":"))


if __name__ == "__main__":
  main()
