"""
TLC invocation helpers (run by the orchestrator, plain Python 3, no repo imports).
"""
import json
import os
import re
import shutil
import subprocess
import tempfile
import time

VERIF = os.path.dirname(os.path.dirname(os.path.abspath(__file__)))
SPEC = os.path.join(VERIF, "spec")
TLA_CP = "/opt/veriftools/tla/tla2tools.jar:/opt/veriftools/tla/CommunityModules-deps.jar"


class MachineryError(Exception):
  pass


def scratch_dir(prefix="verif-"):
  base = os.environ.get("VERIF_SCRATCH") or tempfile.gettempdir()
  return tempfile.mkdtemp(prefix=prefix, dir=base)


_JAVA_TMP = []
def _java_tmp():
  if not _JAVA_TMP:
    import atexit, shutil
    d = scratch_dir("verif-javatmp-")
    atexit.register(shutil.rmtree, d, True)
    _JAVA_TMP.append(d)
  return _JAVA_TMP[0]


def java_cmd(xmx="3g", xss="512m", extra=(), gc="-XX:+UseSerialGC"):
  # java.io.tmpdir: TLC creates an (empty) tlc-<n> directory per run there; keep it inside our scratch area
  # one directory per JVM: JVMs that share a java.io.tmpdir occasionally lose their tlc-<n> directory
  # to each other's clean-up (FileNotFoundException .../tlc-<n>/TLC.tla, exit code 75)
  tmp = tempfile.mkdtemp(prefix="jvm-", dir=_java_tmp())
  return ["java", gc, "-Xmx" + xmx, "-Xss" + xss, "-Djava.io.tmpdir=" + tmp] + list(extra) + \
         ["-cp", TLA_CP, "tlc2.TLC"]


def start_trace_check(module, shard_path, out_path, workdir, timeout=3600, cfg=None, xmx="3g"):
  """Start TLC on a trace specification over one shard; returns a Popen."""
  meta = os.path.join(workdir, "meta-" + os.path.basename(shard_path))
  os.makedirs(meta, exist_ok=True)
  env = dict(os.environ)
  env["TRACE_FILE"] = shard_path
  env["OUT_FILE"] = out_path
  env.pop("JAVA_TOOL_OPTIONS", None)
  cmd = ["timeout", str(timeout)] + java_cmd(xmx=xmx) + [
    "-workers", "1", "-fpmem", "0.02", "-metadir", meta, "-noGenerateSpecTE",
    "-config", cfg or (module + ".cfg"), module + ".tla"]
  log = open(out_path + ".log", "w")
  return subprocess.Popen(cmd, cwd=SPEC, env=env, stdout=log, stderr=subprocess.STDOUT)


def validate_shards(module, shard_paths, workdir, parallel=16, timeout=3600, cfg=None, xmx="3g"):
  """
  Run the trace specification over every shard (one JVM each, at most `parallel` at a time).
  Returns the list of verdict records [{tid, n, v:[{l,c,d}]}], raises MachineryError if TLC failed.
  """
  pending = list(shard_paths)
  running = []
  results = []
  t0 = time.time()
  while pending or running:
    while pending and len(running) < parallel:
      sp = pending.pop(0)
      outp = sp + ".verdict.json"
      if os.path.exists(outp):
        os.unlink(outp)
      running.append((sp, outp, start_trace_check(module, sp, outp, workdir, timeout, cfg, xmx)))
    still = []
    for sp, outp, proc in running:
      rc = proc.poll()
      if rc is None:
        still.append((sp, outp, proc))
        continue
      log = open(outp + ".log").read()
      if rc != 0 or not os.path.exists(outp):
        raise MachineryError("TLC failed on %s (rc=%s):\n%s" % (sp, rc, log[-3000:]))
      results.extend(json.load(open(outp)))
    running = still
    if running:
      time.sleep(0.05)
  return results, time.time() - t0


STATS_RE = re.compile(r"(\d+) states generated, (\d+) distinct states found, (\d+) states left on queue")


def run_model(module, cfg, workdir, workers=16, timeout=1800, xmx="8g", extra_args=(), env_extra=None,
              coverage=True):
  """Run TLC on a design model. Returns dict(rc, generated, distinct, out, coverage)."""
  meta = os.path.join(workdir, "meta-" + os.path.basename(cfg))
  os.makedirs(meta, exist_ok=True)
  env = dict(os.environ)
  env.pop("JAVA_TOOL_OPTIONS", None)
  if env_extra:
    env.update(env_extra)
  cmd = ["timeout", str(timeout)] + java_cmd(xmx=xmx, xss="64m", gc="-XX:+UseParallelGC") + [
    "-workers", str(workers), "-metadir", meta, "-noGenerateSpecTE", "-config", cfg]
  if coverage:
    cmd += ["-coverage", "1"]
  cmd += list(extra_args) + [module + ".tla"]
  t0 = time.time()
  p = subprocess.run(cmd, cwd=SPEC, env=env, stdout=subprocess.PIPE, stderr=subprocess.STDOUT, text=True)
  out = p.stdout
  gen = dist = 0
  for m in STATS_RE.finditer(out):
    gen, dist = int(m.group(1)), int(m.group(2))
  cov = {}
  for m in re.finditer(r"<(\w+) line \d+, col \d+ to line \d+, col \d+ of module (\w+)>: (\d+):(\d+)", out):
    cov[m.group(1)] = cov.get(m.group(1), 0) + int(m.group(4))
  return {"rc": p.returncode, "generated": gen, "distinct": dist, "out": out, "coverage": cov,
          "wall": time.time() - t0,
          "violated": "is violated" in out or "Error:" in out}
