"""
Worker for C34 (TzIndex.tla): runs the real conversions of moment.py.  argv[1] = JSON {"inp", "out"}.

Input items (a file may mix the kinds):
  {"k": "syn", "z": {"u": [...], "o": [...]}, "lo": .., "hi": ..}      one case per item
      a synthetic zone (hours; offsets west of UTC as in the records) is installed into moment's zone
      table as a ZoneRecord and probed through ts_to_dt / dt_to_ts / date_to_ts; hour 0 is BASE_S
  {"k": "real", "part": p, "parts": P, "seed": s, "sample": n, "nrand": r}   many cases
      bundled zones (all, or a seeded sample of n; this worker takes every P-th of them): every
      transition x {-1 h, -1 s, 0, +1 s, +1 h} as instants, the edges of the repeated / skipped local
      times as local times, the dates around it, plus r random instants / local times / dates
      optional "zone" + "probe": replay of one probe
  {"k": "shape"}                                                      one case per bundled zone

Nothing is judged here.  Besides the outputs of the code, the cases carry judgement-free readings of
the RAW zone records (raw_index, raw_cands, raw_exists, raw_day_skipped): which offsets the record lists
around an instant, whether a local time occurs in some segment, whether a whole local day is skipped.
Trace_TzIndex compares these readers with the definitions of the specification on every synthetic case.
"""
import bisect
import datetime
import json
import random
import sys

import moment

EPOCH = datetime.datetime(1970, 1, 1)
DATE_EPOCH = EPOCH.date()
BASE_S = 1426291200            # 2015-03-14 00:00:00 UTC = hour 0 / day 0 of the synthetic zones
NOFAV = 99
MIN_S = -62135596800 + 86400   # supported range: every offset keeps the local datetime inside
MAX_S = 253402300799 - 86400   # datetime.min .. datetime.max
INF = float("inf")


class NonIntegral(Exception):
  pass


# ------------------------------------------------------------------------------------------------
# readers of raw zone records: untils in ms with the trailing inf, offsets in minutes west of UTC
def raw_index(untils, ts_ms):
  return bisect.bisect_right(untils, ts_ms)


def _jump(offsets, k):        # size of the clock jump (ms) at the end of segment k
  return abs(offsets[k + 1] - offsets[k]) * 60000 if 0 <= k < len(offsets) - 1 else 0


def raw_cands(untils, offsets, ts_ms):
  """Offsets of the segments that contain ts or begin / end closer to it than the jump at that end."""
  i = raw_index(untils, ts_ms)
  out = []
  for j in range(max(0, i - 3), min(len(offsets), i + 4)):
    lo = -INF if j == 0 else untils[j - 1] - _jump(offsets, j - 1)
    hi = untils[j] + _jump(offsets, j)
    if lo <= ts_ms < hi and offsets[j] not in out:
      out.append(offsets[j])
  return out


def raw_exists(untils, offsets, local_ms):
  """Does the local time (ms, read as if UTC) occur in some segment of the record?"""
  a = raw_index(untils, local_ms - 2 * 86400000)
  b = raw_index(untils, local_ms + 2 * 86400000)
  for j in range(a, min(len(offsets), b + 1)):
    t = local_ms + offsets[j] * 60000
    if (j == 0 or untils[j - 1] <= t) and t < untils[j]:
      return True
  return False


def raw_day_skipped(untils, offsets, midnight_ms):
  """Is the whole local day starting at midnight_ms inside the skipped local times of one transition?"""
  a = raw_index(untils, midnight_ms - 2 * 86400000)
  b = raw_index(untils, midnight_ms + 3 * 86400000)
  for k in range(a, min(len(offsets) - 1, b + 1)):
    if untils[k] - offsets[k] * 60000 <= midnight_ms and midnight_ms + 86400000 <= untils[k] - offsets[k + 1] * 60000:
      return True
  return False


# ------------------------------------------------------------------------------------------------
def naive_s(dt):
  return (dt.replace(tzinfo=None) - EPOCH).total_seconds()


def west_offset_s(ts, naive):
  """utc - local in seconds, computed on datetimes (microsecond-exact)."""
  return ((EPOCH + datetime.timedelta(seconds=ts)) - naive.replace(tzinfo=None)).total_seconds()


def exc_name(e):
  return type(e).__name__


# ------------------------------------------------------------------------------------------------
# synthetic zones
def hours(x_s):
  q = x_s / 3600.0
  if q != int(q):
    raise NonIntegral("%r s is not a whole number of hours" % (x_s,))
  return int(q)


_counter = [0]


def install(z):
  """Build a moment.Zone from (untils, offsets) exactly as Zone.__init__ reads a bundled record."""
  moment.get_tz_data()
  _counter[0] += 1
  name = "Synthetic/Z%d" % _counter[0]
  untils = [float((BASE_S + u * 3600) * 1000) for u in z["u"]] + [INF]
  offsets = [o * 60 for o in z["o"]]
  abbrs = [chr(65 + j) for j in range(len(offsets))]
  moment._TZDATA[name] = moment.ZoneRecord(name, abbrs, offsets, untils)    # pylint: disable=protected-access
  try:
    zone = moment.Zone(name)
  finally:
    del moment._TZDATA[name]                                                # pylint: disable=protected-access
  return zone, untils, offsets


def syn_case(item):
  z, lo, hi = item["z"], item["lo"], item["hi"]
  zone, untils, offsets = install(z)
  favs = sorted(set(z["o"])) + [NOFAV]
  out = {"ts": [], "loc": [], "dt": []}

  for t in range(lo, hi + 1):
    e = {"t": t, "l": 0, "b": 0, "c": [0], "exc": ""}
    try:
      ts = float(BASE_S + t * 3600)
      dt = moment.ts_to_dt(ts, zone)
      e["l"] = hours(naive_s(dt) - BASE_S)
      e["b"] = hours(moment.dt_to_ts(dt) - BASE_S)
      e["c"] = [hours(offsets[raw_index(untils, ts * 1000)] * 60)]
    except Exception as ex:    # pylint: disable=broad-except
      e["exc"] = exc_name(ex)
    out["ts"].append(e)

  for l in range(lo - 3, hi + 4):
    for f in favs:
      e = {"l": l, "f": f, "o": 0, "c": [0], "ex": 0, "exc": ""}
      try:
        naive = EPOCH + datetime.timedelta(seconds=BASE_S + l * 3600)
        if f == NOFAV:
          ts = moment.dt_to_ts(naive, zone)
        else:
          ts = moment.dt_to_ts(naive.replace(tzinfo=zone.get_tzinfo(datetime.timedelta(hours=-f))))
        e["o"] = hours(ts - naive_s(naive))
        e["c"] = [hours(o * 60) for o in raw_cands(untils, offsets, ts * 1000)]
        e["ex"] = int(raw_exists(untils, offsets, naive_s(naive) * 1000))
      except Exception as ex:    # pylint: disable=broad-except
        e["exc"] = exc_name(ex)
      out["loc"].append(e)

  for d in (-1, 0, 1):
    e = {"d": d, "t": 0, "l": 0, "ex": 0, "dx": 0, "um": 0, "at": 0, "exc": ""}
    try:
      date = DATE_EPOCH + datetime.timedelta(seconds=BASE_S) + datetime.timedelta(days=d)
      m = (date - DATE_EPOCH).total_seconds()
      ts = moment.date_to_ts(date, zone)
      back = moment.ts_to_dt(ts, zone)
      e["t"] = hours(ts - BASE_S)
      e["l"] = hours(naive_s(back) - BASE_S)
      e["ex"] = int(raw_exists(untils, offsets, m * 1000))
      e["dx"] = int(not raw_day_skipped(untils, offsets, m * 1000))
      e["um"] = hours(offsets[raw_index(untils, m * 1000)] * 60)
      e["at"] = hours(offsets[raw_index(untils, ts * 1000)] * 60)
    except Exception as ex:    # pylint: disable=broad-except
      e["exc"] = exc_name(ex)
    out["dt"].append(e)
  return {"k": "syn", "inp": {"z": z, "lo": lo, "hi": hi}, "out": out}


# ------------------------------------------------------------------------------------------------
# bundled zones: tokens
def ttok(x):
  return repr(float(x))


def otok(x_s):
  return "%.6f" % (round(x_s, 6) + 0.0)


def ts_probe(zone, rec, ts):
  e = {"t": ttok(ts), "b": "", "off": "", "c": [""], "exc": ""}
  try:
    dt = moment.ts_to_dt(ts, zone)
    e["b"] = ttok(moment.dt_to_ts(dt))
    e["off"] = otok(west_offset_s(ts, dt))
    e["c"] = [otok(rec.offsets[raw_index(rec.untils, ts * 1000.0)] * 60)]
  except Exception as ex:    # pylint: disable=broad-except
    e["exc"] = exc_name(ex)
  return e


def loc_probe(zone, rec, local_ms, fav):
  """fav: None or an offset of the record (minutes west)."""
  e = {"ms": ttok(local_ms), "f": "none" if fav is None else otok(fav * 60), "ts": "", "off": "", "c": [""],
       "ex": 0, "exc": ""}
  try:
    naive = EPOCH + datetime.timedelta(milliseconds=local_ms)
    if fav is None:
      ts = moment.dt_to_ts(naive, zone)
    else:
      ts = moment.dt_to_ts(naive.replace(tzinfo=zone.get_tzinfo(datetime.timedelta(minutes=-fav))))
    e["ts"] = ttok(ts)
    e["off"] = otok(west_offset_s(ts, naive))
    e["c"] = [otok(o * 60) for o in raw_cands(rec.untils, rec.offsets, ts * 1000.0)]
    e["ex"] = int(raw_exists(rec.untils, rec.offsets, local_ms))
  except Exception as ex:    # pylint: disable=broad-except
    e["exc"] = exc_name(ex)
  return e


def dt_probe(zone, rec, ordinal):
  e = {"d": "", "n": ordinal, "t": "", "back": "", "tod": "", "ex": 0, "dx": 0, "u": "", "m": "", "off": "", "um": "",
       "at": "", "exc": ""}
  try:
    date = datetime.date.fromordinal(ordinal)
    e["d"] = date.isoformat()
    m = (date - DATE_EPOCH).total_seconds()
    e["m"] = ttok(m)
    e["u"] = moment.ts_to_date(moment.date_to_ts(date)).isoformat()
    ts = moment.date_to_ts(date, zone)
    back = moment.ts_to_dt(ts, zone)
    e["t"] = ttok(ts)
    e["back"] = back.date().isoformat()
    e["tod"] = back.time().isoformat()
    e["ex"] = int(raw_exists(rec.untils, rec.offsets, m * 1000.0))
    e["dx"] = int(not raw_day_skipped(rec.untils, rec.offsets, m * 1000.0))
    e["off"] = otok(ts - m)
    e["um"] = otok(rec.offsets[raw_index(rec.untils, m * 1000.0)] * 60)
    e["at"] = otok(rec.offsets[raw_index(rec.untils, ts * 1000.0)] * 60)
  except Exception as ex:    # pylint: disable=broad-except
    e["exc"] = exc_name(ex)
  return e


def transition_probes(rec, i):
  """Judgement-free probe inputs around transition i of a raw record."""
  u = rec.untils[i]
  o0, o1 = rec.offsets[i], rec.offsets[i + 1]
  ts = [u / 1000.0 + d for d in (-3600, -1, 0, 1, 3600)]
  loc = []
  edges = sorted(set([u - o0 * 60000, u - o1 * 60000]))
  for edge in edges:
    for d in (-3600000, -1000, 0, 1000, 3600000):
      loc.append((edge + d, None))
    for d in (-1000, 0):
      loc.append((edge + d, o0))
      loc.append((edge + d, o1))
  if len(edges) == 2:
    loc.append(((edges[0] + edges[1]) // 2000 * 1000, None))
    loc.append(((edges[0] + edges[1]) // 2000 * 1000, o1))
  day = (EPOCH + datetime.timedelta(milliseconds=u)).date().toordinal()
  return ts, loc, [day - 1, day, day + 1]


def random_probes(rec, rng, n):
  ts, loc, dt = [MIN_S, MAX_S], [(MIN_S * 1000, None), (MAX_S * 1000, None)], []
  dt.append((EPOCH + datetime.timedelta(seconds=MIN_S)).date().toordinal())
  dt.append((EPOCH + datetime.timedelta(seconds=MAX_S)).date().toordinal())
  for _ in range(n):
    r = rng.random()
    if r < 0.6:
      s = rng.randrange(-2200000000, 2200000000)
    elif r < 0.8:
      s = rng.randrange(-2200000000000, 2200000000000) / 1000.0
    else:
      s = rng.randrange(MIN_S, MAX_S)
    ts.append(float(s))
    s2 = rng.randrange(-2200000000, 2200000000) if r < 0.8 else rng.randrange(MIN_S, MAX_S)
    fav = rng.choice([None, None] + list(rec.offsets[:4]))
    loc.append((s2 * 1000, fav))
    dt.append((EPOCH + datetime.timedelta(seconds=s2)).date().toordinal())
  return ts, loc, dt


def real_cases(item):
  data = moment.get_tz_data()
  names = sorted(data)
  rng = random.Random("C34-zones-%d" % item["seed"])
  if item.get("sample"):
    # the sample always holds a few zones with many transitions / midnight transitions / odd offsets
    keep = ["America/New_York", "America/Sao_Paulo", "Pacific/Auckland", "Asia/Tehran", "Pacific/Apia", "UTC"]
    rest = [n for n in names if n not in keep]
    names = sorted(keep + rng.sample(rest, max(0, item["sample"] - len(keep))))
  names = names[item["part"]::item["parts"]]
  chunk = item.get("chunk", 25)
  cases = []
  for name in names:
    rec = data[name]
    zone = moment.get_zone(name)
    ntr = len(rec.untils) - 1
    groups = [list(range(a, min(ntr, a + chunk))) for a in range(0, ntr, chunk)] or [[]]
    for gi, group in enumerate(groups):
      ts, loc, dt = [], [], []
      for i in group:
        a, b, c = transition_probes(rec, i)
        ts += a
        loc += b
        dt += c
      if gi == 0:
        a, b, c = random_probes(rec, random.Random("C34-%d-%s" % (item["seed"], name)), item["nrand"])
        ts += a
        loc += b
        dt += c
      cases.append({"k": "real", "zone": name, "g": gi,
                    "ts": [ts_probe(zone, rec, x) for x in ts],
                    "loc": [loc_probe(zone, rec, x, f) for x, f in loc],
                    "dt": [dt_probe(zone, rec, x) for x in dt]})
  return cases


def real_replay(item):
  data = moment.get_tz_data()
  rec = data[item["zone"]]
  zone = moment.get_zone(item["zone"])
  p = item["probe"]
  case = {"k": "real", "zone": item["zone"], "g": 0, "ts": [], "loc": [], "dt": []}
  if p["k"] == "ts":
    case["ts"].append(ts_probe(zone, rec, float(p["t"])))
  elif p["k"] == "loc":
    fav = None
    if p["f"] != "none":
      fav = [o for o in rec.offsets if otok(o * 60) == p["f"]][0]
    case["loc"].append(loc_probe(zone, rec, float(p["ms"]), fav))
  else:
    case["dt"].append(dt_probe(zone, rec, p["n"]))
  return [case]


def shape_cases():
  cases = []
  for name, rec in sorted(moment.get_tz_data().items()):
    un = rec.untils[:-1]
    cases.append({"k": "shape", "zone": name,
                  "sep": [int(min((un[k + 1] - un[k]) // 1000, 1000000)) for k in range(len(un) - 1)],
                  "o": [int(round(o * 60)) for o in rec.offsets]})
  return cases


def main():
  args = json.loads(sys.argv[1])
  cases = []
  for item in json.load(open(args["inp"])):
    if item["k"] == "syn":
      cases.append(syn_case(item))
    elif item["k"] == "shape":
      cases.extend(shape_cases())
    elif "probe" in item:
      cases.extend(real_replay(item))
    else:
      cases.extend(real_cases(item))
  json.dump(cases, open(args["out"], "w"))


main()
