"""
Worker for C15: replay histories of spec/Trigger.tla on the real data engine of /repo/sandbox/grist and
write judgement-free cases for spec/Trace_Trigger.tla.
argv[1] = JSON {"inp": <inputs file>, "out": <cases file>}.

An input is a history on ONE table T:
  {"cfg":   [{"id": "K", "when": 0|1|2, "deps": ["A", "F", "K", ...], "fm": 0|1}, ...]   trigger columns
   "init":  [{"r": 1, "A": 1, "B": 1, "F": 10, "k": [5, ...]}, ...]      the rows to load (F is ignored)
   "steps": [[{"op": "Add"|"Upd"|"Rem"|"Ren"|"Mod", "r": <row id>, "vals": [{"c": col, "v": int}, ...],
               "bulk": 0|1}, ...], ...]                                   one inner list = one bundle
   "explicit_ids": bool (optional)  AddRecord always names the row id (default: None is passed when
                                    the row id is the next automatic one)}
The table has data columns A, B (Int), the formula column F = $A * 10 and the trigger columns of cfg:
Int data columns with the formula `(value or 0) + 1` (fm = 0) or the same formula also reading $A, $B
and $F (fm = 1), recalcWhen = when and recalcDeps = deps.  Ren renames A (A <-> A2), Mod changes the
type of A (Int <-> Numeric).

A case is {"inp": input, "out": [observation 0, ..., observation n], "exc": ""}: observation 0 is the
table after loading, observation i the table after bundle i:
  {"exc": "" or the class of the exception the bundle raised,
   "rows": [{"r", "A", "B", "F", "k": [cell of every trigger column]}, ...] sorted by row id,
   "odd": [text, ...]  cells that are not integers (recorded as -900000000 - n) and other remarks}
Nothing is judged here.
"""
import json
import sys

import adapter

TABLE = "T"
ENGINE_REUSE = 3000          # histories per engine
FORMULAS = ("(value or 0) + 1",
            "(value or 0) + 1 + 0 * (($A or 0) + ($B or 0) + ($F or 0))")
ODD = -900000000


def doc_apply(eng, doc_action_reprs):
  eng.apply_user_actions([adapter.useractions.from_repr(["ApplyDocActions", doc_action_reprs])])


class Runner(object):
  """One engine and one table T per configuration (consecutive histories with the same configuration
  share it); the table is emptied / re-filled at
  doc-action level (docactions.ReplaceTableData -> Engine.load_table) before every history; a renamed
  or retyped column A is renamed / retyped back first."""

  def __init__(self):
    self.eng = None
    self.used = 0
    self.key = None
    self.a_name = "A"
    self.a_numeric = False

  def engine(self, cfg):
    key = json.dumps(cfg, sort_keys=True)
    if self.eng is None or self.used >= ENGINE_REUSE or key != self.key:
      # a fresh engine for every configuration: trigger dependencies of an earlier table never linger
      self.eng = adapter.new_engine()
      adapter.apply(self.eng, [["InitNewDoc"]])
      self.used = 0
      self.build_table(cfg)
      self.key = key
    self.used += 1
    return self.eng

  def build_table(self, cfg):
    eng = self.eng
    cols = [{"id": "A", "type": "Int", "isFormula": False},
            {"id": "B", "type": "Int", "isFormula": False},
            {"id": "F", "type": "Any", "isFormula": True, "formula": "$A * 10"}]
    reply = adapter.apply(eng, [["AddTable", TABLE, cols]])
    table_ref = reply["retValues"][0]["id"]
    # trigger columns as test_trigger_formulas.py creates them (AddTable ignores recalcWhen)
    for kc in cfg:
      adapter.apply(eng, [["AddColumn", TABLE, kc["id"],
                           {"type": "Int", "isFormula": False, "formula": FORMULAS[kc["fm"]],
                            "recalcWhen": int(kc["when"])}]])

    def colrefs():
      meta = eng.fetch_table("_grist_Tables_column")
      return {c: (rid, w, d) for rid, c, p, w, d in zip(
        meta.row_ids, meta.columns["colId"], meta.columns["parentId"], meta.columns["recalcWhen"],
        meta.columns["recalcDeps"]) if p == table_ref}
    ref = colrefs()
    for kc in cfg:
      if kc["deps"]:
        adapter.apply(eng, [["UpdateRecord", "_grist_Tables_column", ref[kc["id"]][0],
                             {"recalcDeps": ["L"] + [ref[d][0] for d in kc["deps"]]}]])
    ref = colrefs()
    for kc in cfg:
      _rid, when, deps = ref[kc["id"]]
      want = sorted(ref[d][0] for d in kc["deps"])
      if when != kc["when"] or sorted(deps or []) != want:
        raise adapter.MachineryError("set-up failed: column %s has recalcWhen %r recalcDeps %r" % (kc["id"], when, deps))
    self.a_name, self.a_numeric = "A", False

  def restore_schema(self):
    if self.a_name != "A":
      adapter.apply(self.eng, [["RenameColumn", TABLE, self.a_name, "A"]])
      self.a_name = "A"
    if self.a_numeric:
      adapter.apply(self.eng, [["ModifyColumn", TABLE, "A", {"type": "Int"}]])
      self.a_numeric = False

  def run(self, inp):
    try:
      eng = self.engine(inp["cfg"])
      self.restore_schema()
      return self._history(eng, inp)
    except Exception:      # the engine itself is in doubt: do not reuse it
      self.eng = None
      raise

  # -------------------------------------------------------------------------------------------
  def observe(self, eng, cfg, exc, odd):
    td = eng.fetch_table(TABLE, formulas=True)
    notes = list(odd)

    def enc(v, where):
      if isinstance(v, bool) or not isinstance(v, (int, float)) or v != int(v) or abs(v) > 10 ** 8:
        notes.append("%s = %r" % (where, v))
        return ODD - len(notes)
      return int(v)
    rows = []
    for i, r in enumerate(td.row_ids):
      row = {"r": int(r)}
      for name, col in (("A", self.a_name), ("B", "B"), ("F", "F")):
        row[name] = enc(td.columns[col][i], "%s[%d]" % (name, r))
      row["k"] = [enc(td.columns[kc["id"]][i], "%s[%d]" % (kc["id"], r)) for kc in cfg]
      rows.append(row)
    rows.sort(key=lambda x: x["r"])
    return {"exc": exc, "rows": rows, "odd": [n.encode("ascii", "replace").decode("ascii") for n in notes]}

  def col(self, c):
    return self.a_name if c == "A" else c

  def user_action(self, act, existing, explicit_ids, odd):
    op, r, bulk = act["op"], int(act["r"]), int(act.get("bulk", 0))
    vals = {self.col(p["c"]): int(p["v"]) for p in act["vals"]}
    if op == "Add":
      rid = r if (explicit_ids or r != max(existing or [0]) + 1) else None
      if bulk:
        return ["BulkAddRecord", TABLE, [rid], {c: [v] for c, v in vals.items()}]
      return ["AddRecord", TABLE, rid, vals]
    if op == "Upd":
      if bulk:
        return ["BulkUpdateRecord", TABLE, [r], {c: [v] for c, v in vals.items()}]
      return ["UpdateRecord", TABLE, r, vals]
    if op == "Rem":
      return ["BulkRemoveRecord", TABLE, [r]] if bulk else ["RemoveRecord", TABLE, r]
    if op == "Ren":
      new = "A2" if self.a_name == "A" else "A"
      ua = ["RenameColumn", TABLE, self.a_name, new]
      self.a_name = new
      return ua
    if op == "Mod":
      self.a_numeric = not self.a_numeric
      return ["ModifyColumn", TABLE, self.a_name, {"type": "Numeric" if self.a_numeric else "Int"}]
    raise adapter.MachineryError("unknown op %r" % (op,))

  def _history(self, eng, inp):
    cfg = inp["cfg"]
    init = sorted(inp["init"], key=lambda x: x["r"])
    ids = [int(x["r"]) for x in init]
    data = {"A": [int(x["A"]) for x in init], "B": [int(x["B"]) for x in init],
            "manualSort": [float(r) for r in ids]}
    for j, kc in enumerate(cfg):
      data[kc["id"]] = [int(x["k"][j]) for x in init]
    # doc-action level set-up (what replaying a stored action does); what it leaves is observed
    doc_apply(eng, [["ReplaceTableData", TABLE, ids, data]])
    obs = [self.observe(eng, cfg, "", [])]
    if [x["r"] for x in obs[0]["rows"]] != ids:
      raise adapter.MachineryError("set-up failed: wanted rows %r, table has %r" % (ids, obs[0]["rows"]))
    explicit_ids = bool(inp.get("explicit_ids", False))
    for bundle in inp["steps"]:
      existing = [x["r"] for x in obs[-1]["rows"]]
      odd, exc = [], ""
      name0, num0 = self.a_name, self.a_numeric
      uas = []
      for act in bundle:
        uas.append(self.user_action(act, existing, explicit_ids, odd))
        if act["op"] == "Add":
          existing = existing + [int(act["r"])]
        elif act["op"] == "Rem":
          existing = [x for x in existing if x != int(act["r"])]
      # spelling: consecutive bulk updates of different rows with the same columns are sent as ONE
      # multi-row BulkUpdateRecord (per row the same update; some rows may be written with their own values)
      merged = []
      for ua in uas:
        if (merged and ua[0] == "BulkUpdateRecord" and merged[-1][0] == "BulkUpdateRecord"
            and set(ua[3]) == set(merged[-1][3]) and not set(ua[2]) & set(merged[-1][2])):
          prev = merged[-1]
          merged[-1] = ["BulkUpdateRecord", TABLE, prev[2] + ua[2], {c: prev[3][c] + ua[3][c] for c in prev[3]}]
        else:
          merged.append(ua)
      was_merged = len(merged) != len(uas)
      uas = merged
      try:
        reply = adapter.apply(eng, uas)
        for act, ret in zip(bundle, [] if was_merged else reply["retValues"]):
          if act["op"] == "Add" and ret not in (int(act["r"]), [int(act["r"])]):
            odd.append("Add of row %d returned %r" % (act["r"], ret))
      except Exception as e:   # pylint: disable=broad-except
        exc = type(e).__name__
        odd.append(str(e)[:200])
        self.a_name, self.a_numeric = name0, num0     # the bundle was rolled back
      obs.append(self.observe(eng, cfg, exc, odd))
    return obs


def main():
  args = json.loads(sys.argv[1])
  inputs = json.load(open(args["inp"]))
  runner = Runner()
  cases = []
  for inp in inputs:
    cases.append({"inp": inp, "out": runner.run(inp), "exc": ""})
  json.dump(cases, open(args["out"], "w"))


if __name__ == "__main__":
  main()
