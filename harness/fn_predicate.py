"""
Worker for C40: run the real predicate_formula.parse_predicate_formula on expressions TLC enumerated
(rendered as Python text in several styles), on randomly generated expressions beyond the bound, and on
mutated / out-of-subset text.  argv[1] = JSON {"inp": items file, "out": cases file, "envs": file}.

An item is one of
  {"expr": <abstract expression in the TLA shape>, "style": "full"|"min"|"cmt"}    (TLC-enumerated)
  {"rand": seed, "n": count}                                                      (generated here)
  a recorded case's "inp" (has "text")                                            (replay)

Nothing here judges the property: for every text the worker records the returned tree (re-encoded so
that TLC can read it), whether json.dumps works, the exception class, facts from Python's own ast of
the text (node class names), and Python's own eval of the text per environment.
"""
import ast
import json
import random
import re
import sys
import types
import warnings

import predicate_formula

warnings.simplefilter("ignore")

BOUND = 1000      # = Predicate!Bound
MAXSEQ = 64       # = Predicate!MaxSeq


# ---------------------------------------------------------------------------------------------------
# values  <->  tagged values
class Obj(object):
  """An environment object (rec, user): identity equality, attributes only."""
  def __init__(self, attrs):
    self.__dict__.update(attrs)


class Kw(object):
  def __init__(self, name):
    self.name = name


def pack(*args, **kwargs):
  """The environment function f: positional arguments followed by [keyword name, value] pairs."""
  return list(args) + [[Kw(k), v] for k, v in kwargs.items()]


def enc_value(v):
  if v is None:
    return ["none", 0]
  if isinstance(v, bool):
    return ["bool", v]
  if isinstance(v, int):
    return ["int", v] if abs(v) <= BOUND else ["bigint", 0]
  if isinstance(v, float):
    if v == v and abs(v) <= BOUND and v == int(v):
      return ["float", int(v)]
    return ["nonint", 0]
  if isinstance(v, str):
    return ["str", [ord(c) for c in v]] if len(v) <= MAXSEQ else ["bigstr", 0]
  if isinstance(v, (list, tuple)):
    return ["list", [enc_value(x) for x in v]] if len(v) <= MAXSEQ else ["other", 0]
  if isinstance(v, Obj):
    return ["obj", {k: enc_value(x) for k, x in sorted(v.__dict__.items())}]
  if isinstance(v, Kw):
    return ["kw", v.name]
  if v is pack:
    return ["fn", ["pack", ["none", 0]]]
  if isinstance(v, types.BuiltinMethodType) and isinstance(getattr(v, "__self__", None), str):
    return ["fn", [v.__name__, enc_value(v.__self__)]]
  return ["other", 0]


def dec_value(t):
  tag, p = t
  if tag == "none":
    return None
  if tag in ("bool", "int"):
    return p
  if tag == "float":
    return float(p)
  if tag == "str":
    return "".join(chr(c) for c in p)
  if tag == "list":
    return [dec_value(x) for x in p]
  if tag == "obj":
    return Obj({k: dec_value(x) for k, x in p.items()})
  if tag == "fn" and p[0] == "pack":
    return pack
  raise ValueError("cannot decode %r" % (t,))


def esc(s):
  return s.encode("unicode_escape").decode("ascii")


def unesc(s):
  return s.encode("ascii").decode("unicode_escape")


# ---------------------------------------------------------------------------------------------------
# trees: the documented shape with raw Python constants  <->  the TLA shape (tagged constants)
def enc_tree(t):
  """Returns (encoded, ok).  ok=False: the object is not a tree of [str, ...] nodes."""
  ok = [True]

  def node(n):
    if not isinstance(n, list) or not n or not isinstance(n[0], str):
      ok[0] = False
      return ["Malformed"]
    head = n[0]
    if head == "Const" and len(n) == 2:
      return ["Const", enc_value(n[1])]
    if head == "Name" and len(n) == 2 and isinstance(n[1], str):
      return ["Name", esc(n[1])]
    if head == "Attr" and len(n) == 3 and isinstance(n[2], str):
      return ["Attr", node(n[1]), esc(n[2])]
    if head == "Comment" and len(n) == 3 and isinstance(n[2], str):
      return ["Comment", node(n[1]), [ord(c) for c in n[2]]]
    if head == "keywords":
      out = ["keywords"]
      for pair in n[1:]:
        if (isinstance(pair, list) and len(pair) == 2 and (pair[0] is None or isinstance(pair[0], str))):
          out.append(["**" if pair[0] is None else esc(pair[0]), node(pair[1])])
        else:
          ok[0] = False
          out.append(["?", ["Malformed"]])
      return out
    if head in ("Const", "Name", "Attr", "Comment"):
      ok[0] = False
      return ["Malformed"]
    return [esc(head)] + [node(a) for a in n[1:]]

  return node(t), ok[0]


def dec_tree(t):
  """TLA shape -> documented shape with raw constants (the abstract expression as a Python object)."""
  head = t[0]
  if head == "Const":
    return ["Const", dec_value(t[1])]
  if head == "Name":
    return ["Name", t[1]]
  if head == "Attr":
    return ["Attr", dec_tree(t[1]), t[2]]
  if head == "keywords":
    return ["keywords"] + [[k, dec_tree(v)] for k, v in t[1:]]
  if head == "Unsup":
    return ["Unsup", t[1], dec_tree(t[2]), dec_tree(t[3])]
  return [head] + [dec_tree(a) for a in t[1:]]


# ---------------------------------------------------------------------------------------------------
# rendering an abstract expression as text
PREC = {"Or": 1, "And": 2, "Not": 3,
        "Eq": 4, "NotEq": 4, "Lt": 4, "LtE": 4, "Gt": 4, "GtE": 4, "Is": 4, "IsNot": 4, "In": 4, "NotIn": 4,
        "Add": 5, "Sub": 5, "Mult": 6, "Div": 6, "Mod": 6}
SYM = {"Or": "or", "And": "and", "Eq": "==", "NotEq": "!=", "Lt": "<", "LtE": "<=", "Gt": ">", "GtE": ">=",
       "Is": "is", "IsNot": "is not", "In": "in", "NotIn": "not in",
       "Add": "+", "Sub": "-", "Mult": "*", "Div": "/", "Mod": "%"}

UNSUP = {
  "Pow": "({a} ** {b})", "FloorDiv": "({a} // {b})", "BitOr": "({a} | {b})", "BitAnd": "({a} & {b})",
  "BitXor": "({a} ^ {b})", "LShift": "({a} << {b})", "RShift": "({a} >> {b})", "MatMult": "({a} @ {b})",
  "USub": "(-{a})", "UAdd": "(+{a})", "Invert": "(~{a})", "Compare:chained": "({a} < {b} < {a})",
  "Subscript": "({a}[{b}])", "Slice": "({a}[{b}:])", "Lambda": "(lambda: {a})",
  "ListComp": "[{a} for q in {b}]", "GeneratorExp": "({a} for q in {b})", "SetComp": "{{{a} for q in {b}}}",
  "DictComp": "{{{a}: {b} for q in {b}}}", "Dict": "{{{a}: {b}}}", "Set": "{{{a}, {b}}}",
  "IfExp": "({a} if {b} else {a})", "NamedExpr": "(q := {a})", "Starred": "[*{a}]",
  "keyword:**": "f(**{a})", "JoinedStr": "(f\"{{{a}}}\")", "Await": "(await {a})",
  "Constant:bytes": "b'a'", "Constant:complex": "1j", "Constant:ellipsis": "...",
  "NotPython": "({a} + * {b})",
}


def prec(n):
  return PREC.get(n[0], 9)


def render(n, style, dollar):
  """style: full = every compound operand parenthesised; min / cmt = only where the grammar needs it."""
  full = style == "full"
  gap = "  " if style == "cmt" else " "

  def wrap(c, need):
    s = r(c)
    return "(" + s + ")" if (need or (full and prec(c) < 9)) else s

  def base(c):
    # the object of an attribute access / call: a primary; number literals need parentheses
    numeric = c[0] == "Const" and isinstance(c[1], (int, float)) and not isinstance(c[1], bool)
    return wrap(c, prec(c) < 9 or numeric)

  def r(n):
    head = n[0]
    if head == "Const":
      return repr(n[1])
    if head == "Name":
      return n[1]
    if head == "Attr":
      if dollar and n[1] == ["Name", "rec"]:
        return "$" + n[2]
      return base(n[1]) + "." + n[2]
    if head in ("And", "Or"):
      return (gap + SYM[head] + gap).join(wrap(c, prec(c) <= PREC[head]) for c in n[1:])
    if head == "Not":
      return "not " + wrap(n[1], prec(n[1]) < 3)
    if head in PREC:
      p = PREC[head]
      left = wrap(n[1], prec(n[1]) <= 4 if p == 4 else prec(n[1]) < p)
      right = wrap(n[2], prec(n[2]) <= p)
      return left + gap + SYM[head] + gap + right
    if head == "List":
      return "[" + ("," + gap).join(r(c) for c in n[1:]) + "]"
    if head == "Tuple":
      return "(" + ("," + gap).join(r(c) for c in n[1:]) + ("," if len(n) == 2 else "") + ")"
    if head == "Call":
      args = []
      for a in n[2:]:
        if a[0] == "keywords":
          args.extend("%s=%s" % (k, r(v)) for k, v in a[1:])
        else:
          args.append(r(a))
      return base(n[1]) + "(" + ("," + gap).join(args) + ")"
    if head == "Unsup":
      return UNSUP[n[1]].format(a=wrap(n[2], prec(n[2]) < 9), b=wrap(n[3], prec(n[3]) < 9))
    raise ValueError("cannot render %r" % (n,))

  return r(n)


def expected_tree(n):
  """The abstract expression in the documented output shape (a tuple display is documented as List)."""
  if n[0] in ("Const", "Name"):
    return n
  if n[0] == "Attr":
    return ["Attr", expected_tree(n[1]), n[2]]
  if n[0] == "keywords":
    return ["keywords"] + [[k, expected_tree(v)] for k, v in n[1:]]
  if n[0] == "Unsup":
    return ["Unsup", n[1], expected_tree(n[2]), expected_tree(n[3])]
  return ["List" if n[0] == "Tuple" else n[0]] + [expected_tree(a) for a in n[1:]]


def enc_expr(n):
  """Abstract expression (raw constants) -> TLA shape."""
  if n[0] == "Unsup":
    return ["Unsup", n[1], enc_expr(n[2]), enc_expr(n[3])]
  if n[0] == "Const":
    return ["Const", enc_value(n[1])]
  if n[0] == "Name":
    return n
  if n[0] == "Attr":
    return ["Attr", enc_expr(n[1]), n[2]]
  if n[0] == "keywords":
    return ["keywords"] + [[k, enc_expr(v)] for k, v in n[1:]]
  return [n[0]] + [enc_expr(a) for a in n[1:]]


# ---------------------------------------------------------------------------------------------------
# facts from Python's own parser
HEAVY = {"Pow", "LShift"}      # never evaluated (resource guard; these texts are outside the subset)


def python_facts(pytext):
  try:
    tree = ast.parse(pytext, mode="eval")
  except (SyntaxError, ValueError, RecursionError, MemoryError):
    return False, []
  kinds = set()
  for n in ast.walk(tree):
    kinds.add(type(n).__name__)
    if isinstance(n, ast.Constant):
      kinds.add("Constant:" + type(n.value).__name__)
    if isinstance(n, ast.Compare) and len(n.ops) > 1:
      kinds.add("Compare:chained")
    if isinstance(n, ast.keyword) and n.arg is None:
      kinds.add("keyword:**")
  return True, sorted(kinds)


def python_results(pytext, kinds, envs):
  if HEAVY & set(kinds):
    return [["other", 0] for _ in envs]
  try:
    code = compile(pytext, "<formula>", "eval")
  except Exception:   # pylint: disable=broad-except
    return [["err", 0] for _ in envs]
  out = []
  for env in envs:
    scope = {k: dec_value(v) for k, v in env.items()}
    try:
      out.append(enc_value(eval(code, {"__builtins__": {}}, scope)))   # pylint: disable=eval-used
    except Exception:   # pylint: disable=broad-except
      out.append(["err", 0])
  return out


# ---------------------------------------------------------------------------------------------------
def run_text(inp, std_envs):
  """inp: dict with text, pytext (escaped), expr, style, hascmt, comment, envs.  Returns the case."""
  text, pytext = unesc(inp["text"]), unesc(inp["pytext"])
  pyok, kinds = python_facts(pytext)
  inp = dict(inp, pyok=pyok, kinds=kinds)
  envs = inp["envs"] or std_envs
  py = python_results(pytext, kinds, envs) if pyok else [["err", 0] for _ in envs]
  out = {"tree": ["NoTree"], "json": False, "exc": "", "shape": False}
  try:
    tree = predicate_formula.parse_predicate_formula(text)
  except SyntaxError:
    out["exc"] = "SyntaxError"
  except Exception as e:   # pylint: disable=broad-except
    out["exc"] = type(e).__name__
  else:
    try:
      json.dumps(tree)
      out["json"] = True
    except Exception:   # pylint: disable=broad-except
      out["json"] = False
    try:
      out["tree"], out["shape"] = enc_tree(tree)
    except Exception:   # pylint: disable=broad-except
      out["tree"], out["shape"] = ["Malformed"], False
  return {"inp": inp, "out": out, "py": py}


COMMENT = "note"


def item_from_expr(expr, style, envs=(), comment=COMMENT):
  """expr: abstract expression with raw constants."""
  text = render(expr, style, dollar=style != "full")
  pytext = render(expr, style, dollar=False)
  hascmt = style == "cmt"
  if hascmt:
    text += "  # " + comment
    pytext += "  # " + comment
  return {"expr": enc_expr(expected_tree(expr)), "text": esc(text), "pytext": esc(pytext), "style": style,
          "hascmt": hascmt, "comment": [ord(c) for c in comment.strip()] if hascmt else [],
          "envs": list(envs)}


# ---------------------------------------------------------------------------------------------------
# generated expressions beyond the bound of the design model
INTS = [0, 1, 2, 3, 7, 10]
BIG = [1000, 1001, 2 ** 31, 2 ** 53 + 1]
FLOATS = [1.0, 2.5, 0.5, 100.0]
STRS = ["a", "", "Ab", "b", "it's", 'say "hi"', "$x", "#no", "a\\b", "é", "日本", "a b", "\n", "ab"]
PLAIN_STRS = [t for t in STRS if "$" not in t]     # for texts that get mutated ($ is not Python)
XVALS = [0, 1, 2, 3, 7, -1, -3, True, False, None, "a", "", "Ab", [1], [], [1, "a"], [[1]], 2.0, 1000, "b", [None], 10, 5]
COMMENTS = ["note", "$x > 1", "a # b", " spaced  ", "'q' \"d\"", "", "été", "rec.x == 1"]
CMP = ["Eq", "NotEq", "Lt", "LtE", "Gt", "GtE", "In", "NotIn"]
ARITH = ["Add", "Sub", "Mult", "Div", "Mod"]


class Gen(object):
  def __init__(self, rnd):
    self.r = rnd
    self.allow_big = True     # huge integer literals and '$' in strings (kept out of texts that get mutated)

  def leaf(self):
    r = self.r
    k = r.random()
    if k < 0.25:
      return ["Attr", ["Name", "rec"], r.choice(["x", "y"])]
    if k < 0.45:
      return ["Const", r.choice(INTS)]
    if k < 0.60:
      return ["Const", r.choice(STRS if self.allow_big else PLAIN_STRS)]
    if k < 0.70:
      return ["Const", r.choice([True, False, None])]
    if k < 0.76:
      return ["Const", r.choice(FLOATS)]
    if k < 0.84:
      return ["Attr", ["Name", "user"], r.choice(["a", "a", "b"])]
    if k < 0.88:
      return ["Name", r.choice(["rec", "user", "zz", "f"])]
    if k < 0.94:
      return ["List"]
    return ["Attr", ["Attr", ["Name", "user"], "a"], r.choice(["upper", "lower", "x"])]

  def expr(self, d):
    r = self.r
    if d <= 0 or r.random() < 0.15:
      return self.leaf()
    k = r.random()
    if k < 0.18:
      return [r.choice(["And", "Or"])] + [self.expr(d - 1) for _ in range(r.choice([2, 2, 3, 4]))]
    if k < 0.26:
      return ["Not", self.expr(d - 1)]
    if k < 0.50:
      op = r.choice(CMP)
      if op in ("Lt", "LtE", "Gt", "GtE") and r.random() < 0.6:
        return [op, self.num(d - 1), self.num(d - 1)]
      right = self.expr(d - 1)
      if self.allow_big and r.random() < 0.15:
        right = ["Const", r.choice(BIG)]
      elif op in ("In", "NotIn") and r.random() < 0.5:
        right = [r.choice(["List", "List", "Tuple"])] + [self.expr(d - 2) for _ in range(r.choice([0, 1, 2, 3]))]
      return [op, self.expr(d - 1), right]
    if k < 0.56:
      return [r.choice(["Is", "IsNot"]), self.expr(d - 1), ["Const", r.choice([None, None, True, False])]]
    if k < 0.74:
      if r.random() < 0.6:
        return self.num(d)
      return [r.choice(ARITH), self.expr(d - 1), self.expr(d - 1)]
    if k < 0.82:
      return ["List"] + [self.expr(d - 1) for _ in range(r.choice([1, 2, 3]))]
    if k < 0.90:
      args = [self.expr(d - 1) for _ in range(r.choice([0, 1, 2]))]
      names = r.sample(["k", "j", "key"], r.choice([0, 0, 1, 2]))
      if names:
        args.append(["keywords"] + [[nm, self.expr(d - 1)] for nm in names])
      return ["Call", ["Name", "f"]] + args
    if k < 0.96:
      return ["Call", ["Attr", self.expr(d - 1), r.choice(["upper", "lower"])]]
    return ["Attr", self.expr(d - 1), r.choice(["x", "a", "upper"])]

  def num(self, d):
    """Mostly-numeric arithmetic (so that Python computes a value more often than it raises)."""
    r = self.r
    if d <= 0 or r.random() < 0.3:
      k = r.random()
      if k < 0.5:
        return ["Const", r.choice(INTS)]
      if k < 0.9:
        return ["Attr", ["Name", "rec"], r.choice(["x", "y"])]
      return ["Const", r.choice([1.0, 100.0, True])]
    return [r.choice(ARITH), self.num(d - 1), self.num(d - 1)]

  def with_unsup(self, n):
    """Replace one random subexpression by an out-of-subset construct."""
    r = self.r
    if n[0] in ("Const", "Name") or (n[0] == "Attr" and n[1][0] == "Name") or len(n) == 1 or r.random() < 0.3:
      kind = r.choice(sorted(UNSUP))
      return ["Unsup", kind, self.leaf(), self.leaf()]
    idx = [i for i in range(1, len(n)) if isinstance(n[i], list) and n[i] and n[i][0] != "keywords"]
    if n[0] == "Attr":
      idx = [1]
    if not idx:
      return ["Unsup", r.choice(sorted(UNSUP)), self.leaf(), self.leaf()]
    i = r.choice(idx)
    return n[:i] + [self.with_unsup(n[i])] + n[i + 1:]

  def env(self):
    r = self.r
    return {"rec": ["obj", {"x": enc_value(r.choice(XVALS)), "y": enc_value(r.choice(XVALS))}],
            "user": ["obj", {"a": enc_value(r.choice(["Ab", "Ab", "xY z", ""]))}],
            "f": ["fn", ["pack", ["none", 0]]]}


TOKEN = re.compile(r"\s+|[A-Za-z_][A-Za-z_0-9]*|\d+\.?\d*|'(?:[^'\\]|\\.)*'|\"(?:[^\"\\]|\\.)*\"|[<>=!]=|.", re.S)


def mutate_text(rnd, text):
  toks = [t for t in TOKEN.findall(text)]
  idx = [i for i, t in enumerate(toks) if not t.isspace()]
  if not idx:
    return text
  how = rnd.random()
  i = rnd.choice(idx)
  if how < 0.45:
    del toks[i]
  elif how < 0.7 and len(idx) > 1:
    j = rnd.choice(idx)
    toks[i], toks[j] = toks[j], toks[i]
  elif how < 0.85:
    toks.insert(i, toks[i])
  else:
    toks.insert(i, rnd.choice(["not ", "(", ")", "-", "**", "[", "]", ",", " if ", " else ", "lambda:", "=", ":", "~"]))
  return "".join(toks)


def generated_items(seed, n):
  rnd = random.Random(seed)
  g = Gen(rnd)
  items = []
  for _ in range(n):
    k = rnd.random()
    g.allow_big = k < 0.85
    e = g.expr(rnd.choice([1, 2, 2, 3, 3, 4]))
    envs = [g.env() for _ in range(3)]
    style = rnd.choice(["full", "min", "cmt"])
    if k < 0.70:
      items.append(item_from_expr(e, style, envs, comment=rnd.choice(COMMENTS)))
    elif k < 0.85:
      items.append(item_from_expr(g.with_unsup(e), style, envs, comment=rnd.choice(COMMENTS)))
    else:
      base = item_from_expr(e, "full", envs)
      text = mutate_text(rnd, unesc(base["text"]))
      items.append({"expr": ["NoExpr"], "text": esc(text), "pytext": esc(text), "style": "mutated",
                    "hascmt": False, "comment": [], "envs": envs})
  return items


def main():
  args = json.loads(sys.argv[1])
  items = json.load(open(args["inp"]))
  std_envs = json.load(open(args["envs"]))
  cases = []
  for it in items:
    if "text" in it:
      inps = [{k: it[k] for k in ("expr", "text", "pytext", "style", "hascmt", "comment", "envs")}]
    elif "rand" in it:
      inps = generated_items(it["rand"], it["n"])
    else:
      inps = [item_from_expr(dec_tree(it["expr"]), it["style"])]
    for inp in inps:
      cases.append(run_text(inp, std_envs))
  json.dump(cases, open(args["out"], "w"))


if __name__ == "__main__":
  main()
