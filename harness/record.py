"""
Recorder: drives one real Engine and records one event per public call (the linearisation point of
every specification action is the return or raise of the call).  Events carry the full reply and
the *observed* state delta, computed from the engine's own state - never from the actions.
"""
import adapter
from tokens import TokenTable, token


def base_type(type_str):
  # judgement-free split of a column type at the first ':'
  return type_str.split(':', 1)[0] if isinstance(type_str, str) else ""


RECORD_EDITS = ('AddRecord', 'BulkAddRecord', 'UpdateRecord', 'BulkUpdateRecord', 'RemoveRecord',
                'BulkRemoveRecord')


def requested_edits(uas):
  """
  Judgement-free abstract of a request that consists only of record edits on user tables:
  {tableId: [requested column ids]} (empty dict otherwise).  Used by the C31 clauses.
  """
  out = {}
  for u in uas:
    if not (u and isinstance(u[0], str) and u[0] in RECORD_EDITS and len(u) > 1 and isinstance(u[1], str)
            and not u[1].startswith('_grist_')):
      return {}
    cols = out.setdefault(u[1], set())
    if u[0] in ('AddRecord', 'UpdateRecord', 'BulkAddRecord', 'BulkUpdateRecord') and len(u) > 3 \
        and isinstance(u[3], dict):
      cols.update(u[3].keys())
  return {t: sorted(c) for t, c in out.items()}


REMOVALS = ('RemoveRecord', 'BulkRemoveRecord', 'RemoveTable', 'RemoveColumn', 'RemoveView',
            'RemoveViewSection', 'ReplaceTableData')    # (ReplaceTableData drops the rows it does not name)

BULK = {'AddRecord': 'BulkAddRecord', 'UpdateRecord': 'BulkUpdateRecord',
        'RemoveRecord': 'BulkRemoveRecord'}


def encode_action(a, tt):
  """Doc action repr (list) -> uniform record for DocActions.tla."""
  name = a[0]
  rec = {"n": name, "t": a[1], "r": [], "c": {}, "id": "", "id2": "", "base": "", "cols": []}
  if name in ('AddRecord', 'UpdateRecord'):
    rec["n"] = BULK[name]
    rec["r"] = [a[2]]
    rec["c"] = {c: [tt.tok(v)] for c, v in a[3].items()}
  elif name == 'RemoveRecord':
    rec["n"] = BULK[name]
    rec["r"] = [a[2]]
  elif name in ('BulkAddRecord', 'BulkUpdateRecord', 'ReplaceTableData', 'TableData'):
    rec["r"] = list(a[2])
    rec["c"] = {c: [tt.tok(v) for v in vals] for c, vals in a[3].items()}
  elif name == 'BulkRemoveRecord':
    rec["r"] = list(a[2])
  elif name == 'AddColumn':
    rec["id"] = a[2]
    rec["base"] = base_type(a[3].get('type', 'Any'))
  elif name == 'ModifyColumn':
    rec["id"] = a[2]
    rec["base"] = base_type(a[3]['type']) if 'type' in a[3] else ""
  elif name == 'RemoveColumn':
    rec["id"] = a[2]
  elif name == 'RenameColumn':
    rec["id"] = a[2]
    rec["id2"] = a[3]
  elif name == 'AddTable':
    rec["cols"] = [{"id": c['id'], "base": base_type(c.get('type', 'Any'))} for c in a[2]]
  elif name == 'RemoveTable':
    pass
  elif name == 'RenameTable':
    rec["id2"] = a[2]
  else:
    raise adapter.MachineryError("unknown doc action %r" % (name,))
  # row ids must be TLC-safe ints
  rec["r"] = [r if isinstance(r, int) and not isinstance(r, bool) and abs(r) < 2 ** 31 else -999999
              for r in rec["r"]]
  return rec


class Recorder(object):
  def __init__(self, eng=None, tid="t", tt=None):
    self.eng = eng if eng is not None else adapter.new_engine()
    self.tt = tt if tt is not None else TokenTable()
    self.tid = tid
    self.events = []
    self.raw = []          # parallel to events: raw python-side info (replies) for the driver
    self.full = []         # parallel to events: the full user actions (None for peer events)
    self.keep_states = False
    self.states = []       # parallel to events when keep_states: projected state after the event
    self.colfacts = []     # parallel to events when keep_states: {table: {col: [type, isFormula, formula]}}
    self.peers = []        # parallel to events when keep_states: peer state (peer events) or None
    self.state = {}
    self.schema = {}
    self.init_state = None
    self.init_schema = None
    self.snapshot()
    self.init_state = self.state
    self.init_schema = self.schema

  # ---- projection ----
  def project(self, eng=None):
    eng = eng or self.eng
    st = {}
    fetched = adapter.fetch_all(eng)
    for tid, (rows, cols) in fetched.items():
      sc = eng.schema.get(tid)
      base, ref, isf, hasf = {}, {}, {}, {}
      for cid in cols:
        c = sc.columns.get(cid) if sc else None
        typ = c.type if c else "Any"
        base[cid] = base_type(typ)
        # judgement-free split of "Ref:T" / "RefList:T" at the first ':'
        ref[cid] = typ.split(':', 1)[1] if (':' in typ and base[cid] in ('Ref', 'RefList')) else ""
        isf[cid] = bool(c.isFormula) if c else False
        hasf[cid] = bool(c.formula) if c else False      # formula column, or data column with a default/trigger formula
      st[tid] = {"rows": rows, "cols": {c: [self.tt.tok(v) for v in vals] for c, vals in cols.items()},
                 "base": base, "ref": ref, "isf": isf, "hasf": hasf}
    return st

  def project_schema(self, eng=None):
    eng = eng or self.eng
    out = {}
    for tid, cols in adapter.schema_record(eng).items():
      if tid.startswith('_grist_'):
        continue
      out[token(tid)] = {token(cid): {"type": token(c[0]), "isf": bool(c[1]), "formula": token(c[2]),
                                       "rev": token(c[3]) if c[3] else "n"}
                         for cid, c in cols.items()}
    return out

  def snapshot(self):
    self.state = self.project()
    self.schema = self.project_schema()

  def delta(self, new_state):
    tables = {t: v for t, v in new_state.items() if self.state.get(t) != v}
    removed = [t for t in self.state if t not in new_state]
    return {"tables": tables, "removed": removed}

  # ---- events ----
  def _finish(self, ev):
    new_state = self.project()
    ev["delta"] = self.delta(new_state)
    self.state = new_state
    new_schema = self.project_schema()
    if new_schema != self.schema or ev["k"] in ("F", "Q"):
      ev["schema"] = new_schema
      self.schema = new_schema
    # facts for the evidence counters (never used as a verdict)
    try:
      dm = self.eng.docmodel
      ev["n_summary"] = sum(1 for t in dm.tables.all if t.summarySourceTable)
      ev["n_twoway"] = sum(1 for c in dm.columns.all if c.reverseCol)
    except Exception:    # pylint: disable=broad-except
      ev["n_summary"] = ev["n_twoway"] = 0
    self.events.append(ev)
    if self.keep_states:
      self.states.append(self.state)
      self.peers.append(None)
      self.colfacts.append(adapter.schema_record(self.eng))
    return ev

  def bundle(self, uas, tag="ua", of=0, clause="", user=None, note=None):
    """Apply one bundle; returns (event, reply or None, exception or None)."""
    ev = {"k": "B", "tag": tag, "of": of, "clause": clause, "stored": [], "direct": [], "undo": [],
          "ret": "", "uas": note if note is not None else [u[0] for u in uas],
          # judgement-free fact about the request: every user action is a removal by name
          "onlyrm": bool(uas) and all(isinstance(u[0], str) and u[0] in REMOVALS for u in uas),
          "req": requested_edits(uas) if tag == "ua" else {}}
    self.full.append(uas)
    try:
      reply = adapter.apply(self.eng, uas, user)
    except Exception as e:    # pylint: disable=broad-except
      ev["k"] = "F"
      ev["exc"] = type(e).__name__
      ev["schema_ok"] = adapter.schema_consistent(self.eng)
      self._finish(ev)
      self.raw.append({"exc": e})
      return ev, None, e
    ev["stored"] = [encode_action(a, self.tt) for a in reply["stored"]]
    ev["ret"] = self.tt.tok(reply["retValues"])
    ev["direct"] = [bool(d) for d in reply["direct"]]
    ev["undo"] = [encode_action(a, self.tt) for a in reply["undo"]]
    self._finish(ev)
    self.raw.append(reply)
    return ev, reply, None

  def readonly_event(self, call, args):
    """
    C29: a read-only public call.  The event records only what the call did to the document (which
    must be nothing); the reply itself is not part of the property.
    """
    import formula_prompt    # pylint: disable=import-outside-toplevel
    ev = {"k": "Q", "tag": "readonly", "of": 0, "clause": "C29.unchanged", "stored": [], "direct": [],
          "undo": [], "ret": "", "uas": ["%s %s" % (call, " ".join(str(a) for a in args))], "onlyrm": False, "req": {},
          "exc": ""}
    eng = self.eng
    try:
      if call == "fetch_table":
        eng.fetch_table(*args)
      elif call == "fetch_table_query":
        eng.fetch_table(args[0], query=args[1])
      elif call == "fetch_meta_tables":
        eng.fetch_meta_tables()
      elif call == "get_formula_error":
        eng.get_formula_error(*args)
      elif call == "evaluate_formula":
        formula_prompt.evaluate_formula(eng, *args)
      elif call == "get_formula_prompt":
        formula_prompt.get_formula_prompt(eng, *args)
      elif call == "autocomplete":
        eng.autocomplete(*args)
      elif call == "find_col_from_values":
        eng.find_col_from_values(*args)
      else:
        raise adapter.MachineryError("unknown read-only call " + call)
    except adapter.MachineryError:
      raise
    except Exception as e:    # pylint: disable=broad-except
      ev["exc"] = type(e).__name__      # a read-only call may fail; it still may not change anything
    self.full.append([call] + list(args))
    self._finish(ev)
    self.raw.append({"readonly": call})
    return ev

  def peer_event(self, tag, clause, qclause="", peer_state=None, stored=(), only_formula=False,
                 note=None):
    """
    An event that compares a sibling engine with this one and does not advance the document:
    Reopen (C07), Rebuild (C05), a peer process (C30).  `delta` = the peer's tables that differ.
    """
    ev = {"k": "P", "tag": tag, "of": 0, "clause": clause, "qclause": qclause, "onlyrm": False, "req": {},
          "stored": [encode_action(a, self.tt) for a in stored], "direct": [], "undo": [],
          "ret": "", "uas": note or [tag]}
    tables = {t: v for t, v in peer_state.items() if self.state.get(t) != v}
    removed = [t for t in self.state if t not in peer_state]
    ev["delta"] = {"tables": tables, "removed": removed}
    self.events.append(ev)
    self.raw.append({"peer": tag})
    self.full.append(None)
    if self.keep_states:
      self.states.append(self.state)
      self.peers.append(peer_state)
      self.colfacts.append(adapter.schema_record(self.eng))
    return ev

  def reopen_event(self):
    eng2, reply = adapter.reopen(self.eng)
    return self.peer_event("reopen", "C07.same", "C07.quiet", self.project(eng2), reply["stored"])

  def rebuild_event(self):
    eng2 = adapter.rebuild(self.eng)
    return self.peer_event("rebuild", "C05.same", "", self.project(eng2))

  def trace(self):
    return {"tid": self.tid, "init": self.init_state, "schema": self.init_schema, "events": self.events}
