"""
Worker of C39: builds the designed document in a real engine, applies the real user action
['RenameChoices', table, 'C', map] and records the document before and after it (and after undoing
it) as judgement-free tokens for spec/Trace_RenameChoices.tla.
argv[1] = JSON {"inp": <inputs file>, "out": <cases file>}.

The document (one per engine, refilled for every case through doc-action level ReplaceTableData, so
that the code under test does not prepare its own input):
  table TC   columns C, O of type Choice          sections: TC's three (view, raw, record card)
  table TL   columns C, O of type ChoiceList      sections: TL's three
  The table named by the input's `typ` is the target; its C and O get the input's cells.  The other
  table holds fixed cells with the same choice names in a column of the same id 'C'.
  _grist_Filters: the input's filters of the target C (section = the target table's n-th section),
  then a filter of the target's O, then a filter of the other table's C, both naming a, b, c.

An input is {"typ", "cells": [cell], "map": [{"o", "n"}], "flt": [{"sec", "raw", "ents"}]}
  atom  {"k", "s"}       k = "s" text | "n" number (s = repr) | "z" None | "b" bool | "x" other
  cell  {"k", "s", "l"}  k as for atoms or "l" list (l = atoms)
  ent   {"key", "isl", "vals"}  one member of the filter's JSON object (isl: its value is a list)
A case is {"inp" (the input as JSON TEXT, so that TLC does not parse what it does not read), "typ", "map", "cref", "b", "a", "exc", "d0", "un": {"exc", "d"}} - see
spec/RenameChoices.tla for the state records b / a.  Filter texts are decoded with json.loads.
Nothing is judged here.
"""
import json
import sys
import zlib

import adapter

ENGINE_REUSE = 300
TABLE_OF = {"Choice": "TC", "ChoiceList": "TL"}
OTHER_CELLS = {"TC": ["a", "b", "c", None], "TL": [["L", "a", "b"], ["L", "c"], None, ["L", "b", "a", "c"]]}


def digest(obj):
  blob = json.dumps(obj, sort_keys=True, default=repr)
  return zlib.crc32(blob.encode("utf8")) & 0x3fffffff


def doc_apply(eng, doc_action_reprs):
  eng.apply_user_actions([adapter.useractions.from_repr(["ApplyDocActions", doc_action_reprs])])


# ---------------------------------------------------------------------------------------------
# transcription: encoded value <-> tokens (type-exact, no interpretation)
def atom_of(v):
  if v is None:
    return {"k": "z", "s": ""}
  if isinstance(v, bool):
    return {"k": "b", "s": "1" if v else "0"}
  if isinstance(v, (int, float)):
    return {"k": "n", "s": repr(v)}
  if type(v) is str:    # pylint: disable=unidiomatic-typecheck
    return {"k": "s", "s": v.encode("unicode_escape").decode("ascii") if not v.isascii() else v}
  return {"k": "x", "s": json.dumps(v, sort_keys=True, default=repr)}


def cell_of(v):
  """Token of an ENCODED cell value (what fetch_table + encode_objects report)."""
  if isinstance(v, list) and v and v[0] == "L":
    return {"k": "l", "s": "", "l": [atom_of(x) for x in v[1:]]}
  a = atom_of(v)
  return {"k": a["k"], "s": a["s"], "l": []}


def value_of_atom(a):
  k = a["k"]
  if k == "s":
    return a["s"]
  if k == "z":
    return None
  if k == "b":
    return a["s"] == "1"
  if k == "n":
    return json.loads(a["s"])
  raise ValueError("cannot build a value of kind %r" % k)


def value_of_cell(c):
  """The encoded value a doc action carries for this cell token."""
  if c["k"] == "l":
    return ["L"] + [value_of_atom(a) for a in c["l"]]
  return value_of_atom(c)


def filter_text(f):
  if f["raw"] == "empty":
    return ""
  obj = {}
  for e in f["ents"]:
    vals = [value_of_atom(a) for a in e["vals"]]
    obj[e["key"]] = vals if e["isl"] else vals[0]
  return json.dumps(obj)


def filter_tokens(text):
  """(raw, ents) of a stored filter text."""
  if text == "":
    return "empty", []
  try:
    obj = json.loads(text)
  except Exception:   # pylint: disable=broad-except
    return "other", []
  if type(obj) is not dict:   # pylint: disable=unidiomatic-typecheck
    return "other", []
  ents = []
  for key, val in obj.items():
    if isinstance(val, list):
      ents.append({"key": key, "isl": True, "vals": [atom_of(x) for x in val]})
    else:
      ents.append({"key": key, "isl": False, "vals": [atom_of(val)]})
  return "json", ents


# ---------------------------------------------------------------------------------------------
class Runner(object):
  def __init__(self):
    self.eng = None
    self.used = 0
    self.meta = None

  def engine(self):
    if self.eng is None or self.used >= ENGINE_REUSE:
      eng = adapter.new_engine()
      adapter.apply(eng, [["InitNewDoc"]])
      for typ, tab in sorted(TABLE_OF.items()):
        adapter.apply(eng, [["AddTable", tab, [{"id": "C", "type": typ, "isFormula": False},
                                               {"id": "O", "type": typ, "isFormula": False}]]])
      snap = adapter.fetch_all(eng)
      trows, tcols = snap["_grist_Tables"]
      tref = dict(zip(tcols["tableId"], trows))
      crows, ccols = snap["_grist_Tables_column"]
      cref = {}
      for r, p, c in zip(crows, ccols["parentId"], ccols["colId"]):
        cref[(p, c)] = r
      srows, scols = snap["_grist_Views_section"]
      self.meta = {}
      for tab in TABLE_OF.values():
        secs = [r for r, t in zip(srows, scols["tableRef"]) if t == tref[tab]]
        if len(secs) != 3:
          raise adapter.MachineryError("expected 3 sections of %s, found %r" % (tab, secs))
        self.meta[tab] = {"C": cref[(tref[tab], "C")], "O": cref[(tref[tab], "O")], "secs": secs}
      self.eng = eng
      self.used = 0
    self.used += 1
    return self.eng

  def run(self, inp):
    eng = self.engine()
    try:
      case, raised = self._case(eng, inp)
    except Exception:
      self.eng = None
      raise
    if raised:
      self.eng = None          # do not build on an engine that has just thrown
    return case

  def _fill(self, eng, inp):
    tab = TABLE_OF[inp["typ"]]
    other = "TL" if tab == "TC" else "TC"
    vals = [value_of_cell(c) for c in inp["cells"]]
    n = len(vals)
    ovals = OTHER_CELLS[other]
    das = [["ReplaceTableData", tab, list(range(1, n + 1)),
            {"C": vals, "O": [json.loads(json.dumps(v)) for v in vals],
             "manualSort": [float(r) for r in range(1, n + 1)]}],
           ["ReplaceTableData", other, list(range(1, len(ovals) + 1)),
            {"C": json.loads(json.dumps(ovals)), "O": json.loads(json.dumps(ovals)),
             "manualSort": [float(r) for r in range(1, len(ovals) + 1)]}]]
    mt, mo = self.meta[tab], self.meta[other]
    recs = [(mt["secs"][f["sec"] - 1], mt["C"], filter_text(f), bool(k % 2)) for k, f in enumerate(inp["flt"])]
    recs.append((mt["secs"][0], mt["O"], json.dumps({"included": ["a", "b", "c"]}), True))
    recs.append((mo["secs"][0], mo["C"], json.dumps({"excluded": ["b", "a"]}), False))
    das.append(["ReplaceTableData", "_grist_Filters", list(range(1, len(recs) + 1)),
                {"viewSectionRef": [r[0] for r in recs], "colRef": [r[1] for r in recs],
                 "filter": [r[2] for r in recs], "pinned": [r[3] for r in recs]}])
    doc_apply(eng, das)
    return tab

  @staticmethod
  def _state(snap, tab):
    rows, cols = snap[tab]
    frows, fcols = snap["_grist_Filters"]
    filters = []
    for k, rid in enumerate(frows):
      text = fcols["filter"][k]
      if type(text) is str:    # pylint: disable=unidiomatic-typecheck
        raw, ents = filter_tokens(text)
      else:
        raw, ents = "other", []
      rest = {c: v[k] for c, v in fcols.items() if c not in ("colRef", "viewSectionRef", "filter")}
      col, sec = fcols["colRef"][k], fcols["viewSectionRef"][k]
      filters.append({"id": int(rid),
                      "col": col if type(col) is int else -1 - digest(col),    # pylint: disable=unidiomatic-typecheck
                      "sec": sec if type(sec) is int else -1 - digest(sec),    # pylint: disable=unidiomatic-typecheck
                      "pin": digest(rest), "raw": raw, "d": digest(text), "ents": ents})
    # everything else in the document, as three digests: the target's other columns, the other user
    # tables, the metadata tables
    tabs = [{"t": tab + ".rest", "d": digest({c: v for c, v in cols.items() if c not in ("C", "O")})},
            {"t": "user tables", "d": digest({t: snap[t] for t in snap if t != tab and not t.startswith("_grist_")})},
            {"t": "metadata", "d": digest({t: snap[t] for t in snap
                                            if t.startswith("_grist_") and t != "_grist_Filters"})}]
    return {"rows": [int(r) for r in rows], "c": [cell_of(v) for v in cols.get("C", [])],
            "o": [cell_of(v) for v in cols.get("O", [])], "filters": filters, "tabs": tabs}

  def _case(self, eng, inp):
    tab = self._fill(eng, inp)
    renames = {}
    for p in inp["map"]:
      renames[p["o"]] = p["n"]
    if len(renames) != len(inp["map"]):
      raise adapter.MachineryError("rename map with a repeated key: %r" % (inp["map"],))
    snap0 = adapter.fetch_all(eng)
    before = self._state(snap0, tab)
    d0 = digest(snap0)
    exc, reply = "", None
    try:
      reply = adapter.apply(eng, [["RenameChoices", tab, "C", renames]])
    except Exception as e:   # pylint: disable=broad-except
      exc = type(e).__name__
    snap1 = adapter.fetch_all(eng)
    after = self._state(snap1, tab)
    un = {"exc": "", "d": d0}
    if reply is not None:
      try:
        adapter.apply(eng, [["ApplyUndoActions", reply["undo"]]])
      except Exception as e:   # pylint: disable=broad-except
        un["exc"] = type(e).__name__
      un["d"] = digest(adapter.fetch_all(eng))
    case = {"inp": json.dumps(inp, sort_keys=True), "typ": inp["typ"], "map": inp["map"], "cref": self.meta[tab]["C"],
            "b": before, "a": after, "exc": exc, "d0": d0, "un": un}
    return case, bool(exc or un["exc"])


def bookkeeping(stats, case):
  """Coverage facts (no judgement): which paths of the input space were visited."""
  inp, b, a = json.loads(case["inp"]), case["b"], case["a"]
  s = stats["rnd" if inp.get("rnd") else "enum"]
  s["cases"] += 1
  if case["exc"]:
    s["raised"] += 1
    return
  if b["c"] != inp["cells"]:
    s["stored_differs_from_requested"] += 1
  if b["c"] != a["c"]:
    s["cells_changed"] += 1
  mine = lambda st: [f["ents"] for f in st["filters"] if f["col"] == case["cref"]]
  if mine(b) != mine(a):
    s["filters_changed"] += 1
  if b == a:
    s["nothing_changed"] += 1
  if any(c["k"] == "l" and len({x["s"] for x in c["l"]}) < len(c["l"]) for c in a["c"]):
    s["list_with_duplicates_after"] += 1


def main():
  args = json.loads(sys.argv[1])
  inputs = json.load(open(args["inp"]))
  runner = Runner()
  keys = ("cases", "raised", "stored_differs_from_requested", "cells_changed", "filters_changed",
          "nothing_changed", "list_with_duplicates_after")
  stats = {"enum": dict.fromkeys(keys, 0), "rnd": dict.fromkeys(keys, 0)}
  cases = []
  for inp in inputs:
    case = runner.run(inp)
    bookkeeping(stats, case)
    cases.append(case)
  json.dump(cases, open(args["out"], "w"))
  json.dump(stats, open(args["out"] + ".stats.json", "w"))


main()
