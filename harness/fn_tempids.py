"""
Worker for C26: apply bundles of record actions with temporary (negative) row ids to the real engine
of /repo/sandbox/grist and write judgement-free cases for spec/Trace_TempIds.tla.
argv[1] = JSON {"inp": <inputs file>, "out": <cases file>, "take": [start, step] (optional),
                "fresh": <bool, optional: a new engine for every bundle>}.

The inputs file is either a list of inputs, or (what MC_TempIds writes, kept compact)
  {"doc": <document>, "alphabet": [<action>, ...], "bundles": [[<1-based index into alphabet>, ...], ...]}
  -> the inputs are doc + the actions named by each bundle.
Only inputs[start::step] are run when "take" is given.

An input is {"doc": {"A": [{"id", "s", "r", "rl"}, ...], "B": [...]}, "acts": [<action>, ...]} with
  action = {"k": "Add"|"BulkAdd"|"Upd"|"BulkUpd"|"Rem"|"BulkRem", "t": "A"|"B", "ids": [int],
            "s": [int], "col": ""|"s"|"r"|"rl", "vals": [[int, ...], ...]}          (see TempIds.tla)
The real document has tables A(v: Int, r: Ref:B, rl: RefList:B) and B(w: Int, back: Ref:A): column "s"
is A.v / B.w, column "r" is A.r / B.back, "rl" is A.rl.  In adds the id 0 stands for None.

A case is {"inp": input, "out": observation, "exc": ""} with the observation
  exc     "" or the class name of the exception apply_user_actions raised for the bundle
  rets    per action {"k": "ids" | "none" | "other", "ids": [...]}: its retValue ([] if the bundle raised)
  after   the rows and cells of A and B afterwards, in the shape of "doc" (a cell that is not of the
          expected kind is recorded as -999 / [-999])
  dig0 / dig1   30-bit digests of the whole document (every table, metadata included) before / after

Nothing is judged here.  The tables are emptied and re-filled at doc-action level before every bundle
(docactions BulkRemoveRecord of every row, then BulkAddRecord), so that the code under test does not
prepare its own input; the worker insists that this produced the rows of the input and that
the rest of the document is what it was after the first set-up (else MachineryError).
"""
import json
import sys
import zlib

import adapter

ENGINE_REUSE = 300          # bundles per engine
COLS = {"A": {"s": "v", "r": "r", "rl": "rl"}, "B": {"s": "w", "r": "back"}}
KIND = {"Add": "AddRecord", "BulkAdd": "BulkAddRecord", "Upd": "UpdateRecord",
        "BulkUpd": "BulkUpdateRecord", "Rem": "RemoveRecord", "BulkRem": "BulkRemoveRecord"}
ODD = -999


def digest(snap):
  blob = json.dumps(snap, sort_keys=True, default=repr)
  return zlib.crc32(blob.encode("utf8")) & 0x3fffffff


def doc_apply(eng, doc_action_reprs):
  eng.apply_user_actions([adapter.useractions.from_repr(["ApplyDocActions", doc_action_reprs])])


def as_int(v):
  return v if isinstance(v, int) and not isinstance(v, bool) else ODD


def as_list(v):
  if v is None:
    return []
  if isinstance(v, list) and v and v[0] == "L" and \
     all(isinstance(x, int) and not isinstance(x, bool) for x in v[1:]):
    return [int(x) for x in v[1:]]
  return [ODD]


def ref_list(vals):
  return ["L"] + [int(x) for x in vals]


def cell_value(col, val):
  """The value a user action carries for one record."""
  return ref_list(val) if col == "rl" else int(val[0])


def user_action(a):
  t, k, ids, col = a["t"], a["k"], a["ids"], a["col"]
  bulk = k.startswith("Bulk")
  values = {}
  if k in ("Add", "BulkAdd"):
    values[COLS[t]["s"]] = [int(x) for x in a["s"]]
    ids = [None if i == 0 else int(i) for i in ids]
  else:
    ids = [int(i) for i in ids]
  if col:
    values[COLS[t][col]] = [cell_value(col, v) for v in a["vals"]]
  if k in ("Rem", "BulkRem"):
    return [KIND[k], t, ids if bulk else ids[0]]
  if bulk:
    return [KIND[k], t, ids, values]
  return [KIND[k], t, ids[0], {c: v[0] for c, v in values.items()}]


def as_ret(val):
  if val is None:
    return {"k": "none", "ids": []}
  if isinstance(val, int) and not isinstance(val, bool):
    return {"k": "ids", "ids": [val]}
  if isinstance(val, list) and all(isinstance(x, int) and not isinstance(x, bool) for x in val):
    return {"k": "ids", "ids": [int(x) for x in val]}
  return {"k": "other", "ids": []}


def project(snap):
  """Rows and cells of A and B in the shape of the input document."""
  out = {}
  for t in ("A", "B"):
    row_ids, cols = snap[t]
    rows = []
    for n, rid in enumerate(row_ids):
      rows.append({"id": int(rid), "s": as_int(cols[COLS[t]["s"]][n]), "r": as_int(cols[COLS[t]["r"]][n]),
                   "rl": as_list(cols["rl"][n]) if t == "A" else []})
    out[t] = rows
  return out


class Runner(object):
  def __init__(self, fresh=False):
    self.fresh = fresh
    self.eng = None
    self.used = 0
    self.rest = None

  def engine(self):
    if self.eng is None or self.fresh or self.used >= ENGINE_REUSE:
      eng = adapter.new_engine()
      adapter.apply(eng, [["InitNewDoc"]])
      adapter.apply(eng, [["AddTable", "A", [{"id": "v", "type": "Int", "isFormula": False}]],
                          ["AddTable", "B", [{"id": "w", "type": "Int", "isFormula": False}]]])
      adapter.apply(eng, [["AddColumn", "A", "r", {"type": "Ref:B", "isFormula": False}],
                          ["AddColumn", "A", "rl", {"type": "RefList:B", "isFormula": False}],
                          ["AddColumn", "B", "back", {"type": "Ref:A", "isFormula": False}]])
      self.eng, self.used, self.rest = eng, 0, None
    self.used += 1
    return self.eng

  def run(self, inp):
    eng = self.engine()
    try:
      return self._bundle(eng, inp)
    except Exception:      # the engine itself is in doubt: do not reuse it
      self.eng = None
      raise

  def _setup(self, eng, doc):
    # remove every row, then add the rows of the input, at doc-action level (not ReplaceTableData:
    # Engine.load_table clears the columns but keeps the reference relations of the old cells)
    acts = []
    for t in ("A", "B"):
      old = [int(r) for r in eng.fetch_table(t, formulas=False).row_ids]
      if old:
        acts.append(["BulkRemoveRecord", t, old])
    for t in ("B", "A"):
      rows = doc[t]
      if not rows:
        continue
      cols = {COLS[t]["s"]: [r["s"] for r in rows], COLS[t]["r"]: [r["r"] for r in rows],
              "manualSort": [float(r["id"]) for r in rows]}
      if t == "A":
        cols["rl"] = [ref_list(r["rl"]) if r["rl"] else None for r in rows]
      acts.append(["BulkAddRecord", t, [r["id"] for r in rows], cols])
    if acts:
      doc_apply(eng, acts)

  def _bundle(self, eng, inp):
    self._setup(eng, inp["doc"])
    snap0 = adapter.fetch_all(eng)
    if project(snap0) != inp["doc"]:
      raise adapter.MachineryError("set-up failed: wanted %r, document has %r" % (inp["doc"], project(snap0)))
    rest = digest({t: v for t, v in snap0.items() if t not in ("A", "B")})
    if self.rest is None:
      self.rest = rest
    elif rest != self.rest:
      raise adapter.MachineryError("an earlier bundle left a trace outside tables A and B")
    o = {"exc": "", "rets": []}
    try:
      reply = adapter.apply(eng, [user_action(a) for a in inp["acts"]])
      o["rets"] = [as_ret(v) for v in reply["retValues"]]
    except Exception as e:   # pylint: disable=broad-except
      o["exc"] = type(e).__name__
    snap1 = adapter.fetch_all(eng)
    o["after"] = project(snap1)
    o["dig0"], o["dig1"] = digest(snap0), digest(snap1)
    return o


def norm_action(a):
  return {"k": a["k"], "t": a["t"], "ids": [int(x) for x in a["ids"]], "s": [int(x) for x in a["s"]],
          "col": a["col"], "vals": [[int(x) for x in v] for v in a["vals"]]}


def norm_doc(doc):
  return {t: [{"id": int(r["id"]), "s": int(r["s"]), "r": int(r["r"]), "rl": [int(x) for x in r["rl"]]}
              for r in doc[t]] for t in ("A", "B")}


def load_inputs(path, take=(0, 1)):
  data = json.load(open(path))
  start, step = take
  if isinstance(data, dict):
    doc = norm_doc(data["doc"])
    alphabet = [norm_action(a) for a in data["alphabet"]]
    return [{"doc": doc, "acts": [alphabet[i - 1] for i in b]} for b in data["bundles"][start::step]]
  return [{"doc": norm_doc(x["doc"]), "acts": [norm_action(a) for a in x["acts"]]} for x in data[start::step]]


def main():
  args = json.loads(sys.argv[1])
  runner = Runner(fresh=bool(args.get("fresh")))
  cases = []
  for inp in load_inputs(args["inp"], args.get("take", (0, 1))):
    cases.append({"inp": inp, "out": runner.run(inp), "exc": ""})
  json.dump(cases, open(args["out"], "w"))


if __name__ == "__main__":
  main()
