"""
Worker for C16: build a document from an abstract description, apply ONE rename step to the real
engine of /repo/sandbox/grist, undo it, and write judgement-free cases for spec/Trace_Rename.tla.
argv[1] = JSON {"inp": <inputs file>, "out": <cases file>}.

An input is  {"sch": <document>, "target": <identity>, "path": <rename path>, "req": <requested name>}
(see spec/Rename.tla).  The document refers to tables and columns by IDENTITY; formula columns carry
a formula TREE, which `render` below turns into text under the initial names - the same rendering as
Rename!Toks (Trace_Rename checks that: SPEC.render).

Rename paths:
  RenameColumn   ["RenameColumn", table, col, req]
  colId          ["UpdateRecord", "_grist_Tables_column", colRef, {"colId": req}]
  label          ["UpdateRecord", "_grist_Tables_column", colRef, {"label": req}]
  label_untied   set-up: untieColIdFromLabel := true;  step: {"label": req}
  retie          set-up: {"untieColIdFromLabel": true, "label": req};  step: {"untieColIdFromLabel": false}
  RenameTable    ["RenameTable", table, req]
  tableId        ["UpdateRecord", "_grist_Tables", tableRef, {"tableId": req}]
  title          ["UpdateRecord", "_grist_Views_section", <raw section of the table>, {"title": req}]

The cases file is {"docs": [every distinct document once], "cases": [{"inp": {"doc": <1-based index>,
"target", "path", "req"}, "out": observation}]}.  Identities are bound to metadata ROW IDS when the
document has been built (a table / column keeps its metadata row through a rename); the observation
is keyed by identity:
  fail       "" or "<Class>: message" if the document could not be built or read back
  exc        "" or the class name of the exception the step raised
  names0/1/2 identity -> current tableId / colId   (0: before the step, 1: after, 2: after the undo)
             columns the document was not asked to have (manualSort, ...) are "<table identity>.<colId>",
             rows that appear later are "new:<row id>"
  texts0/1/2 column identity -> _grist_Tables_column.formula
  vals0/1/2  column identity -> the cells of the column (fetch_table by its current names), as tokens
  vals1r     the same for a FRESH engine that loads the metadata and data columns of the document after
             the step and calculates every formula from scratch (adapter.rebuild); vals0 comes from a
             freshly calculated engine as well ({"?": [<exception class>]} if that engine cannot be made)
  dig0, dig1 digests of the whole document (every table, metadata included)
  cons1      Engine.assert_schema_consistent() holds after the step
  undo_exc   "" or the class name of the exception ApplyUndoActions raised
  ret        what the step's user action returned, as text (not judged)
Nothing is judged here.
"""
import json
import sys
import zlib

import adapter
import tokens


# ---------------------------------------------------------------------------------------------
# the renderer (mirror of Rename!Toks; names = {identity: name})
# ---------------------------------------------------------------------------------------------
def _attrs(names, chain):
  return "".join("." + names[c] for c in chain)


def _ob(names, ob):
  if ob[0] == "s":
    return ob[1] + ob[2] + names[ob[3]] + ob[1]
  parts = [_ob(names, x) for x in ob[1]]
  return "(" + ", ".join(parts) + (",)" if len(parts) == 1 else ")")


def _close(open_):
  return {"[": "]", "{": "}"}.get(open_, ")")


def render(names, e):
  k = e[0]
  if k == "col":
    return "$" + names[e[1]]
  if k == "rec":
    return "rec." + names[e[1]]
  if k == "chain":
    return "$" + names[e[1][0]] + _attrs(names, e[1][1:])
  if k == "recchain":
    return "rec." + names[e[1][0]] + _attrs(names, e[1][1:])
  if k == "var":
    return e[1] + _attrs(names, e[2])
  if k == "lit":
    return e[1]
  if k == "str":
    return e[2] + e[1] + e[2]
  if k == "fstr":
    return "f'{" + render(names, e[1]) + "}'"
  if k == "list":
    return "[" + ", ".join(render(names, x) for x in e[1]) + "]"
  if k == "call":
    return e[1] + "(" + render(names, e[2]) + ")"
  if k == "lookup":
    eq = e[6] + "=" + e[6]
    args = [names[kw[0]] + eq + render(names, kw[1]) for kw in e[3]]
    if e[4]:
      args.append("order_by" + eq + _ob(names, e[4]))
    return names[e[2]] + "." + e[1] + "(" + ", ".join(args) + ")" + _attrs(names, e[5])
  if k == "all":
    return names[e[1]] + ".all" + _attrs(names, e[2])
  if k == "comp":
    return e[1] + render(names, e[3]) + " for " + e[2] + " in " + render(names, e[4]) + _close(e[1])
  if k == "pn":
    return (e[1] + "(rec" + ((", group_by=" + _ob(names, e[2])) if e[2] else "") +
            ((", order_by=" + _ob(names, e[3])) if e[3] else "") + ")" + _attrs(names, e[4]))
  if k == "let":
    return e[1] + " = " + render(names, e[2]) + "\nreturn " + render(names, e[3])
  return "<?>"


def formula_text(names, col):
  if col["body"][0] == "none":
    return ""
  return render(names, col["body"]) + (("  # " + col["cmt"]) if col["cmt"] else "")


def names0(sch):
  names = {t["id"]: t["name"] for t in sch["tables"]}
  names.update({cid: c["name"] for cid, c in sch["cols"].items()})
  return names


# ---------------------------------------------------------------------------------------------
# the document
# ---------------------------------------------------------------------------------------------
def build(sch):
  """A fresh engine holding the document; returns (engine, identity maps)."""
  eng = adapter.new_engine()
  adapter.apply(eng, [["InitNewDoc"]])
  names = names0(sch)
  cols = sorted(sch["cols"].items(), key=lambda kv: kv[1]["ord"])
  for t in sch["tables"]:
    mine = [{"id": c["name"], "type": "Int", "isFormula": False}
            for _cid, c in cols if c["tab"] == t["id"] and c["type"] == "Int"]
    adapter.apply(eng, [["AddTable", t["name"], mine]])
  for _cid, c in cols:
    if c["type"] == "Ref":
      adapter.apply(eng, [["AddColumn", names[c["tab"]], c["name"],
                           {"type": "Ref:" + names[c["to"]], "isFormula": False}]])
  for t in sch["tables"]:
    data = {c["name"]: list(c["data"]) for _cid, c in cols if c["tab"] == t["id"] and c["type"] != "Any"}
    adapter.apply(eng, [["BulkAddRecord", names[t["id"]], list(range(1, t["nrows"] + 1)), data]])
  for _cid, c in cols:
    if c["type"] == "Any":
      adapter.apply(eng, [["AddColumn", names[c["tab"]], c["name"],
                           {"type": "Any", "isFormula": True, "formula": formula_text(names, c)}]])
  # bind identities to metadata row ids
  tabs, colrecs = read_meta(eng)
  tab_ident, col_ident = {}, {}
  by_name = {t["name"]: t["id"] for t in sch["tables"]}
  for ref, tid in tabs.items():
    if tid in by_name:
      tab_ident[ref] = by_name[tid]
  by_pair = {(c["tab"], c["name"]): cid for cid, c in sch["cols"].items()}
  for ref, (parent, col_id, _formula) in colrecs.items():
    if parent in tab_ident:
      t = tab_ident[parent]
      col_ident[ref] = by_pair.get((t, col_id), "%s.%s" % (t, col_id))
  return eng, tab_ident, col_ident


def read_meta(eng):
  t = eng.fetch_table("_grist_Tables")
  tabs = {int(r): tid for r, tid in zip(t.row_ids, t.columns["tableId"])}
  c = eng.fetch_table("_grist_Tables_column")
  colrecs = {int(r): (int(p), cid, f) for r, p, cid, f in
             zip(c.row_ids, c.columns["parentId"], c.columns["colId"], c.columns["formula"])}
  return tabs, colrecs


def digest(snap):
  blob = json.dumps(snap, sort_keys=True, default=repr)
  return zlib.crc32(blob.encode("utf8")) & 0x3fffffff


def observe(eng, tab_ident, col_ident):
  """(names, texts, vals, digest) of the document as it is now, keyed by identity."""
  tabs, colrecs = read_meta(eng)
  names, texts, vals = {}, {}, {}
  user_tabs = {}
  for ref, tid in tabs.items():
    if ref in tab_ident:
      names[tab_ident[ref]] = tid
      user_tabs[ref] = tid
    elif not tid.startswith("_grist"):
      names["new:%d" % ref] = tid
  snap = adapter.fetch_all(eng)
  for ref, (parent, col_id, formula) in colrecs.items():
    if parent not in user_tabs:
      continue
    ident = col_ident.get(ref, "new:%d" % ref)
    names[ident] = col_id
    texts[ident] = formula
    data = snap[user_tabs[parent]][1]       # KeyError if the engine has no such table
    if col_id in data:
      vals[ident] = [tokens.token(v) for v in data[col_id]]
  return names, texts, vals, digest(snap)


def step_action(inp, eng, tab_ident, col_ident):
  """(set-up user actions, the step's user action)."""
  target, path, req = inp["target"], inp["path"], inp["req"]
  tabs, colrecs = read_meta(eng)
  if path in ("RenameTable", "tableId", "title"):
    ref = [r for r, i in tab_ident.items() if i == target][0]
    if path == "RenameTable":
      return [], ["RenameTable", tabs[ref], req]
    if path == "tableId":
      return [], ["UpdateRecord", "_grist_Tables", ref, {"tableId": req}]
    t = eng.fetch_table("_grist_Tables")
    raw = [int(s) for r, s in zip(t.row_ids, t.columns["rawViewSectionRef"]) if int(r) == ref][0]
    return [], ["UpdateRecord", "_grist_Views_section", raw, {"title": req}]
  ref = [r for r, i in col_ident.items() if i == target][0]
  parent, col_id, _f = colrecs[ref]
  if path == "RenameColumn":
    return [], ["RenameColumn", tabs[parent], col_id, req]
  if path == "colId":
    return [], ["UpdateRecord", "_grist_Tables_column", ref, {"colId": req}]
  if path == "label":
    return [], ["UpdateRecord", "_grist_Tables_column", ref, {"label": req}]
  if path == "label_untied":
    return ([["UpdateRecord", "_grist_Tables_column", ref, {"untieColIdFromLabel": True}]],
            ["UpdateRecord", "_grist_Tables_column", ref, {"label": req}])
  if path == "retie":
    return ([["UpdateRecord", "_grist_Tables_column", ref, {"untieColIdFromLabel": True, "label": req}]],
            ["UpdateRecord", "_grist_Tables_column", ref, {"untieColIdFromLabel": False}])
  raise adapter.MachineryError("unknown rename path %r" % (path,))


_BUILT = {}


def fresh_document(sch):
  """A fresh engine holding the document.  The document is built by user actions once per process;
  every case then gets its own engine that LOADS what the built one reports (metadata and tables
  through load_meta_tables / load_table, then Calculate - the way a stored document is opened)."""
  key = json.dumps(sch, sort_keys=True)
  if key not in _BUILT:
    if len(_BUILT) > 8:
      _BUILT.clear()
    _BUILT[key] = build(sch)
  base, tab_ident, col_ident = _BUILT[key]
  eng, _reply = adapter.reopen(base)
  return eng, tab_ident, col_ident


def run_case(inp):
  o = {"fail": "", "exc": "", "undo_exc": "", "ret": "", "cons1": True, "dig0": 0, "dig1": 0}
  for k in ("names", "texts", "vals"):
    for n in "012":
      o[k + n] = {}
  o["vals1r"] = {}
  try:
    eng, tab_ident, col_ident = fresh_document(inp["sch"])
    setup, action = step_action(inp, eng, tab_ident, col_ident)
    for ua in setup:
      adapter.apply(eng, [ua])
    o["names0"], o["texts0"], o["vals0"], o["dig0"] = observe(eng, tab_ident, col_ident)
  except Exception as e:   # pylint: disable=broad-except
    o["fail"] = "setup %s: %s" % (type(e).__name__, str(e)[:200])
    return o
  reply = None
  try:
    reply = adapter.apply(eng, [action])
    o["ret"] = json.dumps(reply["retValues"])[:100]
  except Exception as e:   # pylint: disable=broad-except
    o["exc"] = type(e).__name__
  try:
    o["names1"], o["texts1"], o["vals1"], o["dig1"] = observe(eng, tab_ident, col_ident)
    o["cons1"] = bool(adapter.schema_consistent(eng))
  except Exception as e:   # pylint: disable=broad-except
    o["fail"] = "after %s: %s" % (type(e).__name__, str(e)[:200])
    return o
  if reply is None:
    o["names2"], o["texts2"], o["vals2"], o["vals1r"] = o["names1"], o["texts1"], o["vals1"], o["vals1"]
    return o
  try:
    _n, _t, o["vals1r"], _d = observe(adapter.rebuild(eng), tab_ident, col_ident)
  except Exception as e:   # pylint: disable=broad-except
    o["vals1r"] = {"?": [type(e).__name__]}
  try:
    adapter.apply(eng, [["ApplyUndoActions", reply["undo"]]])
  except Exception as e:   # pylint: disable=broad-except
    o["undo_exc"] = type(e).__name__
  try:
    o["names2"], o["texts2"], o["vals2"], _d = observe(eng, tab_ident, col_ident)
  except Exception as e:   # pylint: disable=broad-except
    o["undo_exc"] = o["undo_exc"] or ("observe:" + type(e).__name__)
    o["names2"], o["texts2"], o["vals2"] = {"?": "?"}, {"?": "?"}, {"?": ["?"]}
  return o


def main():
  args = json.loads(sys.argv[1])
  inputs = json.load(open(args["inp"]))
  # the cases file names every distinct document once: {"docs": [...], "cases": [{"inp": {"doc": k, ...}, "out"}]}
  docs, index, cases = [], {}, []
  for inp in inputs:
    key = json.dumps(inp["sch"], sort_keys=True)
    if key not in index:
      docs.append(inp["sch"])
      index[key] = len(docs)
    cases.append({"inp": {"doc": index[key], "target": inp["target"], "path": inp["path"], "req": inp["req"]},
                  "out": run_case(inp)})
  json.dump({"docs": docs, "cases": cases}, open(args["out"], "w"))


if __name__ == "__main__":
  main()
