"""
Worker for C21 (Ident.tla): runs the real identifiers.pick_table_ident / pick_col_ident /
pick_col_ident_list.  argv[1] = JSON args {"inp": <inputs file>, "out": <cases file>, "mode": ...}.

Names travel as lists of code points (TLC strings are atomic and its Json module mangles non-ASCII).

  mode "cases" (default)  inputs = [{fn, reqs:[{none, s}], avoid:[[cp]], ref?:[[cp]]}] as enumerated by
                          MC_Ident; writes cases [{inp:{fn,reqs,avoid}, out:[[cp]], exc, src, forced}]
                          and <out>.stats.json (agreement with the specification's reference solution:
                          a coverage figure, not a judgement)
  mode "hyp"              inputs = [seed, ...]; args["n"] Hypothesis examples per seed (text() requests,
                          avoid sets derived from what the real code picks next, random casing, random
                          other names); same case format
  mode "consts"           writes {"kwlist", "version", "decomp"} of THIS interpreter (keyword.kwlist is
                          what identifiers.iskeyword consults) for the generated blocks of the spec

make_case() is the reusable entry point for ids observed elsewhere (engine histories):
  make_case("col", requested_or_None, existing_names, chosen_id)
  make_case("table", ...)        make_case("list", [requests], existing_names, [chosen ids])
The resulting dicts are judged by Trace_Ident (fnspec.judge("Trace_Ident", [file], workdir)).
"""
import json
import sys

FNS = ("table", "col", "list")


def cps(s):
  return [ord(ch) for ch in s]


def uncps(a):
  return "".join(chr(c) for c in a)


def req_rec(r):
  return {"none": True, "s": []} if r is None else {"none": False, "s": cps(str(r))}


def req_val(rec):
  return None if rec["none"] else uncps(rec["s"])


def make_case(fn, request, avoid, result, exc="", src="obs", forced=False):
  """
  Build one Trace_Ident case.  fn: "table" | "col" | "list".  request: text or None (a list of those for
  "list").  avoid: iterable of existing names (text).  result: the chosen id (list of ids for "list").
  """
  if fn not in FNS:
    raise ValueError("fn must be one of %r" % (FNS,))
  reqs = list(request) if fn == "list" else [request]
  outs = [] if result is None else (list(result) if fn == "list" else [result])
  return {"inp": {"fn": fn, "reqs": [req_rec(r) for r in reqs],
                  "avoid": sorted(cps(a) for a in set(avoid))},
          "out": [cps(o) for o in outs], "exc": exc, "src": src, "forced": bool(forced)}


def call(fn, reqs, avoid):
  """Call the real function. reqs: list of text/None; avoid: set of text."""
  import identifiers
  if fn == "table":
    return identifiers.pick_table_ident(reqs[0], avoid=set(avoid))
  if fn == "col":
    return identifiers.pick_col_ident(reqs[0], avoid=set(avoid))
  return identifiers.pick_col_ident_list(list(reqs), avoid=set(avoid))


def run_one(fn, reqs, avoid, src):
  """reqs: list of text/None (one element unless fn == 'list'); avoid: set of text."""
  request = reqs if fn == "list" else reqs[0]
  try:
    out = call(fn, reqs, avoid)
  except Exception as e:   # pylint: disable=broad-except
    return make_case(fn, request, avoid, None, exc=type(e).__name__, src=src)
  forced = False
  if avoid:
    try:
      forced = call(fn, reqs, set()) != out
    except Exception:   # pylint: disable=broad-except
      pass
  return make_case(fn, request, avoid, out, src=src, forced=forced)


def mode_cases(args):
  inputs = json.load(open(args["inp"]))
  cases = []
  total = agree = 0
  diffs = []
  for inp in inputs:
    reqs = [req_val(r) for r in inp["reqs"]]
    avoid = {uncps(a) for a in inp["avoid"]}
    case = run_one(inp["fn"], reqs, avoid, "tlc")
    # keep the input exactly as TLC wrote it (order of the avoid list included)
    case["inp"] = {"fn": inp["fn"], "reqs": inp["reqs"], "avoid": inp["avoid"]}
    cases.append(case)
    if "ref" in inp:
      total += 1
      if case["exc"] == "" and case["out"] == inp["ref"]:
        agree += 1
      elif len(diffs) < 5:
        diffs.append({"inp": case["inp"], "out": case["out"], "ref": inp["ref"]})
  json.dump(cases, open(args["out"], "w"))
  json.dump({"ref_total": total, "ref_agree": agree, "ref_diffs": diffs},
            open(args["out"] + ".stats.json", "w"))


# ---------------------------------------------------------------------------------------------------
# Hypothesis inputs beyond the bound

POOL = (u"IiFfAaZz0129__  -.!(\t\n\u0000"
        u"\u0301\u0308\u00e9\u00c5"            # combining acute / diaeresis, e-acute, A-ring
        u"\uff11\uff12\uff49\uff46"            # full-width 1 2 i f
        u"\u2170\u00b2\u00bd\ufb01"            # small roman one, superscript two, one half, fi ligature
        u"\u0131\u017f\u212a\u01c5"            # dotless i, long s, Kelvin sign, Dz-caron digraph
        u"\u4e2d\u3042\U0001F600\U0001D7D9"    # CJK, hiragana, emoji, mathematical double-struck 1
        u"\u0660\u200b\u00a0")                  # Arabic-Indic zero, zero-width space, no-break space


def mode_hyp(args):
  import keyword
  from hypothesis import HealthCheck, Phase, given, seed, settings, strategies as st

  seeds = json.load(open(args["inp"]))
  n = int(args.get("n", 200))
  cases = []

  ident = st.from_regex(r"[A-Za-z][A-Za-z0-9_]{0,5}", fullmatch=True)
  kw = st.sampled_from(keyword.kwlist + ["none", "true", "false", "Table", "Table1", "A", "B", "id"])
  kw_var = st.builds(lambda pre, k, how, post: pre + how(k) + post,
                     st.sampled_from(["", "_", " ", "__", "1", u"\u0301", "-"]), kw,
                     st.sampled_from([lambda x: x, lambda x: x.lower(), lambda x: x.upper(),
                                      lambda x: x.capitalize(), lambda x: u"\u0301".join(x),
                                      lambda x: "".join(chr(ord(c) + 0xFEE0) for c in x)]),
                     st.sampled_from(["", "_", " ", "2", "_2", u"\u0301"]))
  request = st.one_of(st.none(), st.text(), st.text(max_size=6),
                      st.text(alphabet=st.sampled_from(POOL), max_size=8), kw_var, ident,
                      st.builds(lambda a, b: a + b, ident, st.sampled_from(["2", "_2", "1", "_", "2_2", " 2"])))
  casing = st.sampled_from(["asis", "upper", "lower", "swap", "drop"])
  recipe = st.tuples(st.integers(0, 6), st.lists(casing, min_size=7, max_size=7),
                     st.lists(st.one_of(ident, kw), max_size=3), st.booleans())

  def recase(name, how):
    return {"asis": name, "upper": name.upper(), "lower": name.lower(), "swap": name.swapcase()}[how]

  def build_avoid(fn, reqs, rec):
    depth, how, others, with_req = rec
    avoid = set(others)
    chain = []
    try:
      for _ in range(depth):
        nxt = call(fn, reqs, set(chain))
        nxt = nxt if fn == "list" else [nxt]
        if not nxt:
          break
        chain.extend(nxt[:max(1, 7 - len(chain))])
    except Exception:   # pylint: disable=broad-except
      pass
    for name, h in zip(chain, how):
      if h != "drop":
        avoid.add(recase(name, h))
    if with_req:
      # existing names are ids chosen earlier, hence ASCII: the property's case-insensitive comparison
      # is only unambiguous there (the fi ligature U+FB01 upper-cases to "FI")
      avoid.update(r for r in reqs if r is not None and r.isascii())
    return avoid

  common = dict(max_examples=n, database=None, deadline=None, derandomize=True,
                phases=[Phase.generate], suppress_health_check=list(HealthCheck))

  for sd in seeds:
    @seed(sd)
    @settings(**common)
    @given(st.sampled_from(["table", "col"]), request, recipe)
    def single(fn, req, rec):
      cases.append(run_one(fn, [req], build_avoid(fn, [req], rec), "hyp"))

    @seed(sd)
    @settings(**dict(common, max_examples=max(1, n // 2)))
    @given(st.lists(st.one_of(request, st.sampled_from(["", "A", "a", "B", "x", "X", "x2", "X2", "x2_2", None])),
                    max_size=6), recipe)
    def batch(reqs, rec):
      cases.append(run_one("list", reqs, build_avoid("list", reqs, rec), "hyp"))

    single()
    batch()
  json.dump(cases, open(args["out"], "w"))


def mode_consts(args):
  import keyword
  import unicodedata
  decomp = {}
  for c in args.get("chars", []):
    d = unicodedata.normalize("NFKD", chr(c))
    decomp[str(c)] = [ord(x) for x in d if not unicodedata.combining(x)]
  json.dump({"kwlist": list(keyword.kwlist), "version": "%d.%d" % sys.version_info[:2], "decomp": decomp},
            open(args["out"], "w"))


def main():
  args = json.loads(sys.argv[1])
  {"cases": mode_cases, "hyp": mode_hyp, "consts": mode_consts}[args.get("mode", "cases")](args)


if __name__ == "__main__":
  main()
