"""
Corpus orchestration: spawn engine workers (the code under test is /repo's working tree), collect
shards, run the trace specification over them.
"""
import json
import os
import subprocess
import sys
import time

import tlc

VERIF = tlc.VERIF
REPO = os.environ.get("VERIF_REPO", "/repo")
PY = "/venv/bin/python"


def engine_env(hashseed="0"):
  env = dict(os.environ)
  env["PYTHONPATH"] = ":".join([os.path.join(REPO, "sandbox/grist"), os.path.join(VERIF, "harness"),
                                os.path.join(VERIF, "shim")])
  env["PYTHONHASHSEED"] = str(hashseed)
  env["PYTHONDONTWRITEBYTECODE"] = "1"
  return env


def run_workers(script, arg_list, parallel=16, timeout=3600, hashseed="0"):
  """Run `script` once per args dict (JSON on argv[1]); raises MachineryError on failure."""
  pending = list(arg_list)
  running = []
  while pending or running:
    while pending and len(running) < parallel:
      a = pending.pop(0)
      p = subprocess.Popen([PY, "-X", "utf8", os.path.join(VERIF, "harness", script), json.dumps(a)],
                           env=engine_env(a.get("hashseed", hashseed)), stdout=subprocess.PIPE,
                           stderr=subprocess.PIPE, text=True)
      running.append((a, p, time.time()))
    still = []
    for a, p, t0 in running:
      if p.poll() is None:
        if time.time() - t0 > timeout:
          p.kill()
          raise tlc.MachineryError("worker timeout: %s %s" % (script, a))
        still.append((a, p, t0))
        continue
      out, err = p.communicate()
      if p.returncode != 0:
        raise tlc.MachineryError("worker failed: %s\n%s" % (script, err[-4000:]))
    running = still
    if running:
      time.sleep(0.02)


def build_history_corpus(profile, seeds, n_bundles, workdir, nshards=16, **kw):
  seeds = list(seeds)
  nshards = max(1, min(nshards, len(seeds)))
  args = []
  for i in range(nshards):
    sl = seeds[i::nshards]
    out = os.path.join(workdir, "shard-%s-%02d.json" % (profile, i))
    d = {"profile": profile, "seeds": sl, "n_bundles": n_bundles, "out": out}
    d.update(kw)
    args.append(d)
  t0 = time.time()
  run_workers("corpus_worker.py", args)
  return [a["out"] for a in args], time.time() - t0


def build_jobs_corpus(jobs, workdir, nshards=16, tag="mix", **kw):
  """jobs = [[profile, seed, n_bundles], ...] spread over nshards worker processes / shard files."""
  nshards = max(1, min(nshards, len(jobs)))
  args = []
  for i in range(nshards):
    d = {"jobs": jobs[i::nshards], "out": os.path.join(workdir, "shard-%s-%02d.json" % (tag, i))}
    d.update(kw)
    args.append(d)
  t0 = time.time()
  run_workers("corpus_worker.py", args)
  return [a["out"] for a in args], time.time() - t0
