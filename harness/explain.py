"""
Debug helper (not a judge): re-run one history and print what happened around an event.
  PYTHONPATH=... /venv/bin/python explain.py <profile> <seed> <n_bundles> <event l> [table]
"""
import json
import sys
import adapter
import histories


def diff_tables(a, b):
  out = []
  for t in sorted(set(a) | set(b)):
    if t not in a or t not in b:
      out.append((t, "missing in " + ("first" if t not in a else "second")))
      continue
    if a[t] == b[t]:
      continue
    ra, rb = a[t]["rows"], b[t]["rows"]
    if ra != rb:
      out.append((t, "rows", ra, rb))
    for c in sorted(set(a[t]["cols"]) | set(b[t]["cols"])):
      ca, cb = a[t]["cols"].get(c), b[t]["cols"].get(c)
      if ca != cb:
        out.append((t, c, ca, cb))
  return out


def main():
  profile, seed, n, l = sys.argv[1], int(sys.argv[2]), int(sys.argv[3]), int(sys.argv[4])
  states = []
  orig = histories.Recorder._finish
  def fin(self, ev):
    r = orig(self, ev)
    states.append(self.state)
    return r
  histories.Recorder._finish = fin
  origp = histories.Recorder.peer_event
  def pe(self, *a, **kw):
    r = origp(self, *a, **kw)
    states.append(self.state)
    return r
  histories.Recorder.peer_event = pe
  rec = histories.run_history(seed, profile=profile, n_bundles=n)
  evs = rec.events
  def show(i):
    ev = evs[i - 1]
    print("--- event", i, ev["k"], ev["tag"], "of", ev["of"], ev.get("exc", ""), ev["uas"])
  for i in range(1, len(evs) + 1):
    show(i)
  ev = evs[l - 1]
  print("=== event", l)
  raw = rec.raw[l - 1]
  if isinstance(raw, dict) and "stored" in raw:
    for a in raw["stored"]:
      print("  S", json.dumps(a)[:300])
    for a in raw["undo"]:
      print("  U", json.dumps(a)[:300])
  else:
    print("  EXC", repr(raw.get("exc")))
  if ev["tag"] == "undo":
    pre = states[ev["of"] - 2] if ev["of"] >= 2 else {}
    print("diff(pre of %d, now):" % ev["of"])
    for d in diff_tables(pre, states[l - 1]):
      print("  ", d)
    ro = rec.raw[ev["of"] - 1]
    print("original bundle", ev["of"], evs[ev["of"] - 1]["uas"])
    for a in ro["stored"]:
      print("  S", json.dumps(a)[:300])
    for a in ro["undo"]:
      print("  U", json.dumps(a)[:300])
  elif ev["tag"] == "redo":
    print("diff(post of %d, now):" % ev["of"])
    for d in diff_tables(states[ev["of"] - 1], states[l - 1]):
      print("  ", d)
    ro = rec.raw[ev["of"] - 1]
    print("original bundle", ev["of"], evs[ev["of"] - 1]["uas"])
    for a in ro["stored"]:
      print("  S", json.dumps(a)[:300])
  else:
    print("diff(prev, now):")
    for d in diff_tables(states[l - 2] if l >= 2 else {}, states[l - 1]):
      print("  ", d)


main()
