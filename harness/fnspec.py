"""
Generic S->C pipeline for function specifications (DESIGN.md section 5.7):

  (a) TLC explores the bounded design model MC_<X> (one state per input, invariant SpecSane shows
      the admissible-output relation is satisfiable) and writes the enumerated input space as JSON;
  (b) worker processes run the real function from /repo on exactly those inputs -> cases;
  (c) TLC evaluates the relation of <X>.tla on every recorded (input, output) pair through
      Trace_<X>.tla and writes the failed clauses.

Extra, non-enumerated inputs (Hypothesis / random, "C->S") can be appended to the cases by the worker.
"""
import json
import os

import corpus
import tlc


def enumerate_inputs(mc_module, cfg, workdir, timeout=1800, workers=16, xmx="8g"):
  out = os.path.join(workdir, "inputs-%s.json" % os.path.basename(cfg))
  res = tlc.run_model(mc_module, cfg, workdir, workers=workers, timeout=timeout, xmx=xmx,
                      env_extra={"OUT_FILE": out}, coverage=False)
  if res["rc"] != 0 or res["violated"]:
    raise tlc.MachineryError("design model %s/%s failed:\n%s" % (mc_module, cfg, res["out"][-3000:]))
  if not os.path.exists(out):
    raise tlc.MachineryError("design model %s wrote no input file" % mc_module)
  inputs = json.load(open(out))
  return inputs, res


def run_cases(worker_script, inputs, workdir, nshards=None, extra=None, tag="cases", per_shard=4000):
  if nshards is None:
    nshards = max(1, min(16, len(inputs) // per_shard))
  nshards = max(1, min(nshards, len(inputs)))
  args = []
  for i in range(nshards):
    inp = os.path.join(workdir, "%s-in-%02d.json" % (tag, i))
    json.dump(inputs[i::nshards], open(inp, "w"))
    d = {"inp": inp, "out": os.path.join(workdir, "%s-%02d.json" % (tag, i)), "shard": i}
    if extra:
      d.update(extra)
    args.append(d)
  corpus.run_workers(worker_script, args)
  return [a["out"] for a in args]


def judge(trace_module, case_files, workdir, parallel=16, timeout=3600, xmx="3g"):
  """Returns (failures, n_cases, wall): failures = [{case: <the case>, c: [clauses], file, i}]"""
  results, wall = tlc.validate_shards(trace_module, case_files, workdir, parallel=parallel,
                                      timeout=timeout, xmx=xmx)
  # validate_shards concatenates the per-shard lists and loses the file; redo the mapping here
  failures = []
  n = 0
  for f in case_files:
    cases = json.load(open(f))
    n += len(cases)
    vf = f + ".verdict.json"
    for b in json.load(open(vf)):
      failures.append({"case": cases[b["i"] - 1], "c": sorted(b["c"]), "file": f, "i": b["i"]})
  return failures, n, wall


def mutation_selftest(trace_module, case_file, mutate, workdir):
  """
  Demonstrate the binding: corrupt one recorded case with `mutate(case)` and require that the trace
  specification rejects it.  Returns True if rejected.
  """
  cases = json.load(open(case_file))
  if not cases:
    return False
  bad = mutate(json.loads(json.dumps(cases[0])))
  p = os.path.join(workdir, "selftest-" + os.path.basename(case_file))
  json.dump([bad], open(p, "w"))
  results, _ = tlc.validate_shards(trace_module, [p], workdir, parallel=1)
  return len(results) > 0
