"""
Worker of C33: run the real imports.import_json.parse_file on JSON documents.  argv[1] = JSON args:
  {"inp": <inputs file>, "out": <cases file>}                       inputs enumerated by TLC
  {"hyp": {"seed": int, "n": int}, "out": <cases file>}             Hypothesis documents (C->S)

An input is {"name", "t", "inc", "exc"}: t is the document as a tagged tree
  ["obj", [[key, tree], ...]]  ["arr", [tree, ...]]  ["num", int]  ["str", escaped text]
  ["bool", "true"|"false"]  ["null", ""]  ["float", repr]  ["big", decimal digits]
and inc / exc are lists of paths [name, key, ...].  The worker turns the tree into JSON text
(json.dumps), the paths into the option strings ("T_a;T_b"), runs the importer and records the
returned tables in one uniform, judgement-free shape:
  {"name": table_name.split("_"),
   "cols": [{"id": column id, "ty": {"k": type before ':', "t": (text after ':').split("_")},
             "v": [scalar in the same tagged form as the input's scalars, ...]}]}
Nothing is judged here.
"""
import json
import os
import sys
import tempfile

INT_LIMIT = 2 ** 31 - 1


def esc(s):
  """Injective ASCII rendering of text ('x' stays 'x')."""
  return s.encode("unicode_escape").decode("ascii")


def unesc(s):
  return s.encode("ascii").decode("unicode_escape")


def tag(v):
  """Tagged form of a Python scalar (type-exact)."""
  if v is None:
    return ["null", ""]
  if v is True or v is False:
    return ["bool", "true" if v else "false"]
  if isinstance(v, int):
    return ["num", v] if abs(v) <= INT_LIMIT else ["big", str(v)]
  if isinstance(v, float):
    return ["float", repr(v)]
  if isinstance(v, str):
    return ["str", esc(v)]
  return ["other", esc(repr(v))]


def untag(t):
  """Python value of a tagged tree."""
  k, p = t
  if k == "obj":
    return {key: untag(val) for key, val in p}
  if k == "arr":
    return [untag(val) for val in p]
  if k == "num":
    return int(p)
  if k == "str":
    return unesc(p)
  if k == "bool":
    return p == "true"
  if k == "null":
    return None
  if k == "float":
    return float(p)
  if k == "big":
    return int(p)
  raise ValueError(k)


def split_type(ty):
  kind, sep, rest = ty.partition(":")
  return {"k": kind, "t": rest.split("_") if sep else []}


def transcribe(tables):
  out = []
  for t in tables:
    cols = []
    for meta, data in zip(t["column_metadata"], t["table_data"]):
      cols.append({"id": meta["id"], "ty": split_type(meta["type"]), "v": [tag(v) for v in data]})
    # a table_data longer / shorter than column_metadata must not be lost by zip
    for extra in t["table_data"][len(t["column_metadata"]):]:
      cols.append({"id": "<no metadata>", "ty": split_type("?"), "v": [tag(v) for v in extra]})
    for meta in t["column_metadata"][len(t["table_data"]):]:
      cols.append({"id": meta["id"], "ty": split_type(meta["type"]), "v": [["other", "<no data>"]]})
    out.append({"name": t["table_name"].split("_"), "cols": cols})
  return out


def run_one(import_json, inp, fname):
  case = {"inp": inp, "out": [], "exc": ""}
  try:
    text = json.dumps(untag(inp["t"]))
    with open(os.path.join(os.environ["IMPORTDIR"], fname), "w") as f:
      f.write(text)
    options = {"includes": ";".join("_".join(p) for p in inp["inc"]),
               "excludes": ";".join("_".join(p) for p in inp["exc"]),
               "SCHEMA": import_json.SCHEMA}
    res = import_json.parse_file({"path": fname, "origName": inp["name"] + ".json"}, options)
    case["out"] = transcribe(res["tables"])
  except Exception as e:   # pylint: disable=broad-except
    case["exc"] = type(e).__name__
  return case


# ---------------------------------------------------------------------------------------------
KEYS = "abcdefgh"


def paths_of(tree, prefix):
  """All name paths (tables and columns) the importer forms for a document (used to aim options)."""
  found = []

  def item(path, v):
    found.append(path)
    fields = v[1] if v[0] == "obj" else [["", v]]
    for k, val in fields:
      q = path + [k]
      if val[0] == "obj":
        item(q, val)
      elif val[0] == "arr":
        for e in val[1]:
          item(q, e)
      else:
        found.append(q)

  for top in (tree[1] if tree[0] == "arr" else [tree]):
    item(prefix, top)
  uniq = []
  for p in found:
    if p not in uniq:
      uniq.append(p)
  return uniq


def hypothesis_inputs(seed, n):
  """Documents beyond the bound of the design model: more keys, deeper, wider, richer scalars."""
  import hypothesis
  from hypothesis import strategies as st

  scalar = st.one_of(
    st.sampled_from([None, True, False, 0, 1, -1, 2, "", "x", "1", "null", "true", "a_b", 1.5, -0.0, 1e22,
                     2 ** 31, -2 ** 63, 10 ** 20]),
    st.integers(-5, 5), st.integers(), st.floats(allow_nan=False, allow_infinity=False),
    st.text(max_size=4), st.none(), st.booleans()).map(tag)
  key = st.sampled_from(KEYS) | st.sampled_from("ab")

  def extend(children):
    return st.one_of(
      st.lists(children, max_size=5).map(lambda vs: ["arr", vs]),
      st.dictionaries(key, children, max_size=3).map(lambda d: ["obj", [[k, d[k]] for k in d]]))

  tree = st.recursive(scalar, extend, max_leaves=30)

  @st.composite
  def inputs(draw):
    t = draw(tree)
    if draw(st.integers(0, 3)) > 0 and t[0] not in ("arr", "obj"):
      t = ["arr", draw(st.lists(tree, max_size=5))]
    paths = paths_of(t, ["T"]) or [["T"]]

    def option():
      p = list(draw(st.sampled_from(paths)))
      r = draw(st.integers(0, 9))
      if r == 0 and len(p) > 1:
        p = p[:-1]
      elif r == 1:
        p = p + [draw(st.sampled_from(KEYS))]
      elif r == 2:
        p = p + [""]                      # "T_a_": everything strictly below
      elif r == 3:
        p = ["X"] + p[1:]                 # another import name: matches nothing
      return p

    def options():
      return [option() for _ in range(draw(st.sampled_from([0, 0, 1, 1, 2])))]

    return {"name": "T", "t": t, "inc": options() if draw(st.booleans()) else [], "exc": options()}

  found = []

  @hypothesis.seed(seed)
  @hypothesis.settings(max_examples=n, database=None, deadline=None, derandomize=True,
                       suppress_health_check=list(hypothesis.HealthCheck),
                       phases=[hypothesis.Phase.generate])
  @hypothesis.given(inputs())
  def collect(g):
    found.append(g)

  collect()
  seen, uniq = set(), []
  for g in found:
    k = json.dumps(g, sort_keys=True)
    if k not in seen:
      seen.add(k)
      uniq.append(g)
  return uniq


def stats(cases):
  """Coverage facts about the recorded runs (counts only)."""
  st = {"cases": len(cases), "raised": 0, "tables>=2": 0, "ref_column": 0, "back_column": 0, "with_options": 0,
        "max_tables": 0, "max_rows": 0, "nodes>20": 0}
  for c in cases:
    out = c["out"]
    st["raised"] += bool(c["exc"])
    st["tables>=2"] += len(out) >= 2
    st["with_options"] += bool(c["inp"]["inc"] or c["inp"]["exc"])
    kinds = [(len(t["name"]), col["ty"]) for t in out for col in t["cols"] if col["ty"]["k"] == "Ref"]
    st["ref_column"] += any(len(ty["t"]) > n for n, ty in kinds)
    st["back_column"] += any(len(ty["t"]) < n for n, ty in kinds)
    st["max_tables"] = max(st["max_tables"], len(out))
    st["max_rows"] = max([st["max_rows"]] + [len(col["v"]) for t in out for col in t["cols"]])
    st["nodes>20"] += json.dumps(c["inp"]["t"]).count("[") > 40
  return st


def main():
  args = json.loads(sys.argv[1])
  from imports import import_json   # pylint: disable=import-outside-toplevel
  if "hyp" in args:
    inputs = hypothesis_inputs(args["hyp"]["seed"], args["hyp"]["n"])
  else:
    with open(args["inp"]) as f:
      inputs = json.load(f)
  # the importer reads its document from a file: keep that file in memory if the system allows
  shm = "/dev/shm" if os.path.isdir("/dev/shm") and os.access("/dev/shm", os.W_OK) else None
  tmp = tempfile.mkdtemp(prefix="c33-", dir=shm or os.path.dirname(args["out"]))
  os.environ["IMPORTDIR"] = tmp
  fname = "doc.json"
  try:
    cases = [run_one(import_json, inp, fname) for inp in inputs]
  finally:
    if os.path.exists(os.path.join(tmp, fname)):
      os.unlink(os.path.join(tmp, fname))
    os.rmdir(tmp)
  with open(args["out"], "w") as f:
    json.dump(cases, f, separators=(",", ":"))
  with open(args["out"] + ".stats.json", "w") as f:
    json.dump(stats(cases), f)


if __name__ == "__main__":
  main()
