"""
Worker of C22: calls the real usertypes.<Type>.convert twice (convert(x), convert(convert(x))) on the
type objects of real engine columns and records DESCRIPTIONS of the values.  argv[1] = JSON
{"inp": <inputs file>, "out": <cases file>, ["atoms_out": <file>]}.

Nothing here judges the property.  A value is described by describe(): its kind (first builtin /
engine class it is an instance of), whether its type is exactly that class, int-shortness, the
kinds of list elements, and the ASCII token of the code's own objtypes.encode_object(value).

Inputs (a list of):
  {"t": type, "c": "atom"|"list"|"tuple", "a": code, "l": [codes]}   a value of Convert!Universe
  {"t": type, "spec": <value expression as JSON text>}               replay of a recorded case
  {"hyp": seed, "n": count}      `count` Hypothesis-generated value expressions x every type
Value expressions (JSON lists, see build()) are the replayable form of a Python value.
"""
import datetime
import decimal
import enum
import fractions
import json
import sys

import adapter
import moment
import objtypes
import records
import tokens

TYPES = ["Text", "Numeric", "Int", "Bool", "Date", "DateTime", "Choice", "ChoiceList", "Ref", "RefList",
         "Attachments", "Any", "Id", "ManualSortPos", "PositionNumber"]
_COLTYPE = {"DateTime": "DateTime:America/New_York", "Ref": "Ref:T", "RefList": "RefList:T"}
_CLASSNAME = {"Ref": "Reference", "RefList": "ReferenceList"}


# ---------------------------------------------------------------------------------------------
# The type objects: taken from the columns of a real engine document
class Env(object):
  def __init__(self):
    eng = adapter.new_engine()
    adapter.apply(eng, [["InitNewDoc"]])
    user = [t for t in TYPES if t not in ("Id", "ManualSortPos", "PositionNumber")]
    adapter.apply(eng, [["AddTable", "T", [{"id": "c" + t, "type": _COLTYPE.get(t, t), "isFormula": False}
                                           for t in user]],
                        ["AddTable", "U", [{"id": "a", "type": "Text", "isFormula": False}]],
                        ["BulkAddRecord", "T", [None, None, None], {}],
                        ["BulkAddRecord", "U", [None, None], {}]])
    self.eng = eng
    self.tables = {"T": eng.tables["T"], "U": eng.tables["U"]}
    T = self.tables["T"]
    self.types = {t: T.get_column("c" + t).type_obj for t in user}
    self.types["Id"] = T.get_column("id").type_obj
    self.types["ManualSortPos"] = T.get_column("manualSort").type_obj
    self.types["PositionNumber"] = eng.tables["_grist_ACLRules"].get_column("rulePos").type_obj
    for t, obj in self.types.items():
      if type(obj).__name__ != _CLASSNAME.get(t, t):
        raise SystemExit("column of type %s has type object %r" % (t, type(obj).__name__))


# ---------------------------------------------------------------------------------------------
# Value expressions -> Python values
class MyInt(int):
  pass


class MyStr(str):
  pass


class MyFloat(float):
  pass


class Color(enum.IntEnum):
  RED = 1


class BadStr(object):
  def __str__(self):
    raise ValueError("no str")


class BadRepr(object):
  def __str__(self):
    raise ValueError("no str")

  def __repr__(self):
    raise ValueError("no repr")


class StrNotStr(object):
  def __str__(self):
    return 5


OBJECTS = {
  "object": object,
  "complex": lambda: complex(1, 0),
  "decimal1": lambda: decimal.Decimal("1"),
  "decimal1.5": lambda: decimal.Decimal("1.5"),
  "decimal2020": lambda: decimal.Decimal("2020"),
  "fraction1": lambda: fractions.Fraction(1),
  "fraction1/2": lambda: fractions.Fraction(1, 2),
  "set": lambda: {1, 2},
  "setstr": lambda: {"a"},
  "emptyset": set,
  "frozenset": lambda: frozenset(["a"]),
  "range3": lambda: range(3),
  "range0": lambda: range(0),
  "iter": lambda: iter([1, 2]),
  "emptyiter": lambda: iter([]),
  "badstr": BadStr,
  "badrepr": BadRepr,
  "strnotstr": StrNotStr,
  "pending": lambda: objtypes._pending_sentinel,     # pylint: disable=protected-access
  "censored": lambda: objtypes._censored_sentinel,   # pylint: disable=protected-access
  "unmarshallable": lambda: objtypes.UnmarshallableValue("x"),
  "recordstub": lambda: objtypes.RecordStub("T", 1),
  "reflookup": lambda: objtypes.ReferenceLookup(1),
  "time": lambda: datetime.time(1, 2),
  "timedelta": lambda: datetime.timedelta(1),
  "class": lambda: int,
  "function": lambda: len,
  "ellipsis": lambda: Ellipsis,
  "bytearray": lambda: bytearray(b"1"),
  "intenum": lambda: Color.RED,
}

ERRORS = {"ValueError": ValueError, "ZeroDivisionError": ZeroDivisionError, "TypeError": TypeError,
          "KeyError": KeyError, "InvalidTypedValue": None}


def parse_float(s):
  return float(s) if s in ("nan", "inf", "-inf") else float.fromhex(s)


def fhex(f):
  return repr(f) if f != f or f in (float("inf"), float("-inf")) else f.hex()


def make_tz(name):
  if name == "":
    return None
  if name[0] in "+-":
    sign = -1 if name[0] == "-" else 1
    return datetime.timezone(sign * datetime.timedelta(hours=int(name[1:3]), minutes=int(name[4:6])))
  return moment.tzinfo(name)


def build(spec, env):
  k = spec[0]
  if k == "none":
    return None
  if k == "bool":
    return bool(spec[1])
  if k == "int":
    return int(spec[1])
  if k == "int10":
    return 10 ** spec[1]
  if k == "float":
    return parse_float(spec[1])
  if k == "str":
    return spec[1]
  if k == "bytes":
    return bytes.fromhex(spec[1])
  if k == "list":
    return [build(s, env) for s in spec[1]]
  if k == "tuple":
    return tuple(build(s, env) for s in spec[1])
  if k == "dict":
    return {build(a, env): build(b, env) for a, b in spec[1]}
  if k == "date":
    return datetime.date(spec[1], spec[2], spec[3])
  if k == "datetime":
    return datetime.datetime(*spec[1:8], tzinfo=make_tz(spec[8]))
  if k == "record":
    return env.tables[spec[1]].Record(spec[2])
  if k == "recordset":
    return env.tables[spec[1]].RecordSet(list(spec[2]))
  if k == "recordlist":
    return objtypes.RecordList(list(spec[1]))
  if k == "alttext":
    return objtypes.AltText(spec[1], spec[2] if len(spec) > 2 else None)
  if k == "error":
    if spec[1] == "InvalidTypedValue":
      exc = objtypes.InvalidTypedValue("Ref", spec[2])
    else:
      exc = ERRORS[spec[1]](spec[2])
    if len(spec) > 3:
      return objtypes.RaisedException(exc, user_input=build(spec[3], env))
    return objtypes.RaisedException(exc)
  if k == "myint":
    return MyInt(spec[1])
  if k == "mystr":
    return MyStr(spec[1])
  if k == "myfloat":
    return MyFloat(parse_float(spec[1]))
  if k == "object":
    return OBJECTS[spec[1]]()
  raise SystemExit("unknown value expression %r" % (spec,))


# ---------------------------------------------------------------------------------------------
# Convert!Universe in Python: ATOMS[code - 1] = (name, value expression).  The descriptors of these
# values (computed by describe) are compared with Convert!Atoms by the check on every run.
I = lambda n: ["int", str(n)]
F = lambda f: ["float", fhex(f)]
S = lambda s: ["str", s]
ATOMS = [
  ("None", ["none"]), ("True", ["bool", True]), ("False", ["bool", False]),
  ("0", I(0)), ("1", I(1)), ("-1", I(-1)), ("2**31-1", I(2 ** 31 - 1)), ("2**31", I(2 ** 31)),
  ("-2**31", I(-2 ** 31)), ("-2**31-1", I(-2 ** 31 - 1)), ("2**63", I(2 ** 63)), ("10**30", I(10 ** 30)),
  ("2**1024", I(2 ** 1024)), ("10**5000", ["int10", 5000]),
  ("0.0", F(0.0)), ("-0.0", F(-0.0)), ("1.0", F(1.0)), ("1.5", F(1.5)), ("-2.5", F(-2.5)),
  ("2.0**31", F(2.0 ** 31)), ("1e30", F(1e30)), ("nan", F(float("nan"))), ("inf", F(float("inf"))),
  ("-inf", F(float("-inf"))),
  ("''", S("")), ("'a'", S("a")), ("'1'", S("1")), ("'1.5'", S("1.5")), ("' 2 '", S(" 2 ")),
  ("'true'", S("true")), ("'No'", S("No")), ("'2020-01-01'", S("2020-01-01")),
  ("'2020-01-01T12:00:00+02:00'", S("2020-01-01T12:00:00+02:00")), ("'nan'", S("nan")),
  ("'1e400'", S("1e400")), ("'2147483648'", S("2147483648")), ("'e-acute'", S(u"é")),
  ("'[]'", S("[]")), ("'[1, 2]'", S("[1, 2]")), ("'[0]'", S("[0]")), ("'[\"a\", \"b\"]'", S('["a", "b"]')),
  ("'[1'", S("[1")), ("'RecordList([1, 2])'", S("RecordList([1, 2], group_by=None, sort_by=None)")),
  ("b''", ["bytes", ""]), ("b'x'", ["bytes", "78"]), ("b'1'", ["bytes", "31"]), ("b'\\xff'", ["bytes", "ff"]),
  ("{}", ["dict", []]), ("{'a': 1}", ["dict", [[S("a"), I(1)]]]), ("{1: 2}", ["dict", [[I(1), I(2)]]]),
  ("date(2020,1,1)", ["date", 2020, 1, 1]), ("date(1,1,1)", ["date", 1, 1, 1]),
  ("datetime naive", ["datetime", 2020, 1, 1, 12, 30, 0, 0, ""]),
  ("datetime New_York", ["datetime", 2020, 1, 1, 12, 30, 0, 0, "America/New_York"]),
  ("datetime +02:00", ["datetime", 2020, 1, 1, 12, 30, 0, 0, "+02:00"]),
  ("T[1]", ["record", "T", 1]), ("T[0]", ["record", "T", 0]), ("U[1]", ["record", "U", 1]),
  ("T[[1, 2]]", ["recordset", "T", [1, 2]]), ("T[[]]", ["recordset", "T", []]),
  ("U[[1]]", ["recordset", "U", [1]]),
  ("RecordList([1, 2])", ["recordlist", [1, 2]]), ("RecordList([])", ["recordlist", []]),
  ("AltText('a')", ["alttext", "a"]), ("AltText('1')", ["alttext", "1"]),
  ("AltText('1.5')", ["alttext", "1.5"]), ("AltText('true')", ["alttext", "true"]),
  ("AltText('2020-01-01')", ["alttext", "2020-01-01"]), ("AltText('[\"a\"]')", ["alttext", '["a"]']),
  ("AltText('[1]')", ["alttext", "[1]"]),
  ("RaisedException(ValueError)", ["error", "ValueError", "x"]),
  ("RaisedException(ValueError, user_input=1)", ["error", "ValueError", "x", I(1)]),
  ("RaisedException(InvalidTypedValue)", ["error", "InvalidTypedValue", "hello"]),
  ("MyInt(7)", ["myint", 7]), ("MyInt(0)", ["myint", 0]), ("MyStr('s')", ["mystr", "s"]),
  ("MyStr('1')", ["mystr", "1"]), ("MyFloat(2.5)", ["myfloat", fhex(2.5)]),
  ("IntEnum 1", ["object", "intenum"]),
  ("object()", ["object", "object"]), ("complex(1, 0)", ["object", "complex"]),
  ("Decimal('1')", ["object", "decimal1"]), ("{1, 2}", ["object", "set"]),
  ("range(3)", ["object", "range3"]), ("BadRepr()", ["object", "badrepr"]),
  ("[[]]", ["list", [["list", []]]]), ("[[1]]", ["list", [["list", [I(1)]]]]),
  ("['L', 1]", ["list", [S("L"), I(1)]]), ("[1, 2, 3]", ["list", [I(1), I(2), I(3)]]),
  ("('a', 'b')", ["tuple", [S("a"), S("b")]]), ("[T[1], T[2]]", ["list", [["record", "T", 1], ["record", "T", 2]]]),
  ("[T[[1]], T[[2, 1]]]", ["list", [["recordset", "T", [1]], ["recordset", "T", [2, 1]]]]),
]
# every remaining entry of OBJECTS, so that each (type, object) pair is enumerated on every run
_IN_ATOMS = set(spec[1] for _name, spec in ATOMS if spec[0] == "object")
ATOMS += [("<%s>" % key, ["object", key]) for key in sorted(OBJECTS) if key not in _IN_ATOMS]


def universe_spec(u):
  if u["c"] == "atom":
    return ATOMS[u["a"] - 1][1]
  return [u["c"], [ATOMS[a - 1][1] for a in u["l"]]]


# ---------------------------------------------------------------------------------------------
# Description of a value (no judgement: which class, which encoding)
_KINDS = [("bool", bool), ("int", int), ("float", float), ("str", str), ("bytes", bytes),
          ("error", objtypes.RaisedException), ("alttext", objtypes.AltText),
          ("datetime", datetime.datetime), ("date", datetime.date), ("record", records.Record),
          ("recordset", records.RecordSet), ("tuple", tuple), ("list", list), ("dict", dict)]


def kind3(v):
  if v is None:
    return {"k": "none", "x": True, "sh": False}
  for name, cls in _KINDS:
    if isinstance(v, cls):
      short = name == "int" and -(1 << 31) <= v < (1 << 31)
      return {"k": name, "x": type(v) is cls, "sh": bool(short)}    # pylint: disable=unidiomatic-typecheck
  return {"k": "other", "x": False, "sh": False}


def describe(v):
  d = kind3(v)
  d["rl"] = isinstance(v, objtypes.RecordList)
  d["el"] = [kind3(e) for e in v] if d["k"] in ("tuple", "list") else []
  d["tok"] = tokens.token(objtypes.encode_object(v))
  return d


ABSENT = {"k": "absent", "x": False, "sh": False, "rl": False, "el": [], "tok": ""}


def run_case(env, t, spec, src):
  type_obj = env.types[t]
  value = build(spec, env)
  case = {"t": t, "spec": json.dumps(spec), "src": src, "inp": describe(value), "out": ABSENT, "out2": ABSENT,
          "same": False, "same2": False, "exc": "", "exc2": ""}
  try:
    out = type_obj.convert(value)
  except Exception as e:   # pylint: disable=broad-except
    case["exc"] = type(e).__name__
    return case
  case["out"] = describe(out)
  case["same"] = out is value
  try:
    out2 = type_obj.convert(out)
  except Exception as e:   # pylint: disable=broad-except
    case["exc2"] = type(e).__name__
    return case
  case["out2"] = describe(out2)
  case["same2"] = out2 is out
  return case


# ---------------------------------------------------------------------------------------------
# Hypothesis: value expressions beyond the universe (C->S)
TEXTS = ["", "a", "1", "0", "-1", "1.5", " 2 ", "1e3", "1e400", "-1e400", "nan", "inf", "-inf", "Infinity", "1_0",
         u"１２", "0x10", "2147483647", "2147483648", "-2147483649", "1" * 310, "true", "True", "YES",
         "no", "false", "on", "2020-01-01", "2020", "2020-13-45", "2020-02-30", "20200101", "2020-01-01T10:00:00Z",
         "2020-01-01 10:00:00+05:30", "0001-01-01", "9999-12-31T23:59:59", "[]", "[ ]", "[\n]", "[1]", "[0]",
         "[-1]", "[1, 2]", "[1.0]", "[true]", "[null]", '["a"]', '["a", 1]', "[[]]", '[""]', "[", "[1", "[1e999]",
         "[2147483648]", "{}", "RecordList([1, 2], group_by=None, sort_by=None)", "RecordList([])",
         "RecordList([0])", "RecordList([a])", "T[1]", "T[[1, 2]]", "b'x'", "None", "<int>"]
ZONES = ["", "UTC", "America/New_York", "Asia/Kolkata", "Pacific/Auckland", "+02:00", "-11:30"]


def strategies():
  from hypothesis import strategies as st
  ints = st.one_of(
    st.integers(-3, 3),
    st.sampled_from([2 ** 31 - 1, 2 ** 31, -2 ** 31, -2 ** 31 - 1, 2 ** 53, 2 ** 53 + 1, 2 ** 63, 2 ** 64, 10 ** 30,
                     2 ** 1023, 2 ** 1024 - 1, 2 ** 1024, -2 ** 1024, 10 ** 308, 10 ** 309, 10 ** 400]),
    st.integers(-2 ** 40, 2 ** 40),
    st.integers(-2 ** 1100, 2 ** 1100),
  ).map(I)
  big10 = st.sampled_from([4299, 4300, 5000]).map(lambda e: ["int10", e])
  floats = st.one_of(
    st.floats(), st.integers(-10 ** 6, 10 ** 6).map(float), st.floats(-10, 10),
    st.sampled_from([-0.0, 2.0 ** 31, 2.0 ** 31 - 0.5, -2.0 ** 31 - 1, 2.0 ** 53, 1e15, 1e16, 1e308, 5e-324]),
  ).map(F)
  dates = st.dates()
  naive = st.datetimes()
  numtext = st.from_regex(r"\s?[-+]?[0-9]{1,4}(\.[0-9]{0,3})?(e[-+]?[0-9]{1,3})?\s?", fullmatch=True)
  jsontext = st.lists(st.one_of(st.integers(-2, 5), st.sampled_from(["a", "", 1.5, True, None, [], [1]])),
                      max_size=3).map(json.dumps)
  rawtext = st.one_of(
    st.sampled_from(TEXTS), st.text(max_size=6), numtext, jsontext, dates.map(lambda d: d.isoformat()),
    naive.map(lambda d: d.isoformat()), naive.map(str),
    st.lists(st.integers(0, 4), max_size=3).map(lambda l: "RecordList(%r, group_by=None, sort_by=None)" % l))
  text = rawtext.map(S)
  byts = st.one_of(st.binary(max_size=5), st.sampled_from([b"1", b"1.5", b"true", b"[]", b"\xff", b"2020-01-01"])
                   ).map(lambda b: ["bytes", b.hex()])
  date_s = dates.map(lambda d: ["date", d.year, d.month, d.day])
  dt_s = st.tuples(naive, st.sampled_from(ZONES)).map(
    lambda p: ["datetime", p[0].year, p[0].month, p[0].day, p[0].hour, p[0].minute, p[0].second,
               p[0].microsecond, p[1]])
  rec = st.tuples(st.sampled_from(["T", "U"]), st.integers(0, 4)).map(lambda p: ["record", p[0], p[1]])
  rset = st.tuples(st.sampled_from(["T", "T", "U"]), st.lists(st.integers(0, 4), max_size=3)).map(
    lambda p: ["recordset", p[0], p[1]])
  rlist = st.lists(st.integers(0, 4), max_size=3).map(lambda l: ["recordlist", l])
  alt = rawtext.map(lambda s: ["alttext", s])
  subs = st.one_of(st.integers(-3, 2 ** 32).map(lambda i: ["myint", i]), rawtext.map(lambda s: ["mystr", s]),
                   st.floats().map(lambda f: ["myfloat", fhex(f)]))
  objs = st.sampled_from(sorted(OBJECTS)).map(lambda n: ["object", n])
  simple = st.one_of(st.just(["none"]), st.booleans().map(lambda b: ["bool", b]), ints, floats, text)
  err = st.one_of(
    st.tuples(st.sampled_from(sorted(ERRORS)), st.text(max_size=4)).map(lambda p: ["error", p[0], p[1]]),
    st.tuples(st.sampled_from(["ValueError", "TypeError"]), st.text(max_size=4), simple).map(
      lambda p: ["error", p[0], p[1], p[2]]))
  atoms = st.one_of(simple, simple, byts, date_s, dt_s, rec, rset, rlist, alt, err, subs, objs, big10)
  keys = st.one_of(st.text(max_size=3).map(S), st.integers(0, 3).map(I), st.just(["none"]))

  def extend(children):
    return st.one_of(
      st.lists(children, max_size=4).map(lambda l: ["list", l]),
      st.lists(children, max_size=4).map(lambda l: ["tuple", l]),
      st.lists(st.tuples(keys, children), max_size=3, unique_by=lambda p: json.dumps(p[0])).map(
        lambda l: ["dict", [list(p) for p in l]]))
  return st.recursive(atoms, extend, max_leaves=6)


def generate(seed_value, count):
  from hypothesis import given, settings, seed, HealthCheck, Phase
  specs = []

  @seed(seed_value)
  @settings(max_examples=count, database=None, deadline=None, phases=[Phase.generate],
            suppress_health_check=list(HealthCheck))
  @given(strategies())
  def collect(spec):
    specs.append(spec)
  collect()   # pylint: disable=no-value-for-parameter
  return specs


# ---------------------------------------------------------------------------------------------
def main():
  args = json.loads(sys.argv[1])
  env = Env()
  if args.get("atoms_out"):
    atoms = []
    for name, spec in ATOMS:
      d = describe(build(spec, env))
      del d["tok"]
      d["name"] = name
      atoms.append(d)
    json.dump({"atoms": atoms, "types": TYPES}, open(args["atoms_out"], "w"))
  cases = []
  for inp in json.load(open(args["inp"])):
    if "hyp" in inp:
      for spec in generate(inp["hyp"], inp["n"]):
        for t in TYPES:
          cases.append(run_case(env, t, spec, "hyp"))
    elif "spec" in inp:
      cases.append(run_case(env, inp["t"], json.loads(inp["spec"]), inp.get("src", "replay")))
    else:
      cases.append(run_case(env, inp["t"], universe_spec(inp), "enum"))
  json.dump(cases, open(args["out"], "w"))


main()
