"""
Schedule control from outside (C06, C18, C30): wraps Engine._make_sorted_work_items of a live engine so
that the work items of chosen tables are processed in a given order.  The engine's own rule "lookup
nodes first" is kept.  Enabled only with GRIST_VERIF_WRAP=1 (MANIFEST.hooks.guard).
"""
import os


class ScheduleWrapper(object):
  def __init__(self, eng):
    if os.environ.get("GRIST_VERIF_WRAP") != "1":
      raise RuntimeError("GRIST_VERIF_WRAP=1 required to wrap engine methods")
    if not callable(getattr(eng, "_make_sorted_work_items", None)):
      raise LookupError("wrapped engine method disappeared: _make_sorted_work_items")
    self.eng = eng
    self._orig = eng._make_sorted_work_items
    self.rank = None       # function node -> sort key, or None for the engine's own order
    self.calls = 0
    eng._make_sorted_work_items = self._make

  def set_order(self, rank):
    self.rank = rank

  def _make(self, nodes):
    items = self._orig(nodes)
    self.calls += 1
    if self.rank is None:
      return items
    # items are processed from the END of the list.  Keep '#lookup' nodes where the engine put them
    # (processed first), permute the others by rank (smallest rank processed first).
    lookups = [it for it in items if it.node.col_id.startswith('#lookup')]
    others = [it for it in items if not it.node.col_id.startswith('#lookup')]
    others.sort(key=lambda it: self.rank(it.node), reverse=True)
    return others + lookups
