"""
Worker of C23: builds the designed document in a fresh real engine, applies the real user action
['ModifyColumn', 'T', 'X', {'type': to}] and records, judgement-free, what spec/Trace_TypeChange.tla
needs.  argv[1] = JSON {"inp": <inputs file>, "out": <cases file>}.

The document.  It is built with real user actions once per (from, two, vis) and saved; every case runs
in a FRESH engine that opens the saved document (load_meta_tables, load_table, Calculate - as Node opens
a document file), so nothing of one case can leak into the next:
  U   N: Text, rows 1..3                    target of the reference types (and V likewise, only when a
                                            type of the input names it)
      T: RefList:T                          only if `two`: the reverse column that the real
                                            ['AddReverseColumn', 'T', 'X'] creates (with its display helper)
  T   X: `from`   the column whose type is changed
      F = $X      formula that depends on X
      Y: `from`   bystander with the same contents
      G = $Y      formula that does not depend on X
      X, Y and their first view fields carry widget options
      if `vis`: X.visibleCol = U.N with display helper `$X.N`, and the same on X's first view field
  Z   X: Any (all universe values), H = $X   another table with a column of the same id

An input is {"from", "to", "two", "vis", "raw", "cells": [name]}: a cell name is a key of NAMES or
"j:<JSON of an encoded cell value>".  The cells are written with the real BulkAddRecord USER action
(the `from` type decides what is stored) or, if `raw`, with a BulkAddRecord DOC action (stored as after
loading a document).  The previous stored values are read back from the engine.

A case is
  {"inp": the input as JSON text, "setup": exception class name if the cells could not be stored (then
   nothing else is recorded) or "", "from", "to", "two", "exc": exception class name or "",
   "typ", "styp": X's type after the action in _grist_Tables_column / in engine.schema,
   "rows": [{"r", "prev", "conv", "cconv", "after"}]   one per row of T before the action:
        prev   token of the stored value before,        after  token of the stored value after
        conv   token of  <type object of `to`>.convert(previous stored value)
        cconv  token of  <column object of type `to`>.convert(previous stored value)
               both obtained from an ORACLE engine that never sees the type change
   "changed": [{"t", "c", "r", "k"}]  every difference between fetch_table of all tables before and
        after: k = "upd" (cell), "add"/"del" (record, c = "*"), "coladd"/"coldel" (r = 0),
        "tabadd"/"tabdel" (c = "*", r = 0)
   "xref": row id of X in _grist_Tables_column, "fields": row ids of X's view fields,
   "disp": column refs that X.displayCol / its fields' displayCol named before,
   "rev": {"t", "c"} the column X.reverseCol named before ("" if none),
   "fcols": [{"t", "c", "ref", "m": [{"t", "c"}]}] the formula columns before the action with the
        (table, column) names their formulas mention (the engine's own static analysis grist_names)}
Nothing is judged here.
"""
import copy
import json
import sys

import adapter
import objtypes
from tokens import token

NAMES = {"i0": 0, "i1": 1, "i2": 2, "f15": 1.5, "se": "", "sa": "a", "s1": "1", "nn": None, "bt": True,
         "l1": ["L", 1], "dt": 1704067200, "l12": ["L", 1, 2]}
Z_VALUES = [0, 1, 2, 1.5, "", "a", "1", None, True, ["L", 1], 1704067200]
ORACLE_TYPES = ["Text", "Int", "Numeric", "Bool", "Date", "Choice", "ChoiceList", "Any", "Ref:U", "RefList:U",
                "Ref:V", "RefList:V", "DateTime:UTC", "DateTime:America/New_York", "DateTime:Asia/Tokyo", "Attachments"]
MISSING = "?missing"


def value_of(name):
  if name.startswith("j:"):
    return json.loads(name[2:])
  return copy.deepcopy(NAMES[name])


def clone(obj):
  """A private copy of a stored value where one can be made (datetimes with a zone cannot be copied;
  they are immutable anyway)."""
  try:
    return copy.deepcopy(obj)
  except Exception:   # pylint: disable=broad-except
    return obj


def tok(encoded):
  return token(encoded)


def tok_of_object(obj):
  return token(objtypes.encode_object(obj))


class Oracle(object):
  """An engine that only lends its type and column objects for calling convert()."""
  def __init__(self):
    eng = adapter.new_engine()
    adapter.apply(eng, [["InitNewDoc"]])
    cols = [{"id": "c%d" % k, "type": t, "isFormula": False} for k, t in enumerate(ORACLE_TYPES)]
    adapter.apply(eng, [["AddTable", "U", [{"id": "N", "type": "Text", "isFormula": False}]],
                        ["AddTable", "V", [{"id": "N", "type": "Text", "isFormula": False}]],
                        ["AddTable", "O", cols]])
    self.cols = {t: eng.tables["O"].get_column("c%d" % k) for k, t in enumerate(ORACLE_TYPES)}
    self.eng = eng

  def convs(self, typ, raw):
    col = self.cols[typ]
    out = []
    for fn in (col.type_obj.convert, col.convert):
      try:
        out.append(tok_of_object(fn(clone(raw))))
      except Exception as e:   # pylint: disable=broad-except
        out.append("!raised " + type(e).__name__)
    return out

  def is_alt(self, typ, raw):
    """Whether the column-level conversion of `raw` is not of the type (a fact for the coverage counts)."""
    col = self.cols[typ]
    try:
      return int(not col.type_obj.is_right_type(col.convert(clone(raw))))
    except Exception:   # pylint: disable=broad-except
      return 0


def col_def(cid, typ, formula=None):
  if formula is None:
    return {"id": cid, "type": typ, "isFormula": False}
  return {"id": cid, "type": typ, "isFormula": True, "formula": formula}


def build_base(inp):
  """Everything of the document except the cells of T (depends on from, two, vis and on whether V is named)."""
  eng = adapter.new_engine()
  adapter.apply(eng, [["InitNewDoc"]])
  frm = inp["from"]
  bundle = [["AddTable", "U", [col_def("N", "Text")]]]
  names3 = lambda p: [p + "1", p + "2", p + "3"]
  fill = [["BulkAddRecord", "U", [None] * 3, {"N": names3("u")}]]
  if ":V" in frm or ":V" in inp["to"]:
    bundle.append(["AddTable", "V", [col_def("N", "Text")]])
    fill.append(["BulkAddRecord", "V", [None] * 3, {"N": names3("v")}])
  bundle.append(["AddTable", "T", [col_def("X", frm), col_def("F", "Any", "$X"),
                                   col_def("Y", frm), col_def("G", "Any", "$Y")]])
  bundle.append(["AddTable", "Z", [col_def("X", "Any"), col_def("H", "Any", "$X")]])
  fill.append(["BulkAddRecord", "Z", [None] * len(Z_VALUES), {"X": copy.deepcopy(Z_VALUES)}])
  adapter.apply(eng, bundle + fill)
  m = Meta(adapter.fetch_all(eng))
  # widget options on X, on the bystander and on their first view fields (settings a type change may reset
  # on X only)
  opts = json.dumps({"alignment": "right"})
  acts = []
  for cid in ("X", "Y"):
    ref = m.colref[("T", cid)]
    acts.append(["UpdateRecord", "_grist_Tables_column", ref, {"widgetOptions": opts}])
    acts.append(["UpdateRecord", "_grist_Views_section_field", m.fields_of(ref)[0], {"widgetOptions": opts}])
  adapter.apply(eng, acts)
  if inp["two"]:
    adapter.apply(eng, [["AddReverseColumn", "T", "X"]])
  if inp["vis"]:
    x, n = m.colref[("T", "X")], m.colref[("U", "N")]
    field = m.fields_of(x)[0]
    adapter.apply(eng, [["UpdateRecord", "_grist_Tables_column", x, {"visibleCol": n}],
                        ["SetDisplayFormula", "T", None, x, "$X.N"],
                        ["UpdateRecord", "_grist_Views_section_field", field, {"visibleCol": n}],
                        ["SetDisplayFormula", "T", field, None, "$X.N"]])
  return eng


def group_key(inp):
  return (inp["from"], bool(inp["two"]), bool(inp["vis"]), ":V" in inp["from"] or ":V" in inp["to"])


def mentions_of(eng):
  """{(table, formula column): set of (table, column) names its formula mentions} - the engine's own
  static analysis of the formulas (the one it uses for renames), not its dependency graph."""
  mentions = {}
  for (ft, fc), _pos, mt, mc in eng.gencode.grist_names():
    mentions.setdefault((ft, fc), set()).add((mt, mc or ""))
  return mentions


def fill(eng, inp):
  vals = [value_of(c) for c in inp["cells"]]
  n = len(vals)
  if n:
    if inp["raw"]:
      da = ["BulkAddRecord", "T", list(range(1, n + 1)),
            {"X": vals, "Y": copy.deepcopy(vals), "manualSort": [float(r) for r in range(1, n + 1)]}]
      eng.apply_user_actions([adapter.useractions.from_repr(["ApplyDocActions", [da]])])
    else:
      adapter.apply(eng, [["BulkAddRecord", "T", [None] * n, {"X": vals, "Y": copy.deepcopy(vals)}]])


class Meta(object):
  """Plain lookups in a fetch_all snapshot (no interpretation)."""
  def __init__(self, snap):
    trows, tcols = snap["_grist_Tables"]
    self.table_of = dict(zip(trows, tcols["tableId"]))
    crows, ccols = snap["_grist_Tables_column"]
    self.col = {}
    self.colref = {}
    for k, r in enumerate(crows):
      rec = {c: v[k] for c, v in ccols.items()}
      rec["table"] = self.table_of.get(rec["parentId"], "")
      self.col[r] = rec
      self.colref[(rec["table"], rec["colId"])] = r
    frows, fcols = snap["_grist_Views_section_field"]
    self.field = {r: {c: v[k] for c, v in fcols.items()} for k, r in enumerate(frows)}

  def fields_of(self, colref):
    return sorted(r for r, rec in self.field.items() if rec["colRef"] == colref)


def cells_of(snap):
  """{table: {"rows": set, "cols": {col: {row: token}}}}"""
  out = {}
  for t, (rows, cols) in snap.items():
    out[t] = {"rows": [int(r) for r in rows],
              "cols": {c: {int(r): tok(v) for r, v in zip(rows, vals)} for c, vals in cols.items()}}
  return out


def diff(b, a):
  ch = []
  add = lambda t, c, r, k: ch.append({"t": t, "c": c, "r": r, "k": k})
  for t in sorted(set(b) | set(a)):
    if t not in a:
      add(t, "*", 0, "tabdel")
      continue
    if t not in b:
      add(t, "*", 0, "tabadd")
      continue
    rb, ra = set(b[t]["rows"]), set(a[t]["rows"])
    for r in sorted(rb - ra):
      add(t, "*", r, "del")
    for r in sorted(ra - rb):
      add(t, "*", r, "add")
    if b[t]["rows"] != a[t]["rows"] and rb == ra:
      add(t, "*", 0, "order")
    for c in sorted(set(b[t]["cols"]) | set(a[t]["cols"])):
      if c not in a[t]["cols"]:
        add(t, c, 0, "coldel")
      elif c not in b[t]["cols"]:
        add(t, c, 0, "coladd")
      else:
        cb, ca = b[t]["cols"][c], a[t]["cols"][c]
        for r in sorted(rb & ra):
          if cb[r] != ca[r]:
            add(t, c, r, "upd")
  return ch


def run_case(oracle, eng, mentions, inp):
  """`eng` is a fresh engine holding the document without T's cells; it is used for this case only."""
  try:
    fill(eng, inp)
  except Exception as e:   # pylint: disable=broad-except
    # the engine refuses to store the designed contents (e.g. a dangling row id in a two-way reference
    # column): there is no document to change the type in
    return {"inp": json.dumps(inp, sort_keys=True), "setup": type(e).__name__, "from": inp["from"], "to": inp["to"],
            "two": bool(inp["two"]), "exc": "", "typ": MISSING, "styp": MISSING, "rows": [], "changed": [],
            "xref": 0, "fields": [], "disp": [], "rev": {"t": "", "c": ""}, "fcols": []}, {"alt": 0}
  snap0 = adapter.fetch_all(eng)
  meta = Meta(snap0)
  before = cells_of(snap0)
  xref = meta.colref[("T", "X")]
  xrec = meta.col[xref]
  if xrec["type"] != inp["from"] or xrec["isFormula"]:
    raise adapter.MachineryError("the document was not built as designed: %r" % (xrec,))
  fields = meta.fields_of(xref)
  disp = sorted({d for d in [xrec["displayCol"]] + [meta.field[f]["displayCol"] for f in fields]
                 if type(d) is int and d > 0})    # pylint: disable=unidiomatic-typecheck
  rev = {"t": "", "c": ""}
  rc = xrec["reverseCol"]
  if type(rc) is int and rc > 0:    # pylint: disable=unidiomatic-typecheck
    rev = {"t": meta.col[rc]["table"], "c": meta.col[rc]["colId"]}
  if bool(rev["t"]) != bool(inp["two"]) or bool(disp) != bool(inp["vis"]):
    raise adapter.MachineryError("two-way / display set-up failed: %r %r" % (rev, disp))
  fcols = []
  for r, rec in sorted(meta.col.items()):
    if rec["isFormula"] and rec["formula"] and not rec["table"].startswith("_grist_"):
      ms = sorted(mentions.get((rec["table"], rec["colId"]), ()))
      fcols.append({"t": rec["table"], "c": rec["colId"], "ref": r, "m": [{"t": t, "c": c} for t, c in ms]})

  column = eng.tables["T"].get_column("X")
  rows = []
  alt = 0
  for r in before["T"]["rows"]:
    raw = clone(column.raw_get(r))
    prev = tok_of_object(raw)
    if prev != before["T"]["cols"]["X"][r]:
      raise adapter.MachineryError("fetch_table and raw_get disagree on T.X[%d]" % r)
    conv, cconv = oracle.convs(inp["to"], raw)
    alt += oracle.is_alt(inp["to"], raw)
    rows.append({"r": r, "prev": prev, "conv": conv, "cconv": cconv, "after": MISSING})

  exc = ""
  try:
    adapter.apply(eng, [["ModifyColumn", "T", "X", {"type": inp["to"]}]])
  except Exception as e:   # pylint: disable=broad-except
    exc = type(e).__name__
  snap1 = adapter.fetch_all(eng)
  after = cells_of(snap1)
  xa = after.get("T", {"cols": {}})["cols"].get("X", {})
  for row in rows:
    row["after"] = xa.get(row["r"], MISSING)
  typ = styp = MISSING
  crows, ccols = snap1["_grist_Tables_column"]
  if xref in crows:
    t = ccols["type"][crows.index(xref)]
    typ = t if type(t) is str else tok(t)    # pylint: disable=unidiomatic-typecheck
  try:
    styp = eng.schema["T"].columns["X"].type
  except Exception:   # pylint: disable=broad-except
    pass
  case = {"inp": json.dumps(inp, sort_keys=True), "setup": "", "from": inp["from"], "to": inp["to"], "two": bool(inp["two"]),
          "exc": exc, "typ": typ, "styp": styp, "rows": rows, "changed": diff(before, after),
          "xref": xref, "fields": fields, "disp": disp, "rev": rev, "fcols": fcols}
  return case, {"alt": alt}


STAT_KEYS = ("cases", "setup_failed", "raised", "stored_differs_from_requested", "some_cell_converted", "some_cell_alt_text",
             "conv_differs_from_cconv", "formula_changed", "reverse_changed", "metadata_beyond_type",
             "helper_removed", "nothing_changed")


def bookkeeping(stats, case, facts):
  """Coverage facts (no judgement): which paths of the input space were visited."""
  inp = json.loads(case["inp"])
  s = stats["rnd" if inp.get("rnd") else "enum"]
  s["cases"] += 1
  if case["setup"]:
    s["setup_failed"] += 1
    return
  if case["exc"]:
    s["raised"] += 1
    return
  req = [tok(value_of(c)) for c in inp["cells"]]
  if req != [r["prev"] for r in case["rows"]]:
    s["stored_differs_from_requested"] += 1
  if any(r["after"] != r["prev"] for r in case["rows"]):
    s["some_cell_converted"] += 1
  if any(r["conv"] != r["cconv"] for r in case["rows"]):
    s["conv_differs_from_cconv"] += 1
  if facts["alt"]:
    s["some_cell_alt_text"] += 1
  ch = case["changed"]
  if any(e["t"] == "T" and e["c"] == "F" for e in ch):
    s["formula_changed"] += 1
  if case["rev"]["t"] and any(e["t"] == case["rev"]["t"] and e["c"] == case["rev"]["c"] for e in ch):
    s["reverse_changed"] += 1
  if any(e["t"].startswith("_grist_") and not (e["t"] == "_grist_Tables_column" and e["c"] == "type") for e in ch):
    s["metadata_beyond_type"] += 1
  if any(e["k"] == "coldel" for e in ch):
    s["helper_removed"] += 1
  if not ch:
    s["nothing_changed"] += 1


def save(eng):
  """What a document file would hold of this engine: every table with its stored formula results."""
  return {t: eng.fetch_table(t, formulas=True) for t in eng.tables}


def load(saved):
  """A fresh engine that opens the saved document the way Node does: load_meta_tables, load_table for
  every table, then the no-op Calculate user action."""
  sv = copy.deepcopy(saved)
  eng = adapter.engine_mod.Engine()
  expected = eng.load_meta_tables(sv["_grist_Tables"], sv["_grist_Tables_column"])
  for t in expected:
    eng.load_table(sv[t])
  adapter.apply(eng, [["Calculate"]])
  return eng


def main():
  args = json.loads(sys.argv[1])
  inputs = json.load(open(args["inp"]))
  oracle = Oracle()
  stats = {"enum": dict.fromkeys(STAT_KEYS, 0), "rnd": dict.fromkeys(STAT_KEYS, 0)}
  groups = {}
  for k, inp in enumerate(inputs):
    groups.setdefault(group_key(inp), []).append(k)
  cases = [None] * len(inputs)
  for key in sorted(groups):
    base = build_base(inputs[groups[key][0]])
    mentions = mentions_of(base)
    saved = save(base)
    snap = adapter.fetch_all(base)
    if adapter.fetch_all(load(saved)) != snap:
      raise adapter.MachineryError("the reopened document differs from the one that was built: %r" % (key,))
    for k in groups[key]:
      case, facts = run_case(oracle, load(saved), mentions, inputs[k])
      bookkeeping(stats, case, facts)
      cases[k] = case
  json.dump(cases, open(args["out"], "w"))
  json.dump(stats, open(args["out"] + ".stats.json", "w"))


main()
