"""
Worker for C35: run the real functions.schedule.SCHEDULE.  argv[1] = JSON args
  {"inp": <inputs file>, "out": <cases file>, "shard": i, "nshards": k, "variants": v,
   "seed": s, "nrandom": n, "catalogues": bool}

An input is an abstract schedule call as enumerated by TLC (spec/MC_Schedule.tla):
  {unit 1..7, n, slots: [[{k, a, b, c}, ...], ...], start, sub, hasEnd, end, esub, count}
(times = whole seconds since 2000-01-01 00:00:00; sub/esub = 1: the value carries microseconds).
This file only RENDERS such a call (schedule string in the accepted spellings, datetime/date/string
arguments), calls the function and RECORDS what came back; Schedule.tla judges.

A case: {inp, lex, text, form, origin, out: [seconds], us: [microsecond fields], exc: "" | class name}
"""
import itertools
import json
import random
import signal
import sys
from datetime import datetime, timedelta

from functions.schedule import SCHEDULE

EPOCH = datetime(2000, 1, 1)
LIM = 2 ** 31 - 1
UNIT_WORDS = [None, 'year', 'month', 'week', 'day', 'hour', 'minute', 'second']
ALIAS = {1: 'annual', 2: 'monthly', 3: 'weekly', 4: 'daily', 5: 'hourly'}
DELTA_LETTER = [None, 'y', 'm', 'w', 'd', 'H', 'M', 'S']
DAY_NAMES = ['sunday', 'monday', 'tuesday', 'wednesday', 'thursday', 'friday', 'saturday']
MONTH_NAMES = ['january', 'february', 'march', 'april', 'may', 'june', 'july', 'august',
               'september', 'october', 'november', 'december']


# ------------------------------------------------------------------------------------------------
# Spellings.  The first alternative of each list is the documentation's own form.
# ------------------------------------------------------------------------------------------------
def interval_alts(u, n):
  w = UNIT_WORDS[u]
  alts = ['%d-%s' % (n, w), '%d-%ss' % (n, w), '%d %s' % (n, w), '%d %ss' % (n, w),
          '%d  %ss' % (n, w.title()), '%d-%s' % (n, w.upper())]
  if n == 1 and u in ALIAS:
    a = ALIAS[u]
    alts = [a, a.title(), a.upper()] + alts
  return alts


def part_alts(p):
  k, a, b, c = p["k"], p["a"], p["b"], p["c"]
  if k == "date":
    name = MONTH_NAMES[a - 1]
    return ['%s-%d' % (name[:3].title(), b), '%d/%d' % (a, b), '%s-%d' % (name, b),
            '%s-%d' % (name[:3].upper(), b), '%02d/%02d' % (a, b), '%s-%02d' % (name[:3], b),
            '%s-%d' % (name.title(), b)]
  if k == "mday":
    return ['/%d' % a, '/%02d' % a]
  if k == "wday":
    name = DAY_NAMES[a]
    return [name[:2].title(), name[:3].title(), name, name[:2].upper(), name[:3], name.title(),
            name.upper(), name[:2]]
  if k == "time":
    if c == 0:
      return ['%02d:%02d' % (a, b), '%d:%02d' % (a, b)]
    ap = 'am' if c == 1 else 'pm'
    if b == 0:
      return ['%d%s' % (a, ap), '%d:00%s' % (a, ap), '%d%s' % (a, ap.upper()), '%02d:00%s' % (a, ap),
              '%d:00%s' % (a, ap.title())]
    return ['%d:%02d%s' % (a, b, ap), '%d:%02d%s' % (a, b, ap.upper()), '%02d:%02d%s' % (a, b, ap)]
  if k == "mins":
    return [':%02d' % a]
  if k == "delta":
    return ['+%d%s' % (a, DELTA_LETTER[b]), '+%02d%s' % (a, DELTA_LETTER[b])]
  raise ValueError(k)


class Picker(object):
  """variant 0 = first alternative everywhere; other variants walk through the alternatives."""
  def __init__(self, v):
    self.v, self.k = v, 0

  def __call__(self, alts):
    self.k += 1
    if self.v == 0:
      return alts[0]
    return alts[(self.v * 7 + self.k * 3) % len(alts)]


def render(inp, v):
  pick = Picker(v)
  head = pick(interval_alts(inp["unit"], inp["n"]))
  slots = []
  for slot in inp["slots"]:
    parts = [pick(part_alts(p)) for p in slot]
    if pick([0, 0, 1]):
      parts.reverse()           # the parts of a slot add up: their order is free
    slots.append(pick([' ', '  ']).join(parts))
  text = head + pick([': ', ':', ' : ', ':  ']) + pick([', ', ',', ' , ']).join(slots)
  return pick(['', ' ']) + text + pick(['', ' '])


def form_for(inp, v):
  """How the arguments are passed: s/e = 0 datetime, 1 date, 2 ISO string; c = call style."""
  f = {"s": 0, "e": 0, "c": 0, "us": 0, "eus": 0}
  if inp["sub"]:
    f["us"] = [1, 500000, 999999][v % 3]
  if inp["esub"]:
    f["eus"] = [999999, 1, 250000][v % 3]
  if v:
    if not inp["sub"]:
      f["s"] = (v + inp["start"]) % 3
      if f["s"] == 1 and inp["start"] % 86400:
        f["s"] = 0
    if inp["hasEnd"] and not inp["esub"]:
      f["e"] = (v + inp["end"] + 1) % 3
      if f["e"] == 1 and inp["end"] % 86400:
        f["e"] = 0
    f["c"] = v % 3
  return f


def make_arg(sec, usec, kind):
  d = EPOCH + timedelta(seconds=sec, microseconds=usec)
  if kind == 1:
    return d.date()
  if kind == 2:
    return d.isoformat(' ')
  return d


# ------------------------------------------------------------------------------------------------
# Calling and recording
# ------------------------------------------------------------------------------------------------
class _Timeout(BaseException):
  pass


def _alarm(_sig, _frm):
  raise _Timeout()


signal.signal(signal.SIGALRM, _alarm)


def observe(text, inp, form):
  start = make_arg(inp["start"], form["us"], form["s"])
  end = make_arg(inp["end"], form["eus"], form["e"]) if inp["hasEnd"] else None
  count = inp["count"]
  out, us, exc = [], [], ""
  signal.setitimer(signal.ITIMER_REAL, 5.0)
  try:
    if form["c"] == 1:
      res = SCHEDULE(text, start, count, end)
    elif form["c"] == 2 and count == 10:
      res = SCHEDULE(text, start=start, end=end) if end is not None else SCHEDULE(text, start=start)
    elif end is None and form["c"] == 2:
      res = SCHEDULE(text, start=start, count=count)
    else:
      res = SCHEDULE(text, start=start, count=count, end=end)
    got = list(itertools.islice(iter(res), max(count, 0) + 3))
    for d in got:
      if not isinstance(d, datetime):
        raise TypeError("result is %s" % type(d).__name__)
      off = d.utcoffset() or timedelta(0)
      delta = d.replace(tzinfo=None) - off - EPOCH       # documents without a timezone use UTC
      out.append(max(-LIM, min(LIM, delta.days * 86400 + delta.seconds)))
      us.append(delta.microseconds)
  except _Timeout:
    out, us, exc = [], [], "Timeout"
  except Exception as e:   # pylint: disable=broad-except
    out, us, exc = [], [], type(e).__name__
  finally:
    signal.setitimer(signal.ITIMER_REAL, 0)
  return out, us, exc


def run_item(item, cases):
  inp, form, text = item["inp"], item["form"], item["text"]
  out, us, exc = observe(text, inp, form)
  case = {"inp": inp, "lex": item.get("lex", 0), "text": text, "form": form,
          "origin": item.get("origin", "tlc"), "out": out, "us": us, "exc": exc}
  cases.append(case)
  return case


# ------------------------------------------------------------------------------------------------
# Catalogues (first shard only)
# ------------------------------------------------------------------------------------------------
def P(k, a, b=0, c=0):
  return {"k": k, "a": a, "b": b, "c": c}


def call(unit, n, slots, start, count=2, sub=0, end=None, esub=0):
  return {"unit": unit, "n": n, "slots": slots, "start": start, "sub": sub,
          "hasEnd": 0 if end is None else 1, "end": end or 0, "esub": esub, "count": count}


def secs(*a):
  d = datetime(*a) - EPOCH
  return d.days * 86400 + d.seconds


DOC_START = secs(2018, 9, 4, 14, 0)
PLAIN = {"s": 0, "e": 0, "c": 0, "us": 0, "eus": 0}

# strings that are malformed whatever a reasonable reading of the documentation is
LEX_INVALID = [
  "", "daily", "weekly Mo", "daily 9am", "daily:", "daily: ", "daily: 9am,", "daily: ,9am", "daily: 9am,,5pm",
  ": 9am", " : Mo", "1Year: Jan-1", "1y: Jan-1", "1-daily: 9am", "yearly: Jan-1", "fortnightly: Mo",
  "2-fortnights: Mo", "1.5-days: 9am", "-1-days: 9am", "day: 9am", "every day: 9am", "2-: 9am", "-day: 9am",
  "two-days: 9am", "2_days: 9am", "2-days-3: 9am",
  "weekly: xyz", "weekly: snu", "weekly: Moonday", "annual: februarium-1", "annual: Foo-15", "weekly: Feb:1",
  "monthly: /1d", "hourly: 10", "annual: H1", "hourly: +1t", "daily: +1x", "daily: 9", "daily: 9:5",
  "daily: 9:00:00", "daily: 9.30am", "hourly: :5", "daily: 9am; 5pm", "2-day: 9am: 5pm", "daily: 9am 5",
  "daily: +d", "daily: +-1d", "daily: 1+d", "monthly: /", "annual: Jan-", "annual: -15", "annual: 1/",
  "daily: am", "daily: :", "daily: +1", "daily: 9xm", "daily: @9am", "weekly: Mo-9am", "monthly: //15",
  "annual: 1/15/2018", "hourly: :15:30", "daily: 9am|5pm", "weekly: Mo&Tu", "daily: 9am +", "daily: ++1d",
]

# the documentation's examples (docstring of SCHEDULE and the sentences around it), with their meaning
_t = lambda h, m=0, ap=0: P("time", h, m, ap)
DOC_EXAMPLES = [
  ("annual: Jan-15, Apr-15, Jul-15", 1, 1, [[P("date", 1, 15)], [P("date", 4, 15)], [P("date", 7, 15)]]),
  ("annual: 1/15, 4/15, 7/15", 1, 1, [[P("date", 1, 15)], [P("date", 4, 15)], [P("date", 7, 15)]]),
  ("annual: Jan-15, Apr-15, Jul-15, Oct-15", 1, 1,
   [[P("date", 1, 15)], [P("date", 4, 15)], [P("date", 7, 15)], [P("date", 10, 15)]]),
  ("monthly: /1 2pm, /15 2pm", 2, 1, [[P("mday", 1), _t(2, 0, 2)], [P("mday", 15), _t(2, 0, 2)]]),
  ("monthly: /1 2pm, /15 5pm", 2, 1, [[P("mday", 1), _t(2, 0, 2)], [P("mday", 15), _t(5, 0, 2)]]),
  ("3-months: /10, +1m /20", 2, 3, [[P("mday", 10)], [P("delta", 1, 2), P("mday", 20)]]),
  ("3-month: +0d 12pm", 2, 3, [[P("delta", 0, 4), _t(12, 0, 2)]]),
  ("weekly: Mo 9am, Tu 9am, Fr 2pm", 3, 1,
   [[P("wday", 1), _t(9, 0, 1)], [P("wday", 2), _t(9, 0, 1)], [P("wday", 5), _t(2, 0, 2)]]),
  ("2-weeks: Mo, +1w Tu", 3, 2, [[P("wday", 1)], [P("delta", 1, 3), P("wday", 2)]]),
  ("weekly: +1d, +4d", 3, 1, [[P("delta", 1, 4)], [P("delta", 4, 4)]]),
  ("weekly: Mon, Thu", 3, 1, [[P("wday", 1)], [P("wday", 4)]]),
  ("2-week: Mon", 3, 2, [[P("wday", 1)]]),
  ("3-week: Mon", 3, 3, [[P("wday", 1)]]),
  ("1-week: +1d 9:30am, +4d 3:30pm", 3, 1, [[P("delta", 1, 4), _t(9, 30, 1)], [P("delta", 4, 4), _t(3, 30, 2)]]),
  ("daily: 07:30, 21:00", 4, 1, [[_t(7, 30)], [_t(21, 0)]]),
  ("daily: 0:00", 4, 1, [[_t(0, 0)]]),
  ("2-day: 12am, 4pm, +1d 8am", 4, 2, [[_t(12, 0, 1)], [_t(4, 0, 2)], [P("delta", 1, 4), _t(8, 0, 1)]]),
  ("hourly: :15, :45", 5, 1, [[P("mins", 15)], [P("mins", 45)]]),
  ("24-hour: :00", 5, 24, [[P("mins", 0)]]),
  ("4-hour: :00, +1H :20, +2H :40", 5, 4,
   [[P("mins", 0)], [P("delta", 1, 5), P("mins", 20)], [P("delta", 2, 5), P("mins", 40)]]),
  ("10-minute: +0s", 6, 10, [[P("delta", 0, 7)]]),      # "Every 10 minutes on the minute."
  ("10-minute: +0S", 6, 10, [[P("delta", 0, 7)]]),
]


def catalogue_items():
  items = []
  dummy = call(4, 1, [[_t(9, 0, 1)]], DOC_START)
  for s in LEX_INVALID:
    items.append({"inp": dummy, "lex": 1, "text": s, "form": PLAIN, "origin": "lexbad"})
  for text, u, n, slots in DOC_EXAMPLES:
    for start, sub in ((DOC_START, 0), (secs(2018, 1, 1), 0), (secs(2019, 12, 31, 23, 59, 59), 1)):
      items.append({"inp": call(u, n, slots, start, count=4, sub=sub), "lex": 0, "text": text,
                    "form": dict(PLAIN, us=sub * 7), "origin": "doc"})
  # every spelling of every token, one token at a time
  filler = {1: P("date", 3, 1), 2: P("mday", 2), 3: P("wday", 3), 4: _t(9, 30, 1), 5: P("mins", 30),
            6: P("delta", 30, 7), 7: P("delta", 0, 7)}
  def sweep(u, n, head, part, ptext):
    items.append({"inp": call(u, n, [[part]], DOC_START), "lex": 0, "text": head + ": " + ptext,
                  "form": PLAIN, "origin": "sweep"})
  for u in range(1, 8):
    for n in (1, 2, 3, 12):
      for head in interval_alts(u, n):
        sweep(u, n, head, filler[u], part_alts(filler[u])[0])
  parts = ([(3, P("wday", w)) for w in range(7)] +
           [(1, P("date", m, d)) for m in range(1, 13) for d in (1, 9, 28)] +
           [(2, P("mday", d)) for d in range(1, 29)] +
           [(5, P("mins", m)) for m in range(0, 60)] +
           [(4, _t(h, m, 0)) for h in range(24) for m in (0, 5, 59)] +
           [(4, _t(h, m, ap)) for h in range(1, 13) for m in (0, 5, 59) for ap in (1, 2)] +
           [(3, _t(h, 0, ap)) for h in (12, 1, 11) for ap in (1, 2)] +
           [(1, P("delta", c, 2)) for c in (0, 1, 11)] + [(1, P("delta", c, 4)) for c in (0, 1, 27, 364)] +
           [(1, P("delta", c, 3)) for c in (0, 1, 52)] + [(1, P("delta", 0, 1))] +
           [(1, P("delta", c, 5)) for c in (0, 1, 23, 100)] + [(1, P("delta", c, 6)) for c in (0, 59, 600)] +
           [(2, P("delta", c, 4)) for c in (0, 1, 27)] + [(2, P("delta", c, 3)) for c in (0, 3)] +
           [(2, P("delta", 0, 2))] + [(3, P("delta", c, 4)) for c in range(7)] + [(3, P("delta", 0, 3))] +
           [(3, P("delta", c, 5)) for c in (0, 1, 167)] + [(4, P("delta", c, 5)) for c in (0, 1, 23)] +
           [(4, P("delta", c, 6)) for c in (0, 1, 1439)] + [(4, P("delta", c, 7)) for c in (0, 1, 86399)] +
           [(4, P("delta", 0, 4))] + [(5, P("delta", c, 6)) for c in (0, 1, 59)] +
           [(5, P("delta", c, 7)) for c in (0, 1, 3599)] + [(5, P("delta", 0, 5))] +
           [(6, P("delta", c, 7)) for c in (0, 1, 59)] + [(6, P("delta", 0, 6))] + [(7, P("delta", 0, 7))])
  for u, part in parts:
    for ptext in part_alts(part):
      sweep(u, 1, interval_alts(u, 1)[0], part, ptext)
  return items


# ------------------------------------------------------------------------------------------------
# Random schedules beyond the bound of the model
# ------------------------------------------------------------------------------------------------
def rand_time(rnd):
  mi = rnd.choice([0, 0, 15, 30, 59, rnd.randint(0, 59)])
  if rnd.random() < 0.5:
    return _t(rnd.randint(0, 23), mi, 0)
  return _t(rnd.randint(1, 12), mi, rnd.choice([1, 2]))


def rand_slot(rnd, u, n):
  s = []
  maybe = lambda p: rnd.random() < p
  if u == 1:
    r = rnd.random()
    if r < 0.5:
      s.append(P("date", rnd.randint(1, 12), rnd.randint(1, 28)))
    elif r < 0.7:
      s.append(P("delta", rnd.randint(0, 11), 2))
      if maybe(0.5):
        s.append(P("delta", rnd.randint(0, 27), 4))
    elif r < 0.85:
      s.append(P("delta", rnd.randint(0, 330), 4))
    else:
      s.append(P("delta", rnd.randint(0, 47), 3))
    if n > 1 and maybe(0.5):
      s.append(P("delta", rnd.randint(0, n - 1), 1))
  elif u == 2:
    r = rnd.random()
    if r < 0.6:
      s.append(P("mday", rnd.randint(1, 28)))
    elif r < 0.85:
      s.append(P("delta", rnd.randint(0, 27), 4))
    else:
      s.append(P("delta", rnd.randint(0, 3), 3))
    if n > 1 and maybe(0.6):
      s.append(P("delta", rnd.randint(0, n - 1), 2))
  elif u == 3:
    if maybe(0.6):
      s.append(P("wday", rnd.randint(0, 6)))
    else:
      s.append(P("delta", rnd.randint(0, 6), 4))
    if n > 1 and maybe(0.6):
      s.append(P("delta", rnd.randint(0, n - 1), 3))
  elif u == 4:
    if n > 1 and maybe(0.6):
      s.append(P("delta", rnd.randint(0, n - 1), 4))
  elif u == 5:
    if maybe(0.6):
      s.append(P("mins", rnd.randint(0, 59)))
    else:
      s.append(P("delta", rnd.randint(0, 59), 6))
    if n > 1 and maybe(0.6):
      s.append(P("delta", rnd.randint(0, n - 1), 5))
    if maybe(0.3):
      s.append(P("delta", rnd.randint(0, 59), 7))
  elif u == 6:
    if maybe(0.7):
      s.append(P("delta", rnd.randint(0, n - 1), 6))
    if maybe(0.7) or not s:
      s.append(P("delta", rnd.randint(0, 59), 7))
  else:
    s.append(P("delta", rnd.randint(0, n - 1), 7))
  if u <= 4:
    r = rnd.random()
    if r < 0.6 or not s:
      s.append(rand_time(rnd))
    elif r < 0.8:
      s.append(P("delta", rnd.randint(0, 23), 5))
      if maybe(0.5):
        s.append(P("delta", rnd.randint(0, 59), 6))
    if maybe(0.2):
      s.append(P("delta", rnd.randint(0, 59), 7))
  rnd.shuffle(s)
  return s


def approx_offset(slot):
  mo = sec = 0
  mult = [0, 0, 0, 604800, 86400, 3600, 60, 1]
  for p in slot:
    k, a, b, c = p["k"], p["a"], p["b"], p["c"]
    if k == "date":
      mo += a - 1
      sec += (b - 1) * 86400
    elif k == "mday":
      sec += (a - 1) * 86400
    elif k == "wday":
      sec += a * 86400
    elif k == "time":
      sec += ((a if c == 0 else a % 12 + (12 if c == 2 else 0)) * 60 + b) * 60
    elif k == "mins":
      sec += a * 60
    elif b == 1:
      mo += 12 * a
    elif b == 2:
      mo += a
    else:
      sec += a * mult[b]
  return mo * 2630016 + sec


def rand_input(rnd):
  u = rnd.randint(1, 7)
  n = rnd.randint(1, {1: 3, 2: 7, 3: 4, 4: 5, 5: 30, 6: 45, 7: 90}[u])
  slots = {}
  for _ in range(rnd.choice([1, 1, 2, 2, 3, 4, 5])):
    s = rand_slot(rnd, u, n)
    slots[approx_offset(s)] = s
  slots = [slots[k] for k in sorted(slots)]
  start = rnd.randint(secs(2001, 1, 1), secs(2036, 1, 1))
  r = rnd.random()
  if r < 0.15:
    start -= start % 86400
  elif r < 0.3:
    start -= start % 3600
  elif r < 0.4:
    start -= start % 60
  count = rnd.choice([0, 1, 2, 3, 4, 5, 7, 8, 10, 10, 12])
  if u == 1:
    count = min(count, 24 // n)
  end = None
  if rnd.random() < 0.4:
    span = [0, 366 * 86400, 31 * 86400, 7 * 86400, 86400, 3600, 60, 1][u] * n
    end = start + rnd.randint(-1, 3 * span)
  return call(u, n, slots, start, count=count, sub=int(rnd.random() < 0.3), end=end,
              esub=int(end is not None and rnd.random() < 0.3))


def random_items(rnd, n, cases):
  """Random calls; then calls whose start / end sit exactly on (or next to) a returned time."""
  for i in range(n):
    inp = rand_input(rnd)
    v = rnd.randint(0, 40)
    item = {"inp": inp, "lex": 0, "text": render(inp, v), "form": form_for(inp, v), "origin": "random"}
    case = run_item(item, cases)
    out = case["out"]
    if out and rnd.random() < 0.6:
      inp2 = dict(inp)
      j = rnd.randrange(len(out))
      inp2["start"], inp2["sub"] = rnd.choice([(out[j], 0), (out[j], 1), (out[j] - 1, 0), (out[j] - 1, 1)])
      if rnd.random() < 0.6:
        k = rnd.randrange(j, len(out))
        inp2["hasEnd"] = 1
        inp2["end"], inp2["esub"] = rnd.choice([(out[k], 0), (out[k], 1), (out[k] - 1, 0), (out[k] - 1, 1)])
      if secs(2001, 1, 1) <= inp2["start"] < secs(2036, 1, 1):
        v = rnd.randint(0, 40)
        run_item({"inp": inp2, "lex": 0, "text": render(inp2, v), "form": form_for(inp2, v),
                  "origin": "random"}, cases)


def main():
  args = json.loads(sys.argv[1])
  inputs = json.load(open(args["inp"]))
  cases = []
  variants = args.get("variants", 1)
  shard, nshards = args.get("shard", 0), args.get("nshards", 1)
  for idx, item in enumerate(inputs):
    if "inp" in item:                       # a replayed case: same text, same argument forms
      run_item(item, cases)
      continue
    g = idx * nshards + shard               # position in the enumerated space
    for j in range(variants):
      v = 0 if j == 0 else 1 + (g * (variants - 1) + j - 1) % 41
      run_item({"inp": item, "lex": 0, "text": render(item, v), "form": form_for(item, v), "origin": "tlc"},
               cases)
  if args.get("catalogues") and shard == 0:
    for item in catalogue_items():
      run_item(item, cases)
  if args.get("nrandom"):
    rnd = random.Random(args.get("seed", 0) * 1000 + shard)
    random_items(rnd, args["nrandom"], cases)
  json.dump(cases, open(args["out"], "w"))


main()
