"""
Worker of C24 (Rpc.tla): drives the REAL sandbox loop (sandbox.Sandbox.run as started by main.main(),
i.e. Sandbox.connected_to_js_pipes() on file descriptors 3 and 4) in a child process over real OS
pipes with the real `marshal`, playing the part of Node.  argv[1] = JSON {"inp": .., "out": ..}.

Nothing here judges the property: it issues calls, records the kind of every reply (DATA / EXC /
BROKEN = no well-formed reply), what a witness cell showed before and after the call, and tokens
(harness/tokens.py) of encoded values.  Trace_Rpc.tla judges.

Inputs (a list of):
  {"script": [step, ...]}                 a call script enumerated by MC_Rpc (S->C), see run_script
  {"value": <value expression>, "mode": "formula"|"cell", "coltype": T}   one hostile value (C->S)
  {"hyp": seed, "n": count}               `count` Hypothesis-generated value expressions
"""
import json
import marshal
import os
import queue
import subprocess
import sys
import threading
import time

CALL, DATA, EXC = None, True, False
REPLY_TIMEOUT = float(os.environ.get("VERIF_RPC_TIMEOUT", "180"))

BOOT = r"""
import os, sys
r, w = int(sys.argv[1]), int(sys.argv[2])
r2, w2 = os.dup(r), os.dup(w)
while r2 < 5 or w2 < 5:
  if r2 < 5: r2 = os.dup(r2)
  if w2 < 5: w2 = os.dup(w2)
os.dup2(r2, 3)
os.dup2(w2, 4)
for fd in set([r, w, r2, w2]) - set([3, 4]):
  try:
    os.close(fd)
  except OSError:
    pass
import logging
logging.disable(logging.CRITICAL)
import main
main.main()
"""


class Broken(Exception):
  """The stream gave no well-formed message (EOF, timeout, garbage)."""


class Server(object):
  """One child process running main.main(); this object is Node's end of the two pipes."""

  def __init__(self):
    c2s_r, c2s_w = os.pipe()
    s2c_r, s2c_w = os.pipe()
    self.proc = subprocess.Popen([sys.executable, "-X", "utf8", "-c", BOOT, str(c2s_r), str(s2c_w)],
                                 pass_fds=(c2s_r, s2c_w), stdin=subprocess.DEVNULL,
                                 stdout=subprocess.DEVNULL, stderr=subprocess.DEVNULL)
    os.close(c2s_r)
    os.close(s2c_w)
    self.out = os.fdopen(c2s_w, "wb", 0)
    self.inp = os.fdopen(s2c_r, "rb", 64 * 1024)
    self.q = queue.Queue()
    self.dead = False
    self.ncalls = 0
    t = threading.Thread(target=self._reader, daemon=True)
    t.start()

  def _reader(self):
    # every message of the Python side is marshal.dump(marshal.dumps((code, body)))
    try:
      while True:
        buf = marshal.load(self.inp)
        code, body = marshal.loads(buf)
        self.q.put((code, body))
    except EOFError:
      self.q.put(("eof", None))
    except Exception as e:   # pylint: disable=broad-except
      self.q.put(("garbage", "%s %s" % (type(e).__name__, e)))

  def send(self, code, body):
    # Node's side (sandbox.run reads two consecutive marshalled values)
    try:
      self.out.write(marshal.dumps(code, 2) + marshal.dumps(body, 2))
    except (BrokenPipeError, OSError):
      self.dead = True
      raise Broken("write failed")

  def recv(self):
    if self.dead:
      raise Broken("dead")
    try:
      code, body = self.q.get(timeout=REPLY_TIMEOUT)
    except queue.Empty:
      self.dead = True
      raise Broken("timeout")
    if code in ("eof", "garbage"):
      self.dead = True
      raise Broken(code if body is None else "%s: %s" % (code, body))
    return code, body

  def call(self, name, *args, **kw):
    """
    Returns (kind, body, nested): kind "DATA" | "EXC" | "BROKEN"; nested = the CALL messages the
    server sent to us while serving this call.  `responder(name, args, server)` answers them:
    returns (DATA|EXC, body).
    """
    responder = kw.get("responder")
    nested = []
    self.ncalls += 1
    try:
      self.send(CALL, [name] + list(args))
      while True:
        code, body = self.recv()
        if code is CALL:
          nested.append(body)
          if responder is None:
            self.send(EXC, "no such external function")
          else:
            rcode, rbody = responder(body[0], list(body[1:]), self)
            self.send(rcode, rbody)
          continue
        if code is DATA:
          return "DATA", body, nested
        if code is EXC:
          return "EXC", body, nested
        self.dead = True
        return "BROKEN", "unknown message code %r" % (code,), nested
    except Broken as e:
      return "BROKEN", str(e), nested

  def close(self):
    try:
      self.out.close()
    except Exception:   # pylint: disable=broad-except
      pass
    try:
      self.proc.wait(timeout=5)
    except Exception:   # pylint: disable=broad-except
      self.proc.kill()
      self.proc.wait()
    try:
      self.inp.close()
    except Exception:   # pylint: disable=broad-except
      pass
