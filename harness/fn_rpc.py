"""
Worker of C24 (Rpc.tla): drives the REAL sandbox loop (sandbox.Sandbox.run as started by main.main(),
i.e. Sandbox.connected_to_js_pipes() on file descriptors 3 and 4) in a child process over real OS
pipes with the real `marshal`, playing the part of Node.  argv[1] = JSON {"inp": .., "out": ..}.

Nothing here judges the property: it issues calls, records the kind of every reply (DATA / EXC /
BROKEN = no well-formed reply), what a witness cell showed before and after the call, and tokens
(harness/tokens.py) of encoded values.  Trace_Rpc.tla judges.

Inputs (a list of):
  {"script": [step, ...]}                 a call script enumerated by MC_Rpc (S->C), see run_script
  {"value": <value expression>, "mode": "formula"|"cell", "coltype": T}   one hostile value (C->S)
  {"hyp": seed, "n": count}               `count` Hypothesis-generated value expressions
"""
import json
import marshal
import os
import queue
import subprocess
import sys
import threading
import time

CALL, DATA, EXC = None, True, False
REPLY_TIMEOUT = float(os.environ.get("VERIF_RPC_TIMEOUT", "180"))

BOOT = r"""
import os, sys
r, w = int(sys.argv[1]), int(sys.argv[2])
r2, w2 = os.dup(r), os.dup(w)
while r2 < 5 or w2 < 5:
  if r2 < 5: r2 = os.dup(r2)
  if w2 < 5: w2 = os.dup(w2)
os.dup2(r2, 3)
os.dup2(w2, 4)
for fd in set([r, w, r2, w2]) - set([3, 4]):
  try:
    os.close(fd)
  except OSError:
    pass
import logging
logging.disable(logging.CRITICAL)
import main
main.main()
"""


class Broken(Exception):
  """The stream gave no well-formed message (EOF, timeout, garbage)."""


class Server(object):
  """One child process running main.main(); this object is Node's end of the two pipes."""

  def __init__(self):
    c2s_r, c2s_w = os.pipe()
    s2c_r, s2c_w = os.pipe()
    import tempfile
    self.errfile = tempfile.TemporaryFile()
    self.proc = subprocess.Popen([sys.executable, "-X", "utf8", "-c", BOOT, str(c2s_r), str(s2c_w)],
                                 pass_fds=(c2s_r, s2c_w), stdin=subprocess.DEVNULL,
                                 stdout=subprocess.DEVNULL, stderr=self.errfile)
    os.close(c2s_r)
    os.close(s2c_w)
    self.out = os.fdopen(c2s_w, "wb", 0)
    self.inp = os.fdopen(s2c_r, "rb", 64 * 1024)
    self.q = queue.Queue()
    self.dead = False
    self.ncalls = 0
    t = threading.Thread(target=self._reader, daemon=True)
    t.start()

  def _reader(self):
    # every message of the Python side is marshal.dump(marshal.dumps((code, body)))
    try:
      while True:
        buf = marshal.load(self.inp)
        code, body = marshal.loads(buf)
        self.q.put((code, body))
    except EOFError:
      self.q.put(("eof", None))
    except Exception as e:   # pylint: disable=broad-except
      self.q.put(("garbage", "%s %s" % (type(e).__name__, e)))

  def send(self, code, body):
    # Node's side (sandbox.run reads two consecutive marshalled values)
    try:
      self.out.write(marshal.dumps(code, 2) + marshal.dumps(body, 2))
    except (BrokenPipeError, OSError):
      self.dead = True
      raise Broken("write failed")

  def recv(self):
    if self.dead:
      raise Broken("dead")
    try:
      code, body = self.q.get(timeout=REPLY_TIMEOUT)
    except queue.Empty:
      self.dead = True
      raise Broken("timeout")
    if code in ("eof", "garbage"):
      self.dead = True
      raise Broken(code if body is None else "%s: %s" % (code, body))
    return code, body

  def call(self, name, *args, **kw):
    """
    Returns (kind, body, nested): kind "DATA" | "EXC" | "BROKEN"; nested = the CALL messages the
    server sent to us while serving this call.  `responder(name, args, server)` answers them:
    returns (DATA|EXC, body).
    """
    responder = kw.get("responder")
    nested = []
    self.ncalls += 1
    try:
      self.send(CALL, [name] + list(args))
      while True:
        code, body = self.recv()
        if code is CALL:
          nested.append(body)
          if responder is None:
            self.send(EXC, "no such external function")
          else:
            rcode, rbody = responder(body[0], list(body[1:]), self)
            self.send(rcode, rbody)
          continue
        if code is DATA:
          return "DATA", body, nested
        if code is EXC:
          return "EXC", body, nested
        self.dead = True
        return "BROKEN", "unknown message code %r" % (code,), nested
    except Broken as e:
      return "BROKEN", str(e), nested

  def stderr_tail(self, n=1500):
    try:
      self.errfile.seek(0)
      return self.errfile.read().decode("utf8", "replace")[-n:]
    except Exception:   # pylint: disable=broad-except
      return ""

  def close(self):
    try:
      self.out.close()
    except Exception:   # pylint: disable=broad-except
      pass
    try:
      self.proc.wait(timeout=5)
    except Exception:   # pylint: disable=broad-except
      self.proc.kill()
      self.proc.wait()
    try:
      self.inp.close()
    except Exception:   # pylint: disable=broad-except
      pass


# ---------------------------------------------------------------------------------------------
# Tokens of encoded values.  Leaves go through tokens.token(); containers are rendered flat and
# iteratively (encoded recursive containers are ~1000 levels deep, and a nested JSON rendering would
# double its escaping at every level).  Exact classes matter to marshal, so anything that is not
# exactly NoneType/bool/int/float/str/bytes/list/tuple/dict is marked "!ClassName".
_EXACT_LEAVES = (type(None), bool, int, float, str, bytes)


def _leaf(v, odd, oddstr):
  import tokens
  t = type(v)
  if t in _EXACT_LEAVES:
    tok = tokens.token(v)
  else:
    odd.add(t.__name__)
    if isinstance(v, str):
      oddstr.add(t.__name__)
    try:
      base = tokens.token(v) if isinstance(v, (bool, int, float, str, bytes)) else ""
    except Exception:   # pylint: disable=broad-except
      base = ""
    tok = "!%s:%s" % (t.__name__.encode("unicode_escape").decode("ascii"), base)
  return tok.replace("%", "%25").replace(",", "%2C").replace("[", "%5B").replace("]", "%5D") \
            .replace("(", "%28").replace(")", "%29").replace("{", "%7B").replace("}", "%7D").replace("=", "%3D")


def flat_token(v):
  """(token, sorted odd class names, depth, sorted odd str-subclass names) of an encoded value; no recursion."""
  odd = set()
  oddstr = set()
  out = []
  maxdepth = 0
  # work items: ("v", value, depth) or ("t", text)
  stack = [("v", v, 0)]
  while stack:
    item = stack.pop()
    if item[0] == "t":
      out.append(item[1])
      continue
    _, x, d = item
    maxdepth = max(maxdepth, d)
    if isinstance(x, (list, tuple)):
      if type(x) not in (list, tuple):
        odd.add(type(x).__name__)
      op, cl = ("[", "]") if isinstance(x, list) else ("(", ")")
      out.append(op)
      stack.append(("t", cl))
      for k, el in enumerate(reversed(x)):
        stack.append(("v", el, d + 1))
        if k < len(x) - 1:
          stack.append(("t", ","))
    elif isinstance(x, dict):
      if type(x) is not dict:
        odd.add(type(x).__name__)
      keyed = []
      for key, val in x.items():
        keyed.append((_leaf(key, odd, oddstr) if not isinstance(key, (list, tuple, dict)) else "!container", val))
      keyed.sort(key=lambda p: p[0])
      out.append("{")
      stack.append(("t", "}"))
      for k, (kt, val) in enumerate(reversed(keyed)):
        stack.append(("v", val, d + 1))
        stack.append(("t", kt + "="))
        if k < len(keyed) - 1:
          stack.append(("t", ","))
    else:
      out.append(_leaf(x, odd, oddstr))
  return "".join(out), sorted(odd), maxdepth, sorted(oddstr)


def roundtrip_record(where, v):
  """The facts of one cell value v: encode, marshal, decode, encode again.  No judgement."""
  import objtypes
  enc = objtypes.encode_object(v)
  etok, odd, depth, oddstr = flat_token(enc)
  rec = {"where": where, "enc": etok, "enc2": "", "dumps": False, "back": "", "odd": odd, "oddstr": oddstr,
         "depth": depth, "err": ""}
  try:
    blob = marshal.dumps(enc, 2)
    rec["dumps"] = True
    rec["back"] = flat_token(marshal.loads(blob))[0]
  except Exception as e:   # pylint: disable=broad-except
    rec["err"] = "%s %s" % (type(e).__name__, e)
  try:
    enc2 = objtypes.encode_object(objtypes.decode_object(enc))
    rec["enc2"] = flat_token(enc2)[0]
  except Exception as e:   # pylint: disable=broad-except
    rec["enc2"] = "!raised " + type(e).__name__
  return rec


# ---------------------------------------------------------------------------------------------
# Value expressions: the replayable form of a hostile value.  to_source() renders the Python text a
# formula uses to build it (the formula is self-contained: helper classes are defined in its body);
# to_wire() renders the plain subset as the object Node would put into a user action.
PRE = {
  "MyStr": ("class MyStr(str):\n  pass", []),
  "MyInt": ("class MyInt(int):\n  pass", []),
  "MyFloat": ("class MyFloat(float):\n  pass", []),
  "MyBytes": ("class MyBytes(bytes):\n  pass", []),
  "MyList": ("class MyList(list):\n  pass", []),
  "MyTuple": ("class MyTuple(tuple):\n  pass", []),
  "MyDict": ("class MyDict(dict):\n  pass", []),
  # str(x) is x itself, a str subclass instance
  "SelfStr": ("class SelfStr(str):\n  def __str__(self):\n    return self", []),
  # repr(x) is a str subclass instance
  "ReprSub": ("class ReprSub(object):\n  def __repr__(self):\n    return MyStr('r')", ["MyStr"]),
  "BadRepr": ("class BadRepr(object):\n  def __repr__(self):\n    raise ValueError('no repr')", []),
  "BadStrRepr": ("class BadStrRepr(str):\n  def __str__(self):\n    raise ValueError('no str')\n"
                 "  def __repr__(self):\n    raise ValueError('no repr')", []),
  "BadEq": ("class BadEq(object):\n  def __eq__(self, other):\n    raise ValueError('no eq')\n"
            "  def __hash__(self):\n    return 1", []),
  "DecodeSub": ("class DecodeSub(bytes):\n  def decode(self, *a, **kw):\n    return MyStr('d')", ["MyStr"]),
  "IntNoInt": ("class IntNoInt(int):\n  def __int__(self):\n    raise ValueError('no int')", []),
  "FloatNoFloat": ("class FloatNoFloat(float):\n  def __float__(self):\n    raise ValueError('no float')", []),
  "ReprLong": ("class ReprLong(object):\n  def __repr__(self):\n    return 'x' * 100000", []),
  "ReprNonAscii": ("class ReprNonAscii(object):\n  def __repr__(self):\n    return u'\\ud800\\u00e9\\U0001F600'", []),
  "Color": ("import enum\nclass Color(enum.IntEnum):\n  RED = 1", []),
  "Tag": ("import enum\nclass Tag(str, enum.Enum):\n  A = 'a'", []),
  "Flag": ("import enum\nclass Flag(enum.Enum):\n  ON = 1", []),
  "StrErr": ("class StrErr(Exception):\n  def __str__(self):\n    return MyStr('m')", ["MyStr"]),
  "BadStrErr": ("class BadStrErr(Exception):\n  def __str__(self):\n    raise ValueError('no str')", []),
  "SubNameErr": ("class SubNameErr(Exception):\n  pass\nSubNameErr.__name__ = MyStr('N')", ["MyStr"]),
  "Point": ("import collections\nPoint = collections.namedtuple('Point', ['x', 'y'])", []),
  "_reclist": ("def _reclist():\n  l = [1]\n  l.append(l)\n  return l", []),
  "_recdict": ("def _recdict():\n  d = {}\n  d['a'] = d\n  return d", []),
  "_rectuple": ("def _rectuple():\n  l = []\n  t = (l, 1)\n  l.append(t)\n  return t", []),
  "_deep": ("def _deep(n, kind):\n  v = 0\n  for i in range(n):\n"
            "    v = [v] if kind == 'list' else ((v,) if kind == 'tuple' else {'k': v})\n  return v", []),
  "_gen": ("def _gen():\n  yield 1", []),
}
SUBCLASSES = {"MyStr": "str", "SelfStr": "str", "BadStrRepr": "str", "MyInt": "int", "IntNoInt": "int",
              "MyFloat": "float", "FloatNoFloat": "float", "MyBytes": "bytes", "DecodeSub": "bytes",
              "MyList": "list", "MyTuple": "tuple", "MyDict": "dict"}
OBJECTS = {
  "object": ("object()", []), "reprsub": ("ReprSub()", ["ReprSub"]), "badrepr": ("BadRepr()", ["BadRepr"]),
  "badeq": ("BadEq()", ["BadEq"]), "reprlong": ("ReprLong()", ["ReprLong"]),
  "reprnonascii": ("ReprNonAscii()", ["ReprNonAscii"]),
  "generator": ("_gen()", ["_gen"]), "genexpr": ("(i for i in range(3))", []),
  "lambda": ("(lambda: 1)", []), "builtin": ("len", []), "class": ("int", []), "localclass": ("MyStr", ["MyStr"]),
  "module": ("__import__('datetime')", []), "ellipsis": ("Ellipsis", []), "notimplemented": ("NotImplemented", []),
  "complex": ("complex(1, 2)", []), "decimal": ("__import__('decimal').Decimal('1.5')", []),
  "fraction": ("__import__('fractions').Fraction(1, 3)", []), "range": ("range(3)", []),
  "bytearray": ("bytearray(b'ab')", []), "memoryview": ("memoryview(b'ab')", []),
  "time": ("__import__('datetime').time(1, 2, 3)", []), "timedelta": ("__import__('datetime').timedelta(1, 2, 3)", []),
  "intenum": ("Color.RED", ["Color"]), "strenum": ("Tag.A", ["Tag"]), "enum": ("Flag.ON", ["Flag"]),
  "exception": ("ValueError('x', 1)", []), "namedtuple": ("Point(1, 'a')", ["Point"]),
  "deque": ("__import__('collections').deque([1, 2])", []),
  "ordereddict": ("__import__('collections').OrderedDict([('a', 1)])", []),
  "defaultdict": ("__import__('collections').defaultdict(int, {'a': 1})", []),
  "counter": ("__import__('collections').Counter('aab')", []),
  "type_none": ("type(None)", []), "iter": ("iter([1, 2])", []), "dictkeys": ("{'a': 1}.keys()", []),
  "slice": ("slice(1, 2)", []), "property": ("property()", []),
  "reclist": ("_reclist()", ["_reclist"]), "recdict": ("_recdict()", ["_recdict"]),
  "rectuple": ("_rectuple()", ["_rectuple"]),
  "rec": ("rec", []), "table": ("table", []), "usertable": ("W", []), "all": ("W.all", []),
  "lookupone": ("W.lookupOne(id=1)", []), "lookupmissing": ("W.lookupOne(id=99)", []),
  "lookuprecords": ("W.lookupRecords(n=0)", []), "lookupnone": ("W.lookupRecords(n=-1)", []),
  "reccol": ("W.all.n", []), "recid": ("rec.id", []),
  "alttext": ("__import__('objtypes').AltText('t')", []),
  "alttextsub": ("__import__('objtypes').AltText(MyStr('t'))", ["MyStr"]),
  "pending": ("__import__('objtypes')._pending_sentinel", []),
  "censored": ("__import__('objtypes')._censored_sentinel", []),
  "unmarshallable": ("__import__('objtypes').UnmarshallableValue('u')", []),
  "recordstub": ("__import__('objtypes').RecordStub('W', 1)", []),
  "recordsetstub": ("__import__('objtypes').RecordSetStub('W', [1, 2])", []),
  "raisedexc": ("__import__('objtypes').RaisedException(ValueError('v'), user_input=set([1]))", []),
  "recordlist": ("__import__('objtypes').RecordList([1, 2])", []),
}
RAISABLE = {"ValueError": [], "KeyError": [], "TypeError": [], "ZeroDivisionError": [], "StrErr": ["StrErr"],
            "BadStrErr": ["BadStrErr"], "SubNameErr": ["SubNameErr"], "UnicodeDecodeError5": [],
            "SystemError": [], "RecursionError": []}       # (MemoryError is re-raised by the engine on purpose)


def _float_src(s):
  if s in ("nan", "inf", "-inf"):
    return "float(%r)" % s
  return "float.fromhex(%r)" % s


def to_source(spec, need):
  k = spec[0]
  if k == "none":
    return "None"
  if k == "bool":
    return "True" if spec[1] else "False"
  if k == "int":
    return "(%s)" % spec[1]
  if k == "pow":
    return "(%d ** %d)" % (spec[1], spec[2])
  if k == "float":
    return _float_src(spec[1])
  if k == "str":
    return ascii(spec[1])
  if k == "bytes":
    return "bytes.fromhex(%r)" % spec[1]
  if k in ("list", "tuple", "set", "frozenset"):
    inner = ", ".join(to_source(s, need) for s in spec[1])
    if k == "list":
      return "[" + inner + "]"
    if k == "tuple":
      return "(" + inner + ("," if len(spec[1]) == 1 else "") + ")"
    return "%s([%s])" % (k, inner)
  if k == "dict":
    return "{" + ", ".join("%s: %s" % (to_source(a, need), to_source(b, need)) for a, b in spec[1]) + "}"
  if k == "sub":
    need.add(spec[1])
    return "%s(%s)" % (spec[1], to_source(spec[2], need))
  if k == "obj":
    src, deps = OBJECTS[spec[1]]
    need.update(deps)
    return src
  if k == "deep":
    need.add("_deep")
    return "_deep(%d, %r)" % (spec[1], spec[2])
  if k == "date":
    return "__import__('datetime').date(%d, %d, %d)" % tuple(spec[1:4])
  if k == "datetime":
    tz = spec[8]
    if tz == "":
      tzs = ""
    elif tz[0] in "+-":
      tzs = ", tzinfo=__import__('datetime').timezone(__import__('datetime').timedelta(minutes=%d))" % (
        (-1 if tz[0] == "-" else 1) * (int(tz[1:3]) * 60 + int(tz[4:6])))
    else:
      tzs = ", tzinfo=__import__('moment').tzinfo(%r)" % tz
    return "__import__('datetime').datetime(%s%s)" % (", ".join(str(x) for x in spec[1:8]), tzs)
  raise SystemExit("unknown value expression %r" % (spec,))


def _preamble(need):
  done, lines = set(), []

  def add(name):
    if name in done:
      return
    done.add(name)
    src, deps = PRE[name]
    for d in deps:
      add(d)
    lines.append(src)
  for n in sorted(need):
    add(n)
  return "\n".join(lines)


def formula_of(top):
  """top = ["ret", expr] | ["raise", excname, [exprs]]  ->  formula text (reads $A, so it is recalculated)."""
  need = set()
  if top[0] == "ret":
    body = "return " + to_source(top[1], need)
  else:
    need.update(RAISABLE[top[1]])
    args = ", ".join(to_source(a, need) for a in top[2])
    if top[1] == "ZeroDivisionError":
      body = "return 1 / 0"
    elif top[1] == "UnicodeDecodeError5":
      body = "return b'\\xff'.decode('utf8')"
    else:
      # (a formula must end in an expression or contain a `return`)
      body = "if x is not Ellipsis:\n  raise %s(%s)\nreturn None" % (top[1], args)
  pre = _preamble(need)
  return "x = $A\n" + (pre + "\n" if pre else "") + body


def to_wire(spec):
  k = spec[0]
  if k == "none":
    return None
  if k == "bool":
    return bool(spec[1])
  if k == "int":
    return int(spec[1])
  if k == "pow":
    return spec[1] ** spec[2]
  if k == "float":
    return float(spec[1]) if spec[1] in ("nan", "inf", "-inf") else float.fromhex(spec[1])
  if k == "str":
    return spec[1]
  if k == "bytes":
    return bytes.fromhex(spec[1])
  if k == "list":
    return [to_wire(s) for s in spec[1]]
  if k == "dict":
    return {to_wire(a): to_wire(b) for a, b in spec[1]}
  if k == "deep":
    v = 0
    for _ in range(spec[1]):
      v = ["L", v] if spec[2] == "list" else ["O", {"k": v}]
    return v
  raise SystemExit("value expression %r cannot be sent by Node" % (spec,))


# ---------------------------------------------------------------------------------------------
# One Node-side session over a live server: the witness table W, the plain table P, the hostile
# table H (for the scripts), and the bookkeeping of the witness counter.
H_FORMULA = "x = $A\nclass MyStr(str):\n  pass\nreturn {MyStr('k'): $A}"
COL = lambda cid, typ, formula=None: {"id": cid, "type": typ, "isFormula": formula is not None,
                                      "formula": formula or ""}
SETUP = [
  [["InitNewDoc"]],
  [["AddTable", "W", [COL("n", "Int")]], ["AddRecord", "W", None, {"n": 0}]],
  [["AddTable", "P", [COL("A", "Int"), COL("C", "Text"), COL("R", "RefList:W")]],
   ["BulkAddRecord", "P", [None, None, None], {"A": [1, 2, 3]}]],
  [["AddTable", "H", [COL("A", "Int"), COL("F", "Any", H_FORMULA), COL("C", "Text")]]],
]


class SetupFailed(Exception):
  pass


class Session(object):
  def __init__(self):
    self.srv = Server()
    self.wn = 0
    self.nonce = 0
    r = self.srv.call("load_empty")
    if r[0] != "DATA":
      time.sleep(0.5)
      raise SetupFailed("load_empty: %r rc=%r\n%s" % (r[:2], self.srv.proc.poll(), self.srv.stderr_tail()))
    for bundle in SETUP:
      r = self.srv.call("apply_user_actions", bundle)
      if r[0] != "DATA":
        raise SetupFailed("%r: %r" % (bundle[0][:2], r[:2]))
    self.w, ok = self.probe()
    if not ok or self.w != "#0":
      raise SetupFailed("witness probe: %r" % (self.w,))

  def probe(self):
    """Reads the witness through the pipe: (token of W.n[1] or "?", the reply was the reply to THIS call)."""
    import tokens
    kind, body, _ = self.srv.call("fetch_table", "W")
    try:
      if kind == "DATA" and body[0] == "TableData" and body[1] == "W" and list(body[2]) == [1]:
        return tokens.token(body[3]["n"][0]), True
    except Exception:   # pylint: disable=broad-except
      pass
    return "?", False

  def witness(self):
    self.wn += 1
    return ["UpdateRecord", "W", 1, {"n": self.wn}]

  def has_witness(self, body):
    """The DATA reply of apply_user_actions lists the witness update among its stored actions."""
    try:
      for _env, act in body["stored"]:
        if list(act[:3]) == ["UpdateRecord", "W", 1] and act[3] == {"n": self.wn}:
          return True
    except Exception:   # pylint: disable=broad-except
      pass
    return False

  def observed(self, kind, name, args, responder=None, expect_nested=0):
    """Issue one call and record what Node can see of it."""
    w0 = self.w
    reply, body, nested = self.srv.call(name, *args, responder=responder)
    hasw = reply == "DATA" and name == "apply_user_actions" and self.has_witness(body)
    w1, sync = self.probe()
    if kind == "echo" and reply == "DATA" and body != args[0]:
      sync = False          # the reply belongs to some other call
    self.w = w1 if w1 != "?" else self.w
    return {"kind": kind, "reply": reply, "w0": w0, "w1": w1, "hasw": bool(hasw), "sync": bool(sync),
            "nested": len(nested), "text": (str(body)[:200] if reply != "DATA" else "")}, body

  def close(self):
    self.srv.close()


def convert_responder(answer, inner_results=None):
  """Node's convertFromColumn: answers the nested CALL with DATA / EXC, optionally calling back in first."""
  def responder(name, args, srv):
    if name != "convertFromColumn":
      return EXC, "unexpected external call %s" % name
    if answer == "nested":
      inner = srv.call("fetch_table", "P")
      if inner_results is not None:
        inner_results.append(inner[0])
    if answer == "EXC":
      return EXC, "conversion failed in Node"
    n = len(args[5])
    return DATA, ["c%d" % i for i in range(n)]
  return responder


def run_script(sess, script):
  """One script of MC_Rpc: a sequence of call classes, realised on the tables W / P / H."""
  calls = []
  for kind in script:
    if sess.srv.dead:
      calls.append({"kind": kind, "reply": "BROKEN", "w0": sess.w, "w1": "?", "hasw": False, "sync": False,
                    "nested": 0, "text": "server is gone"})
      continue
    inner = []
    if kind == "apply_ok":
      c, _ = sess.observed(kind, "apply_user_actions", [[sess.witness(), ["UpdateRecord", "P", 1, {"A": sess.wn}]]])
    elif kind == "apply_bad":
      c, _ = sess.observed(kind, "apply_user_actions", [[sess.witness(), ["UpdateRecord", "Nope", 1, {"A": 1}]]])
    elif kind in ("apply_ext_data", "apply_ext_exc", "apply_ext_nested"):
      answer = {"apply_ext_data": "DATA", "apply_ext_exc": "EXC", "apply_ext_nested": "nested"}[kind]
      c, _ = sess.observed(kind, "apply_user_actions",
                           [[sess.witness(), ["ConvertFromColumn", "P", "A", "C", "Text", "", 0]]],
                           responder=convert_responder(answer, inner))
      if c["nested"] != 1 or (answer == "nested" and inner != ["DATA"]):
        c["sync"] = False
    elif kind == "apply_hostile":
      c, _ = sess.observed(kind, "apply_user_actions", [[sess.witness(), ["AddRecord", "H", None, {"A": sess.wn}]]])
    elif kind == "apply_wire":
      # data of Node's for a typed cell: a list of row ids; the engine rejects a negative one (unknown temporary id)
      refs = ["L", 1] if sess.wn % 2 else ["L", -1]
      c, _ = sess.observed(kind, "apply_user_actions", [[sess.witness(), ["UpdateRecord", "P", 2, {"R": refs}]]])
    elif kind == "apply_ext_hostile":
      c, _ = sess.observed(kind, "apply_user_actions",
                           [[sess.witness(), ["ConvertFromColumn", "H", "F", "C", "Text", "", 0]]],
                           responder=convert_responder("DATA"))
    elif kind == "fetch_ok":
      c, _ = sess.observed(kind, "fetch_table", ["P"])
    elif kind == "fetch_bad":
      c, _ = sess.observed(kind, "fetch_table", ["Nope"])
    elif kind == "fetch_hostile":
      c, _ = sess.observed(kind, "fetch_table", ["H"])
    elif kind == "fetch_meta":
      c, _ = sess.observed(kind, "fetch_meta_tables", [])
    elif kind == "echo":
      sess.nonce += 1
      c, _ = sess.observed(kind, "test_echo", [["nonce", sess.nonce]])
    elif kind == "fail":
      c, _ = sess.observed(kind, "test_fail", ["on purpose"])
    elif kind == "unknown":
      c, _ = sess.observed(kind, "no_such_function", [1])
    else:
      raise SystemExit("unknown call class %r" % (kind,))
    calls.append(c)
  return calls


# ---------------------------------------------------------------------------------------------
# One hostile value: over the pipe (calls) and in-process (the cell value itself, for the round trip)
class Local(object):
  """An in-process engine with the same tables; used only to get hold of the cell value object."""
  def __init__(self):
    import adapter
    self.adapter = adapter
    self.stale = False
    self.eng = adapter.new_engine()
    for bundle in SETUP[:2]:
      adapter.apply(self.eng, bundle)

  def cell(self, table, col, row=1):
    return self.eng.tables[table].get_column(col).raw_get(row)


def value_actions(table, inp):
  """The user actions of one value case (shared by the pipe run and the in-process run)."""
  coltype = inp.get("coltype", "Any")
  if inp["mode"] == "formula":
    cols = [COL("A", "Int"), COL("V", coltype, formula_of(inp["value"])), COL("C", "Text")]
    add = {"A": 1}
  else:
    cols = [COL("A", "Int"), COL("V", coltype), COL("C", "Text")]
    add = {"A": 1, "V": to_wire(inp["value"])}
  return {"addtable": ["AddTable", table, cols], "addrecord": ["AddRecord", table, None, add],
          "update": ["UpdateRecord", table, 1, {"A": 2}],
          "convert": ["ConvertFromColumn", table, "V", "C", "Text", "", 0],
          "remove": ["RemoveTable", table]}


def run_value(sess, local, inp, k):
  table = "T%d" % k
  acts = value_actions(table, inp)
  calls = []
  steps = [("apply_hostile", "apply_user_actions", "addtable"), ("apply_hostile", "apply_user_actions", "addrecord"),
           ("fetch_hostile", "fetch_table", None), ("apply_hostile", "apply_user_actions", "update"),
           ("apply_ext_hostile", "apply_user_actions", "convert"), ("fetch_hostile", "fetch_table", None),
           ("fetch_meta", "fetch_meta_tables", None), ("apply_hostile", "apply_user_actions", "remove")]
  skip = False
  for kind, name, key in steps:
    if sess.srv.dead:
      break
    if skip and key != "remove":
      continue          # the row of this case does not exist: the remaining calls would not be valid ones
    if name == "apply_user_actions":
      if key == "addrecord" and inp["mode"] == "cell":
        kind = "apply_wire"       # the engine may refuse the data
      c, body = sess.observed(kind, name, [[sess.witness(), acts[key]]],
                              responder=convert_responder("DATA") if key == "convert" else None)
      c["step"] = key
      if key in ("addtable", "addrecord") and c["reply"] != "DATA" and c["w0"] == c["w1"]:
        skip = True
    elif name == "fetch_table":
      c, body = sess.observed(kind, name, [table])
      c["step"] = "fetch"
    else:
      c, body = sess.observed(kind, name, [])
      c["step"] = "meta"
    calls.append(c)
  # in-process: the cell value object and its round trip
  rts = []
  local_exc = ""
  try:
    local.adapter.apply(local.eng, [acts["addtable"]])
    try:
      local.adapter.apply(local.eng, [acts["addrecord"]])
      rts.append(roundtrip_record(inp["mode"], local.cell(table, "V")))
      local.adapter.apply(local.eng, [acts["update"]])
      r2 = roundtrip_record(inp["mode"] + "-recalc", local.cell(table, "V"))
      if r2["enc"] != rts[0]["enc"]:
        rts.append(r2)
    finally:
      local.adapter.apply(local.eng, [acts["remove"]])
  except Exception as e:   # pylint: disable=broad-except
    local_exc = "%s %s" % (type(e).__name__, str(e)[:200])
    local.stale = True       # an exception may leave the engine half way: the next case gets a fresh one
  return {"src": inp.get("src", "replay"), "id": inp.get("id", ""), "spec": json.dumps(inp, sort_keys=True),
          "calls": calls, "rts": rts, "local_exc": local_exc}


# ---------------------------------------------------------------------------------------------
# The catalogue (every run) and the Hypothesis strategies (seeded)
def fhex(f):
  return repr(f) if f != f or f in (float("inf"), float("-inf")) else f.hex()


I = lambda n: ["int", str(n)]
F = lambda f: ["float", fhex(f)]
S = lambda s: ["str", s]
B = lambda b: ["bytes", b.hex()]
O = lambda n: ["obj", n]
SUB = lambda c, e: ["sub", c, e]
RET = lambda e: ["ret", e]
ZONES = ["", "UTC", "America/New_York", "Asia/Kolkata", "Pacific/Auckland", "Pacific/Kiritimati", "+02:00", "-11:30"]


def DT(y, mo, d, h=0, mi=0, s=0, us=0, tz=""):
  return ["datetime", y, mo, d, h, mi, s, us, tz]


def catalogue():
  """[(name, mode, value)]: the hostile values the property's quantifier names, one by one."""
  c = []
  f = lambda name, top: c.append((name, "formula", top))
  w = lambda name, spec: c.append((name, "cell", spec))
  # subclasses of str / int / float / bytes and of containers
  f("MyStr('x')", RET(SUB("MyStr", S("x"))))
  f("MyStr(non-ascii)", RET(SUB("MyStr", S(u"é\U0001F600"))))
  f("SelfStr('x')", RET(SUB("SelfStr", S("x"))))
  f("BadStrRepr('x')", RET(SUB("BadStrRepr", S("x"))))
  f("MyInt(5)", RET(SUB("MyInt", I(5))))
  f("MyInt(2**70)", RET(SUB("MyInt", I(2 ** 70))))
  f("IntNoInt(5)", RET(SUB("IntNoInt", I(5))))
  f("MyFloat(5.5)", RET(SUB("MyFloat", F(5.5))))
  f("MyFloat(nan)", RET(SUB("MyFloat", F(float("nan")))))
  f("FloatNoFloat(1.5)", RET(SUB("FloatNoFloat", F(1.5))))
  f("MyBytes(b'ab')", RET(SUB("MyBytes", B(b"ab"))))
  f("MyBytes(b'\\xff')", RET(SUB("MyBytes", B(b"\xff"))))
  f("DecodeSub(b'ab')", RET(SUB("DecodeSub", B(b"ab"))))
  f("MyList([1, 'a'])", RET(SUB("MyList", ["list", [I(1), S("a")]])))
  f("MyTuple((1, 'a'))", RET(SUB("MyTuple", ["tuple", [I(1), S("a")]])))
  f("MyDict({'a': 1})", RET(SUB("MyDict", ["dict", [[S("a"), I(1)]]])))
  f("IntEnum member", RET(O("intenum")))
  f("str-Enum member", RET(O("strenum")))
  f("Enum member", RET(O("enum")))
  # dicts with odd keys
  f("{1: 2}", RET(["dict", [[I(1), I(2)]]]))
  f("{None: 1}", RET(["dict", [[["none"], I(1)]]]))
  f("{(1, 2): 3}", RET(["dict", [[["tuple", [I(1), I(2)]], I(3)]]]))
  f("{b'k': 1}", RET(["dict", [[B(b"k"), I(1)]]]))
  f("{'a': 1, 2: 3}", RET(["dict", [[S("a"), I(1)], [I(2), I(3)]]]))
  f("{MyStr('k'): 1}", RET(["dict", [[SUB("MyStr", S("k")), I(1)]]]))
  f("{str-Enum member: 1}", RET(["dict", [[O("strenum"), I(1)]]]))
  f("{'k': {MyStr('k'): 1}}", RET(["dict", [[S("k"), ["dict", [[SUB("MyStr", S("k")), I(1)]]]]]]))
  f("[{MyStr('k'): 1}]", RET(["list", [["dict", [[SUB("MyStr", S("k")), I(1)]]]]]))
  f("{'': 1, '\\x00': 2, lone surrogate: 3}", RET(["dict", [[S(""), I(1)], [S("\x00"), I(2)], [S(u"\ud800"), I(3)]]]))
  f("{'a': {1, 2}}", RET(["dict", [[S("a"), ["set", [I(1), I(2)]]]]]))
  f("OrderedDict", RET(O("ordereddict")))
  f("defaultdict", RET(O("defaultdict")))
  f("Counter", RET(O("counter")))
  # sets, frozensets
  f("{1, 2}", RET(["set", [I(1), I(2)]]))
  f("set()", RET(["set", []]))
  f("frozenset(['a'])", RET(["frozenset", [S("a")]]))
  f("[{1}, frozenset()]", RET(["list", [["set", [I(1)]], ["frozenset", []]]]))
  # integers and floats
  for n in (2 ** 31 - 1, 2 ** 31, -2 ** 31, -2 ** 31 - 1, 2 ** 53 + 1, 2 ** 63, 2 ** 64, 2 ** 70, -2 ** 70, 2 ** 1024):
    f("int %d" % n if abs(n) < 2 ** 71 else "int 2**1024", RET(I(n)))
  f("10**5000", RET(["pow", 10, 5000]))
  f("[2**70, -2**70]", RET(["list", [I(2 ** 70), I(-2 ** 70)]]))
  for x in (float("nan"), float("inf"), float("-inf"), -0.0, 5e-324, 1.7976931348623157e308, 2.0 ** 53, 0.1):
    f("float %r" % x, RET(F(x)))
  f("[nan, inf, -inf]", RET(["list", [F(float("nan")), F(float("inf")), F(float("-inf"))]]))
  f("True", RET(["bool", True]))
  f("None", RET(["none"]))
  # text and bytes
  for s in ("", "x", u"é", u"\U0001F600", u"\ud800", u"\udfff\ud800", "\x00", "a\x00b", "x" * 70000, "L", "\n\t\\'\""):
    f("str %s" % ascii(s)[:24], RET(S(s)))
  for b in (b"", b"ab", b"\xff", b"\x00", b"\xc3\xa9", b"\xed\xa0\x80"):
    f("bytes %r" % b, RET(B(b)))
  f("bytearray", RET(O("bytearray")))
  f("memoryview", RET(O("memoryview")))
  # containers: empty, code-like, nested, recursive, deep
  f("[]", RET(["list", []]))
  f("()", RET(["tuple", []]))
  f("{}", RET(["dict", []]))
  f("['L', 1]", RET(["list", [S("L"), I(1)]]))
  f("['D', 0, 'UTC']", RET(["list", [S("D"), I(0), S("UTC")]]))
  f("('E', 'x')", RET(["tuple", [S("E"), S("x")]]))
  f("[[], [[]], ()]", RET(["list", [["list", []], ["list", [["list", []]]], ["tuple", []]]]))
  f("[None, True, 1, 1.5, 'a', b'b']", RET(["list", [["none"], ["bool", True], I(1), F(1.5), S("a"), B(b"b")]]))
  f("recursive list", RET(O("reclist")))
  f("recursive dict", RET(O("recdict")))
  f("recursive tuple in list", RET(O("rectuple")))
  for n in (50, 200, 900, 1100, 2500):
    f("%d-deep list" % n, RET(["deep", n, "list"]))
  f("200-deep tuple", RET(["deep", 200, "tuple"]))
  f("200-deep dict", RET(["deep", 200, "dict"]))
  f("600-deep dict", RET(["deep", 600, "dict"]))
  f("900-deep dict", RET(["deep", 900, "dict"]))
  f("990-deep dict", RET(["deep", 990, "dict"]))
  f("[990-deep dict]", RET(["list", [["deep", 990, "dict"]]]))
  f("namedtuple", RET(O("namedtuple")))
  f("deque", RET(O("deque")))
  f("range(3)", RET(O("range")))
  # dates and datetimes
  for d in ((2020, 2, 29), (1, 1, 1), (9999, 12, 31), (1969, 12, 31), (1970, 1, 1)):
    f("date%r" % (d,), RET(["date"] + list(d)))
  f("naive datetime", RET(DT(2020, 1, 2, 3, 4, 5, 678901)))
  f("datetime.min", RET(DT(1, 1, 1)))
  f("datetime.max", RET(DT(9999, 12, 31, 23, 59, 59, 999999)))
  f("datetime max - 1 s", RET(DT(9999, 12, 31, 23, 59, 58, 999999)))
  for tz in ZONES[1:]:
    f("datetime %s" % tz, RET(DT(2020, 3, 8, 2, 30, 0, 1, tz)))
  f("datetime.min New_York", RET(DT(1, 1, 1, 0, 0, 0, 0, "America/New_York")))
  f("datetime.min Kolkata", RET(DT(1, 1, 1, 0, 0, 0, 0, "Asia/Kolkata")))
  f("datetime.max New_York", RET(DT(9999, 12, 31, 23, 0, 0, 0, "America/New_York")))
  f("datetime.max Kolkata", RET(DT(9999, 12, 31, 23, 0, 0, 0, "Asia/Kolkata")))
  f("datetime.max +02:00", RET(DT(9999, 12, 31, 23, 0, 0, 0, "+02:00")))
  f("[date, datetime]", RET(["list", [["date", 2020, 1, 1], DT(2020, 1, 1, 12, 0, 0, 0, "Pacific/Auckland")]]))
  f("time", RET(O("time")))
  f("timedelta", RET(O("timedelta")))
  # records, record sets, engine objects
  for n in ("rec", "lookupone", "lookupmissing", "all", "lookuprecords", "lookupnone", "reccol", "recid", "table",
            "usertable", "alttext", "alttextsub", "pending", "censored", "unmarshallable", "recordstub",
            "recordsetstub", "raisedexc", "recordlist"):
    f(n, RET(O(n)))
  f("[rec, W.all]", RET(["list", [O("rec"), O("all")]]))
  f("{'r': rec}", RET(["dict", [[S("r"), O("rec")]]]))
  # errors with hostile args
  f("1/0", ["raise", "ZeroDivisionError", []])
  f("bytes.decode error", ["raise", "UnicodeDecodeError5", []])
  f("ValueError()", ["raise", "ValueError", []])
  f("ValueError('x')", ["raise", "ValueError", [S("x")]])
  f("ValueError(MyStr('x'))", ["raise", "ValueError", [SUB("MyStr", S("x"))]])
  f("ValueError(SelfStr('x'))", ["raise", "ValueError", [SUB("SelfStr", S("x"))]])
  f("ValueError({1, 2}, 2**70, b'\\xff')", ["raise", "ValueError", [["set", [I(1), I(2)]], I(2 ** 70), B(b"\xff")]])
  f("ValueError(recursive list)", ["raise", "ValueError", [O("reclist")]])
  f("ValueError(BadRepr())", ["raise", "ValueError", [O("badrepr")]])
  f("KeyError(lone surrogate)", ["raise", "KeyError", [S(u"\ud800")]])
  f("TypeError('x' * 70000)", ["raise", "TypeError", [S("x" * 70000)]])
  f("exception whose str() is a str subclass", ["raise", "StrErr", []])
  f("exception whose str() raises", ["raise", "BadStrErr", []])
  f("exception class named by a str subclass", ["raise", "SubNameErr", []])
  f("RecursionError()", ["raise", "RecursionError", []])
  f("exception instance as a value", RET(O("exception")))
  # generators, functions, classes, odd reprs
  for n in ("generator", "genexpr", "lambda", "builtin", "class", "localclass", "module", "ellipsis", "notimplemented",
            "complex", "decimal", "fraction", "type_none", "iter", "dictkeys", "slice", "property", "object",
            "reprsub", "badrepr", "badeq", "reprlong", "reprnonascii"):
    f(n, RET(O(n)))
  f("[ReprSub()]", RET(["list", [O("reprsub")]]))
  f("{'k': BadRepr()}", RET(["dict", [[S("k"), O("badrepr")]]]))
  # what Node can put into a data cell: encoded forms with hostile arguments
  L = lambda *a: ["list", list(a)]
  w("wire 2**70", I(2 ** 70))
  w("wire nan", F(float("nan")))
  w("wire bytes", B(b"\xff\x00"))
  w("wire lone surrogate", S(u"\ud800"))
  w("wire ['D', 1e300, 'UTC']", L(S("D"), F(1e300), S("UTC")))
  w("wire ['D', nan, 'UTC']", L(S("D"), F(float("nan")), S("UTC")))
  w("wire ['D', 0, 'No/Zone']", L(S("D"), I(0), S("No/Zone")))
  w("wire ['D', 0]", L(S("D"), I(0)))
  w("wire ['D', 253402300800, 'UTC']", L(S("D"), I(253402300800), S("UTC")))
  w("wire ['D', -62135596800, 'Asia/Kolkata']", L(S("D"), I(-62135596800), S("Asia/Kolkata")))
  w("wire ['D', 1.5, 'America/New_York']", L(S("D"), F(1.5), S("America/New_York")))
  w("wire ['d', inf]", L(S("d"), F(float("inf"))))
  w("wire ['d', 86400.5]", L(S("d"), F(86400.5)))
  w("wire ['d', 'x']", L(S("d"), S("x")))
  w("wire ['E']", L(S("E")))
  w("wire ['E', 'ValueError', 'm', 'details', {'u': ['L', 2**70]}]",
    L(S("E"), S("ValueError"), S("m"), S("details"), ["dict", [[S("u"), L(S("L"), I(2 ** 70))]]]))
  w("wire ['E', None, None, None, {}]", L(S("E"), ["none"], ["none"], ["none"], ["dict", []]))
  w("wire ['E', 1, 2, 3, 4]", L(S("E"), I(1), I(2), I(3), I(4)))
  w("wire ['L']", L(S("L")))
  w("wire ['L', ['L', ['O', {}]]]", L(S("L"), L(S("L"), L(S("O"), ["dict", []]))))
  w("wire ['O', {1: 2}]", L(S("O"), ["dict", [[I(1), I(2)]]]))
  w("wire ['O', {'a': ['d', 0]}]", L(S("O"), ["dict", [[S("a"), L(S("d"), I(0))]]]))
  w("wire ['O', 5]", L(S("O"), I(5)))
  w("wire ['R', 'W', 1]", L(S("R"), S("W"), I(1)))
  w("wire ['R', 'W', 'x']", L(S("R"), S("W"), S("x")))
  w("wire ['R']", L(S("R")))
  w("wire ['r', 'W', [1, 'a', None]]", L(S("r"), S("W"), L(I(1), S("a"), ["none"])))
  w("wire ['r', 'W', 'abc']", L(S("r"), S("W"), S("abc")))
  w("wire ['U', 'x']", L(S("U"), S("x")))
  w("wire ['U', ['L', 1]]", L(S("U"), L(S("L"), I(1))))
  w("wire ['U']", L(S("U")))
  w("wire ['P']", L(S("P")))
  w("wire ['C', 1]", L(S("C"), I(1)))
  w("wire ['l', 'x', {'raw': 'y'}]", L(S("l"), S("x"), ["dict", [[S("raw"), S("y")]]]))
  w("wire ['X', 1]", L(S("X"), I(1)))
  w("wire []", L())
  w("wire [1, 2]", L(I(1), I(2)))
  w("wire [['L']]", L(L(S("L"))))
  w("wire {'a': 1}", ["dict", [[S("a"), I(1)]]])
  w("wire 200-deep ['L', ...]", ["deep", 200, "list"])
  w("wire 990-deep ['L', ...]", ["deep", 990, "list"])
  w("wire 1500-deep ['L', ...]", ["deep", 1500, "list"])
  w("wire 300-deep ['O', ...]", ["deep", 300, "dict"])
  return c


COLTYPES = ["Any", "Text", "Numeric", "Int", "Bool", "Date", "DateTime:America/New_York", "Choice", "ChoiceList",
            "Ref:W", "RefList:W", "Attachments"]


def strategies():
  from hypothesis import strategies as st
  ints = st.one_of(st.integers(-3, 3), st.integers(-2 ** 40, 2 ** 40), st.integers(-2 ** 80, 2 ** 80),
                   st.sampled_from([2 ** 31 - 1, 2 ** 31, -2 ** 31, -2 ** 31 - 1, 2 ** 53, 2 ** 63, 2 ** 64, 2 ** 70,
                                    -2 ** 70, 10 ** 30, 2 ** 1024])).map(I)
  floats = st.one_of(st.floats(), st.floats(-10, 10), st.sampled_from([-0.0, 2.0 ** 31, 2.0 ** 53, 1e308, 5e-324])).map(F)
  texts = st.one_of(st.text(max_size=6), st.text(alphabet=st.characters(), max_size=4),
                    st.sampled_from(["", "L", "D", "E", "O", "U", "UTC", "W", "a", u"\ud800", "\x00", u"é"]))
  text = texts.map(S)
  byts = st.one_of(st.binary(max_size=5), st.sampled_from([b"", b"\xff", b"ab", b"\xc3\xa9"])).map(B)
  simple = st.one_of(st.just(["none"]), st.booleans().map(lambda b: ["bool", b]), ints, floats, text, byts)
  dates = st.dates().map(lambda d: ["date", d.year, d.month, d.day])
  naive = st.datetimes()
  edge = st.sampled_from([(1, 1, 1, 0, 0, 0, 0), (1, 1, 1, 13, 0, 0, 0), (9999, 12, 31, 23, 59, 59, 999999),
                          (9999, 12, 31, 9, 0, 0, 0), (9999, 12, 31, 23, 59, 59, 999980)])
  dts = st.one_of(
    st.tuples(naive, st.sampled_from(ZONES)).map(
      lambda p: DT(p[0].year, p[0].month, p[0].day, p[0].hour, p[0].minute, p[0].second, p[0].microsecond, p[1])),
    st.tuples(edge, st.sampled_from(ZONES)).map(lambda p: DT(*(list(p[0]) + [p[1]]))))
  objs = st.sampled_from(sorted(OBJECTS)).map(O)
  subs = st.one_of(
    st.tuples(st.sampled_from(["MyStr", "SelfStr", "BadStrRepr"]), text).map(lambda p: SUB(p[0], p[1])),
    st.tuples(st.sampled_from(["MyInt", "IntNoInt"]), ints).map(lambda p: SUB(p[0], p[1])),
    st.tuples(st.sampled_from(["MyFloat", "FloatNoFloat"]), floats).map(lambda p: SUB(p[0], p[1])),
    st.tuples(st.sampled_from(["MyBytes", "DecodeSub"]), byts).map(lambda p: SUB(p[0], p[1])))
  hashable = st.one_of(simple, subs, dates, st.sampled_from(["strenum", "intenum", "enum", "rec", "badeq"]).map(O),
                       st.lists(simple, max_size=2).map(lambda l: ["tuple", l]))
  deep = st.tuples(st.sampled_from([10, 100, 200, 400, 980, 1000, 1200]), st.sampled_from(["list", "tuple", "dict"])
                   ).map(lambda p: ["deep", p[0], p[1]])
  atoms = st.one_of(simple, simple, subs, subs, dates, dts, dts, objs, objs, deep)
  key = lambda s: json.dumps(s, sort_keys=True)

  def extend(children):
    return st.one_of(
      st.lists(children, max_size=4).map(lambda l: ["list", l]),
      st.lists(children, max_size=4).map(lambda l: ["tuple", l]),
      st.lists(st.tuples(hashable, children), max_size=3, unique_by=lambda p: key(p[0])).map(
        lambda l: ["dict", [list(p) for p in l]]),
      st.lists(st.tuples(text, children), max_size=3, unique_by=lambda p: key(p[0])).map(
        lambda l: ["dict", [list(p) for p in l]]),
      st.lists(hashable, max_size=3, unique_by=key).map(lambda l: ["set", l]),
      st.lists(hashable, max_size=3, unique_by=key).map(lambda l: ["frozenset", l]),
      st.tuples(st.sampled_from(["MyList", "MyTuple"]), st.lists(children, max_size=3)).map(
        lambda p: SUB(p[0], [("list" if p[0] == "MyList" else "tuple"), p[1]])),
      st.lists(st.tuples(text, children), max_size=2, unique_by=lambda p: key(p[0])).map(
        lambda l: SUB("MyDict", ["dict", [list(p) for p in l]])))
  values = st.recursive(atoms, extend, max_leaves=6)
  raises = st.tuples(st.sampled_from(sorted(RAISABLE)), st.lists(values, max_size=2)).map(
    lambda p: ["raise", p[0], p[1]])
  tops = st.one_of(values.map(RET), values.map(RET), values.map(RET), raises)

  # what Node can send: plain data, often shaped like an encoded object
  wsimple = st.one_of(st.just(["none"]), st.booleans().map(lambda b: ["bool", b]), ints, floats, text, byts)
  codes = st.sampled_from(["D", "d", "E", "L", "O", "R", "r", "U", "P", "C", "l", "S", "V", "k", "X", ""]).map(S)

  def wextend(children):
    lst = st.lists(children, max_size=4)
    return st.one_of(
      lst.map(lambda l: ["list", l]),
      st.tuples(codes, lst).map(lambda p: ["list", [p[0]] + p[1]]),
      st.tuples(codes, lst).map(lambda p: ["list", [p[0]] + p[1]]),
      st.tuples(st.one_of(ints, floats), st.sampled_from(ZONES + ["No/Zone"])).map(
        lambda p: ["list", [S("D"), p[0], S(p[1])]]),
      st.one_of(ints, floats).map(lambda x: ["list", [S("d"), x]]),
      st.tuples(text, st.one_of(text, st.just(["none"])), st.one_of(text, st.just(["none"])), children).map(
        lambda p: ["list", [S("E"), p[0], p[1], p[2], ["dict", [[S("u"), p[3]]]]]]),
      st.tuples(st.sampled_from(["W", "T", ""]), children).map(lambda p: ["list", [S("R"), S(p[0]), p[1]]]),
      st.tuples(st.sampled_from(["W", "T", ""]), children).map(lambda p: ["list", [S("r"), S(p[0]), p[1]]]),
      st.lists(st.tuples(st.one_of(text, text, ints, st.just(["none"])), children), max_size=3,
               unique_by=lambda p: key(p[0])).map(lambda l: ["dict", [list(p) for p in l]]),
      st.lists(st.tuples(text, children), max_size=3, unique_by=lambda p: key(p[0])).map(
        lambda l: ["list", [S("O"), ["dict", [list(p) for p in l]]]]))
  # (Node's own marshal.dumps must accept the action: ['O', {'k': ..}] costs two levels per nesting)
  wdeep = deep.filter(lambda d: d[2] == "list" or (d[2] == "dict" and d[1] <= 400))
  wires = st.recursive(st.one_of(wsimple, wdeep), wextend, max_leaves=6)
  coltypes = st.one_of(st.just("Any"), st.just("Any"), st.sampled_from(COLTYPES))
  return st.one_of(
    st.tuples(st.just("formula"), tops, coltypes),
    st.tuples(st.just("formula"), tops, coltypes),
    st.tuples(st.just("cell"), wires, coltypes))


def generate(seed_value, count):
  import warnings
  from hypothesis import given, settings, seed, HealthCheck, Phase
  warnings.simplefilter("ignore")
  out = []

  @seed(seed_value)
  @settings(max_examples=count, database=None, deadline=None, phases=[Phase.generate],
            suppress_health_check=list(HealthCheck))
  @given(strategies())
  def collect(x):
    out.append({"mode": x[0], "value": x[1], "coltype": x[2], "src": "hyp"})
  collect()   # pylint: disable=no-value-for-parameter
  for j, o in enumerate(out):
    o["id"] = "hyp %d/%d" % (seed_value, j)
  return out


def catalogue_inputs(coltypes):
  out = []
  for name, mode, value in catalogue():
    for t in coltypes:
      out.append({"mode": mode, "value": value, "coltype": t, "src": "cat", "id": "%s in %s" % (name, t)})
  return out


# ---------------------------------------------------------------------------------------------
def main():
  args = json.loads(sys.argv[1])
  if args.get("catalogue_out"):
    json.dump(catalogue_inputs(args["coltypes"]), open(args["catalogue_out"], "w"))
    return
  inputs = []
  for inp in json.load(open(args["inp"])):
    if "hyp" in inp:
      inputs.extend(generate(inp["hyp"], inp["n"]))
    else:
      inputs.append(inp)
  local = None
  sess = None
  cases = []
  k = 0
  restarts = 0
  for inp in inputs:
    if sess is None or sess.srv.dead:
      if sess is not None:
        sess.close()
      sess = Session()
      restarts += 1
    if "script" in inp:
      calls = run_script(sess, inp["script"])
      cases.append({"src": "enum", "id": "script " + " ".join(inp["script"]), "spec": json.dumps(inp, sort_keys=True),
                    "calls": calls, "rts": [], "local_exc": ""})
      continue
    if inp["mode"] == "cell":
      try:
        marshal.dumps(to_wire(inp["value"]), 2)
      except ValueError:
        continue        # Node could not send this action either (nested deeper than marshal allows)
    if local is None or local.stale:
      local = Local()
    k += 1
    case = run_value(sess, local, inp, k)
    cases.append(case)
    last = case["calls"][-1] if case["calls"] else None
    if last is None or last.get("step") != "remove" or last["w0"] == last["w1"] or last["w1"] == "?":
      # the table of this case may still be there: do not let it leak into the next case
      sess.close()
      sess = None
  if sess is not None:
    sess.close()
  json.dump(cases, open(args["out"], "w"))


if __name__ == "__main__":
  main()
