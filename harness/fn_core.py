"""
Worker for the S->C binding of spec/Core.tla: every (state, action) case is loaded into the real
engine, the action is applied, then undone; what the engine reports before / after / after the undo
is recorded judgement-free for spec/Trace_Core.tla.
argv[1] = JSON {"inp": cases file, "out": results file}
The cases file is a list [{"S": state, "as": [action] or [action, action]}, ...] (states and actions exactly as MC_Core
exported them); the results file is the same list with the observations added.  One engine serves `REUSE` consecutive cases: each case first
brings P and O to the case's state through ordinary record removals and additions (so the engine's own
maintenance of the reverse column, the lookups and the summary table is what builds the derived
values), which also makes a replay of a chunk deterministic.
"""
import json
import sys

import adapter
import actions

REUSE = 200
ODD = -999


def build():
  eng = adapter.new_engine()
  adapter.apply(eng, [['InitNewDoc']])
  adapter.apply(eng, [['AddTable', 'P', [{'id': 'name', 'type': 'Text', 'isFormula': False, 'formula': ''}]]])
  adapter.apply(eng, [['AddTable', 'O', [{'id': 'who', 'type': 'Ref:P', 'isFormula': False, 'formula': ''},
                                         {'id': 'kind', 'type': 'Text', 'isFormula': False, 'formula': ''},
                                         {'id': 'amt', 'type': 'Int', 'isFormula': False, 'formula': ''}]]])
  ret = adapter.apply(eng, [['AddReverseColumn', 'O', 'who']])["retValues"][0]
  if ret.get("colId") != "O":
    raise adapter.MachineryError("reverse column is called %r" % (ret,))
  adapter.apply(eng, [['AddColumn', 'O', 'wname', {'type': 'Any', 'isFormula': True, 'formula': '$who.name'}]])
  adapter.apply(eng, [['AddColumn', 'P', 'total', {'type': 'Any', 'isFormula': True,
                                                   'formula': 'SUM(r.amt for r in O.lookupRecords(who=$id))'}]])
  tabs = eng.fetch_table('_grist_Tables')
  tref = {t: r for r, t in zip(tabs.row_ids, tabs.columns['tableId'])}
  cols = eng.fetch_table('_grist_Tables_column')
  cref = {(p, c): r for r, p, c in zip(cols.row_ids, cols.columns['parentId'], cols.columns['colId'])}
  adapter.apply(eng, [['CreateViewSection', tref['O'], 0, 'record', [cref[(tref['O'], 'kind')]], None]])
  adapter.apply(eng, [['AddColumn', 'O_summary_kind', 'total', {'type': 'Any', 'isFormula': True,
                                                               'formula': 'SUM($group.amt)'}]])
  return eng


def _int(v):
  if isinstance(v, bool) or not isinstance(v, (int, float)) or v != int(v) or abs(v) > 10 ** 6:
    return ODD
  return int(v)


def _str(v):
  return v if isinstance(v, str) and v.isascii() and len(v) < 20 else "?"


def _ints(v):
  if v is None:
    return []
  if isinstance(v, (list, tuple)) and len(v) > 0 and v[0] == 'L':
    return [_int(x) for x in v[1:]]
  return [ODD]


def observe(eng):
  d = {}
  for t in ('P', 'O', 'O_summary_kind'):
    if t in eng.tables:
      enc = actions.encode_objects(eng.fetch_table(t))
      d[t] = (list(enc.row_ids), {c: list(v) for c, v in enc.columns.items()})
  out = {"p": [], "o": [], "s": [], "odd": ""}
  try:
    rows, c = d['P']
    for i, r in enumerate(rows):
      out["p"].append({"r": int(r), "name": _str(c['name'][i]), "total": _int(c['total'][i]),
                       "orders": _ints(c['O'][i])})
    rows, c = d['O']
    for i, r in enumerate(rows):
      out["o"].append({"r": int(r), "who": _int(c['who'][i]), "kind": _str(c['kind'][i]), "amt": _int(c['amt'][i]),
                       "wname": _str(c['wname'][i])})
    rows, c = d['O_summary_kind']
    for i, r in enumerate(rows):
      out["s"].append({"kind": _str(c['kind'][i]), "count": _int(c['count'][i]), "amt": _int(c['amt'][i]),
                       "total": _int(c['total'][i]), "group": _ints(c['group'][i])})
  except KeyError as e:
    out["odd"] = "missing %s" % (e,)
  return out


def load(eng, S):
  """Bring the engine's P and O to state S through ordinary record removals and additions."""
  pids = [i + 1 for i, r in enumerate(S["p"]) if r["ex"]]
  oids = [i + 1 for i, r in enumerate(S["o"]) if r["ex"]]
  uas = []
  old_o = sorted(eng.tables['O'].row_ids)
  old_p = sorted(eng.tables['P'].row_ids)
  if old_o:
    uas.append(['BulkRemoveRecord', 'O', old_o])
  if old_p:
    uas.append(['BulkRemoveRecord', 'P', old_p])
  if pids:
    uas.append(['BulkAddRecord', 'P', pids, {'name': [S["p"][i - 1]["name"] for i in pids]}])
  if oids:
    uas.append(['BulkAddRecord', 'O', oids, {'who': [S["o"][i - 1]["who"] for i in oids],
                                              'kind': [S["o"][i - 1]["kind"] for i in oids],
                                              'amt': [S["o"][i - 1]["amt"] for i in oids]}])
  if uas:
    adapter.apply(eng, uas)


def render(a):
  op, r, v, s, l = a["op"], a["r"], a["v"], a["s"], sorted(a["l"])
  if op == "AddO":
    return ['AddRecord', 'O', None, {'who': v, 'kind': s, 'amt': l[0]}]
  if op == "UpdWho":
    return ['UpdateRecord', 'O', r, {'who': v}]
  if op == "UpdKind":
    return ['UpdateRecord', 'O', r, {'kind': s}]
  if op == "UpdAmt":
    return ['UpdateRecord', 'O', r, {'amt': v}]
  if op == "RemO":
    return ['RemoveRecord', 'O', l[0]] if len(l) == 1 else ['BulkRemoveRecord', 'O', l]
  if op == "AddP":
    return ['AddRecord', 'P', None, {'name': s}]
  if op == "UpdName":
    return ['UpdateRecord', 'P', r, {'name': s}]
  if op == "RemP":
    return ['RemoveRecord', 'P', r]
  if op == "SetOrders":
    return ['UpdateRecord', 'P', r, {'O': ['L'] + l if l else None}]
  raise adapter.MachineryError("unknown op %r" % (op,))


def run_case(eng, case):
  out = {"S": case["S"], "as": case["as"], "exc": "", "uexc": "", "fail": ""}
  empty = {"p": [], "o": [], "s": [], "odd": "not reached"}
  out["before"] = out["after"] = out["undo"] = empty
  try:
    load(eng, case["S"])
    out["before"] = observe(eng)
  except Exception as e:   # pylint: disable=broad-except
    out["fail"] = "load: %s: %s" % (type(e).__name__, str(e)[:200])
    return out, False
  reply = None
  try:
    reply = adapter.apply(eng, [render(a) for a in case["as"]])      # one bundle of one or two user actions
  except Exception as e:   # pylint: disable=broad-except
    out["exc"] = type(e).__name__
  out["after"] = observe(eng)
  out["undo"] = out["after"]
  if reply is not None:
    try:
      adapter.apply(eng, [['ApplyUndoActions', reply["undo"]]])
    except Exception as e:   # pylint: disable=broad-except
      out["uexc"] = type(e).__name__
    out["undo"] = observe(eng)
  return out, True


def main():
  args = json.loads(sys.argv[1])
  spec = json.load(open(args["inp"]))
  results = []
  eng = None
  used = 0
  for case in spec:
    if eng is None or used >= REUSE:
      eng = build()
      used = 0
    res, ok = run_case(eng, case)
    used += 1
    if not ok or res["uexc"]:
      eng = None       # do not carry a broken engine into the next case
    results.append(res)
  json.dump(results, open(args["out"], "w"))


if __name__ == "__main__":
  main()
