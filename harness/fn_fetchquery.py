"""
Worker of C41: builds the designed table in a real engine, calls the real Engine.fetch_table and
records what is stored and what was returned.  argv[1] = JSON {"inp", "out", ["universe"]}.

Nothing here judges the property.  Values are transcribed type-exactly into integer codes of the
value universe of spec/FetchQuery.tla (PYVALS below mirrors FetchQuery!Universe; when the check hands
over the universe that TLC wrote, the two are compared structurally and the worker refuses to run on
a mismatch).  Values outside the universe get per-design opaque tokens >= 1000 (identity only).
"""
import json
import sys

import adapter
import objtypes

# code -> Python value; index = code.  Mirrors FetchQuery!Universe.
PYVALS = [
  0, 1, False, True, "", "a", None, [1], [1, 2],
  0.0, 1.0, 2.0, 3.0, 4.0, 5.0, 6.0, 7.0, 8.0, 1.5,
  2, 3, 4, 5, 6, 7, 8, -1,
  "b", "1",
  [], [True], [1.0, 2], [2, 1], [None],
  ["a"], [[1]], [0], [False],
  [[1.0]], [1, [2]],
]
OPAQUE = 1000


def tag(v):
  """Type-exact structural description [k, n, s, l] of a Python value, or None if not describable."""
  if v is None:
    return {"k": "z", "n": 0, "s": "", "l": []}
  if isinstance(v, bool):
    return {"k": "b", "n": 2 if v else 0, "s": "", "l": []}
  if isinstance(v, int):
    if abs(v) >= 2 ** 20:
      return None
    return {"k": "i", "n": 2 * v, "s": "", "l": []}
  if isinstance(v, float):
    if v != v or v in (float("inf"), float("-inf")) or abs(v) >= 2 ** 20 or (2 * v) != int(2 * v):
      return None
    return {"k": "f", "n": int(2 * v), "s": "", "l": []}
  if type(v) is str:    # pylint: disable=unidiomatic-typecheck
    return {"k": "s", "n": 0, "s": v, "l": []}
  if type(v) is list:   # pylint: disable=unidiomatic-typecheck
    els = [tag(x) for x in v]
    if any(e is None for e in els):
      return None
    return {"k": "l", "n": 0, "s": "", "l": els}
  return None


def _key(t):
  return json.dumps(t, sort_keys=True)


CODE_OF_TAG = {_key(tag(v)): c for c, v in enumerate(PYVALS)}
assert len(CODE_OF_TAG) == len(PYVALS)


def fresh(code):
  """A new Python object for a universe code (lists are never shared between cells and queries)."""
  return json.loads(json.dumps(PYVALS[code])) if isinstance(PYVALS[code], list) else PYVALS[code]


def encode(v):
  """What a user action carries for this value: lists as ['L', ...]."""
  if isinstance(v, list):
    return ["L"] + [encode(x) for x in v]
  return v


class Tokens(object):
  """Value -> code; universe values by their tag, anything else an opaque token per design."""
  def __init__(self):
    self.opaque = {}

  def code(self, v):
    t = tag(v)
    if t is not None:
      k = _key(t)
      c = CODE_OF_TAG.get(k)
      if c is not None:
        return c
      k = "tag:" + k
    else:
      try:
        k = type(v).__name__ + ":" + json.dumps(objtypes.encode_object(v), sort_keys=True, default=repr)
      except Exception:   # pylint: disable=broad-except
        k = type(v).__name__ + ":" + repr(v)
    return self.opaque.setdefault(k, OPAQUE + len(self.opaque))


EXTRA_COLS = {
  "none": [],
  "formula": [("F", "$A")],
  "lookup": [("F", "$A"), ("L", "len(T.lookupRecords(B=$B))")],
}


class Doc(object):
  """One engine per extra-column design; table T is refilled through ReplaceTableData."""
  def __init__(self, x):
    self.eng = adapter.new_engine()
    adapter.apply(self.eng, [["AddTable", "T", [{"id": "A", "type": "Any", "isFormula": False},
                                                {"id": "B", "type": "Any", "isFormula": False}]]])
    for cid, formula in EXTRA_COLS[x]:
      adapter.apply(self.eng, [["AddColumn", "T", cid, {"type": "Any", "isFormula": True, "formula": formula}]])
    self.dk = [{"id": "A", "fm": False}, {"id": "B", "fm": False}] + \
              [{"id": cid, "fm": True} for cid, _ in EXTRA_COLS[x]]
    self.design = None
    self.tokens = None
    self.stored = {}

  def fill(self, design):
    if design == self.design:
      return
    _, ids, rows = design
    row_ids = list(ids) if ids else list(range(1, len(rows) + 1))
    adapter.apply(self.eng, [["ReplaceTableData", "T", row_ids,
                              {"A": [encode(fresh(r[0])) for r in rows],
                               "B": [encode(fresh(r[1])) for r in rows]}]])
    self.design = design
    self.tokens = Tokens()
    self.stored = {}

  def stored_of(self, tab):
    """What the engine holds for table `tab`, read from its column objects."""
    if tab not in self.stored:
      table = self.eng.tables[tab]
      ids = [r for r in table.row_ids]
      cols = []
      for cid, col in table.all_columns.items():
        vals = []
        for r in ids:
          try:
            vals.append(self.tokens.code(col.raw_get(r)))
          except Exception as e:   # pylint: disable=broad-except
            vals.append(self.tokens.code("unreadable:" + type(e).__name__))
        cols.append({"id": cid, "h": cid[:1] == "#", "fm": bool(col.is_formula()),
                     "pv": bool(col.is_private()), "v": vals})
      self.stored[tab] = {"ids": [int(r) for r in ids], "cols": cols}
    return self.stored[tab]


def design_of(inp):
  return (inp["x"], tuple(inp["ids"]), tuple(tuple(r) for r in inp["t"]))


def main():
  args = json.loads(sys.argv[1])
  inputs = json.load(open(args["inp"]))
  if args.get("universe"):
    uni = json.load(open(args["universe"]))
    mine = [tag(v) for v in PYVALS]
    if [_key(u) for u in uni] != [_key(m) for m in mine]:
      sys.stderr.write("value universe of FetchQuery.tla and PYVALS of fn_fetchquery.py differ\n")
      sys.exit(3)
  order = sorted(range(len(inputs)), key=lambda i: design_of(inputs[i]))
  docs = {}
  cases = []
  keys = ("cases", "stored_differs_from_requested", "list_in_query", "list_in_queried_cell",
          "nonempty_strict_subset", "all_rows", "no_rows", "raised")
  all_stats = {"enum": dict.fromkeys(keys, 0), "rnd": dict.fromkeys(keys, 0)}
  for i in order:
    inp = inputs[i]
    stats = all_stats["rnd" if inp.get("rnd") else "enum"]
    x = inp["x"]
    if x not in docs:
      docs[x] = Doc(x)
    doc = docs[x]
    doc.fill(design_of(inp))
    st = doc.stored_of(inp["tab"])
    if inp["q"] or inp["e"]:
      query = {qe["c"]: [fresh(c) for c in qe["v"]] for qe in inp["q"]}
    else:
      query = None
    try:
      td = doc.eng.fetch_table(inp["tab"], formulas=inp["f"], private=inp["p"], query=query)
      out = {"rows": [int(r) for r in td.row_ids],
             "cols": [{"id": cid, "v": [doc.tokens.code(v) for v in vals]}
                      for cid, vals in td.columns.items()]}
      exc = ""
    except Exception as e:   # pylint: disable=broad-except
      out = {"rows": [], "cols": []}
      exc = type(e).__name__
      stats["raised"] += 1
    cases.append({"inp": inp, "st": st, "dk": doc.dk if inp["tab"] == "T" else [], "out": out, "exc": exc})
    # coverage bookkeeping (no judgement): which paths of the input space were visited
    stats["cases"] += 1
    by_id = {c["id"]: c["v"] for c in st["cols"]}
    if inp["tab"] == "T":
      want = sorted(zip(inp["ids"] or range(1, len(inp["t"]) + 1), [tuple(r) for r in inp["t"]]))
      have = sorted(zip(st["ids"], zip(by_id.get("A", []), by_id.get("B", []))))
      if [(a, tuple(b)) for a, b in want] != [(a, tuple(b)) for a, b in have]:
        stats["stored_differs_from_requested"] += 1
    if any(isinstance(PYVALS[c], list) for qe in inp["q"] for c in qe["v"]):
      stats["list_in_query"] += 1
    if any(c < len(PYVALS) and isinstance(PYVALS[c], list) for qe in inp["q"] for c in by_id.get(qe["c"], [])):
      stats["list_in_queried_cell"] += 1
    if not exc:
      n = len(out["rows"])
      if inp["q"] and 0 < n < len(st["ids"]):
        stats["nonempty_strict_subset"] += 1
      elif n == len(st["ids"]):
        stats["all_rows"] += 1
      elif n == 0:
        stats["no_rows"] += 1
  json.dump(cases, open(args["out"], "w"))
  json.dump(all_stats, open(args["out"] + ".stats.json", "w"))


main()
