"""
Value abstraction shared by every driver (DESIGN.md section 4.3).

TLC's Json module cannot take JSON null, truncates floats, wraps integers >= 2**31 and is fragile on
non-ASCII text. So every cell value (already encoded by the code's own objtypes.encode_object) is
mapped to an ASCII-only *string token*; equality of tokens is equality of what Node would see, with
1 and 1.0 identified (JSON / JS / SQLite do not distinguish them either).

Where a specification needs the *meaning* of a token (row ids inside Ref / RefList cells, small
integers), it reads it from a judgement-free decode table `ints` that maps a token to the sequence
of integers it denotes: "#3.0" -> <<3>>, 'L[...]' of integral numbers -> <<...>>, "n" -> <<>>.
"""
import json
import math

INT_LIMIT = 2 ** 31 - 1


def _esc(s):
  # Injective ASCII rendering of arbitrary text (backslash is escaped too).
  return s.encode('unicode_escape').decode('ascii')


def num_token(x):
  if isinstance(x, float):
    if math.isnan(x):
      return "#nan"
    if math.isinf(x):
      return "#inf" if x > 0 else "#-inf"
    if x == int(x) and abs(x) < 2 ** 53:
      return "#%d" % int(x)
    return "#" + repr(x)
  # int
  if abs(x) < 2 ** 53:
    return "#%d" % x
  return "#big%d" % x


def token(v):
  """Token (ASCII str) of an *encoded* cell value (the output of objtypes.encode_object)."""
  if v is None:
    return "n"
  if v is True:
    return "b1"
  if v is False:
    return "b0"
  if isinstance(v, (int, float)):
    return num_token(v)
  if isinstance(v, str):
    return "s" + _esc(v)
  if isinstance(v, bytes):
    return "y" + v.hex()
  if isinstance(v, (list, tuple)):
    if len(v) > 0 and isinstance(v[0], str) and len(v[0]) == 1:
      code = v[0]
      if code == 'L':
        return "L" + json.dumps([token(x) for x in v[1:]])
      if code == 'E':
        # Error: name + rest. The message/traceback text is kept (it is data Node stores).
        return "E" + json.dumps([token(x) for x in v[1:]])
      return code + json.dumps([token(x) for x in v[1:]])
    return "?" + json.dumps([token(x) for x in v])
  if isinstance(v, dict):
    return "?d" + json.dumps(sorted((token(k), token(x)) for k, x in v.items()))
  raise TypeError("cannot tokenise %r" % (v,))


def ints_of(v):
  """The integers an encoded value denotes, or None if it denotes none (see module docstring)."""
  def one(x):
    if isinstance(x, bool):
      return None
    if isinstance(x, (int, float)) and not (isinstance(x, float) and (math.isnan(x) or math.isinf(x))):
      if x == int(x) and abs(x) <= INT_LIMIT:
        return int(x)
    return None
  if v is None:
    return []
  i = one(v)
  if i is not None:
    return [i]
  if isinstance(v, (list, tuple)) and len(v) > 0 and v[0] == 'L':
    out = [one(x) for x in v[1:]]
    if all(o is not None for o in out):
      return out
  return None


class TokenTable(object):
  """
  Collects tokens seen in a trace and the judgement-free decode tables handed to TLC:
    ints[tok]  = the integers a token denotes                       ("#3" -> [3], 'L[..]' -> [..])
    elems[tok] = the element tokens of a list token                  ('L["sa","sb"]' -> ["sa","sb"])
    strs[tok]  = the raw text of an ASCII identifier-like string token ("sT1" -> "T1")
  """
  def __init__(self):
    self.ints = {}
    self.elems = {}
    self.strs = {}
    self.helpers = {}     # colId token -> "display" | "rule" (prefix classification of helper columns)

  def tok(self, v):
    t = token(v)
    if t not in self.ints:
      i = ints_of(v)
      if i is not None:
        self.ints[t] = i
    if isinstance(v, (list, tuple)) and len(v) > 0 and v[0] == 'L' and t not in self.elems:
      self.elems[t] = [self.tok(x) for x in v[1:]]
    if isinstance(v, str) and t not in self.strs and len(v) < 80 and v.isascii() and \
        v.replace('_', '').replace('#', '').isalnum():
      self.strs[t] = v
    if isinstance(v, str) and v.startswith('gristHelper_') and t not in self.helpers:
      if v.startswith('gristHelper_Display'):
        self.helpers[t] = "display"
      elif v.startswith('gristHelper_ConditionalRule') or v.startswith('gristHelper_RowConditionalRule'):
        self.helpers[t] = "rule"
    return t

  def update(self, other):
    self.ints.update(other.ints)
    self.elems.update(other.elems)
    self.strs.update(other.strs)
    self.helpers.update(other.helpers)
