"""Debug helper: re-run a generated history and print the user tables (and summary metadata) after event N.
usage: dump_event.py <profile> <seed> <n_bundles> <event index (1-based)>"""
import json, sys
import adapter, histories, record

prof, seed, nb, target = sys.argv[1], int(sys.argv[2]), int(sys.argv[3]), int(sys.argv[4])
orig_finish = record.Recorder._finish

def spy(self, ev):
  r = orig_finish(self, ev)
  n = len(self.events)
  if n in (target - 1, target):
    eng = self.eng
    print("=== after event", n, ev.get("tag"), json.dumps(ev.get("uas"))[:300], ev.get("exc"))
    tabs = eng.fetch_table('_grist_Tables')
    cols = eng.fetch_table('_grist_Tables_column')
    tn = dict(zip(tabs.row_ids, tabs.columns['tableId']))
    for r_, t, src in zip(tabs.row_ids, tabs.columns['tableId'], tabs.columns['summarySourceTable']):
      if src:
        print("summary table", r_, t, "of", tn.get(src))
        for c_, p, cid, ssc, typ in zip(cols.row_ids, cols.columns['parentId'], cols.columns['colId'], cols.columns['summarySourceCol'], cols.columns['type']):
          if p == r_:
            print("   col", c_, cid, typ, "src", ssc)
    d = adapter.fetch_all(eng)
    for t in d:
      if not t.startswith('_grist'):
        print(t, d[t][0], json.dumps(d[t][1])[:700])
  return r

record.Recorder._finish = spy
histories.run_history(seed, profile=prof, n_bundles=nb)
