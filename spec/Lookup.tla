------------------------------- MODULE Lookup -------------------------------
(***************************************************************************)
(* C13 - lookupRecords / lookupOne return exactly the matching rows in the *)
(* documented order (sandbox/grist/table.py lookup_records, lookup.py,     *)
(* sort_key.py, twowaymap.py, functions/lookup.py CONTAINS).               *)
(*                                                                         *)
(* Part 1: the admissible-output RELATION of one lookup call               *)
(*     Clauses(table, observer, probe, cell)                               *)
(* Part 2: a reference solution (insertion sort) for non-vacuity           *)
(* Part 3: a model of the EDITS of a history (what each user action does   *)
(* to the stored table), so that the design model can walk histories and   *)
(* the judge can check that the engine was in the state the model says.    *)
(*                                                                         *)
(* VALUES are tagged records of one shape [k, n, s, l]:                    *)
(*   k = "z" None | "i" int | "f" float | "b" bool | "s" str               *)
(*       "a" alt-text (a wrong-type text seen through AltText)             *)
(*       "l" list/tuple | "?" a value outside the modelled universe        *)
(*   n = TWICE the numeric value (1.5 is 3);   s = the text;               *)
(*   l = the elements of a list (tagged values)                            *)
(* Texts are atomic; their order and their reading as numbers are given by *)
(* the explicit tables below, nothing is derived from TLA+ string order.   *)
(***************************************************************************)
EXTENDS Integers, Sequences, FiniteSets

V(k, n, s) == [k |-> k, n |-> n, s |-> s, l |-> <<>>]
None    == V("z", 0, "")
I(x)    == V("i", 2 * x, "")
Fl(x2)  == V("f", x2, "")            \* the argument is twice the float
Bo(b)   == V("b", IF b THEN 2 ELSE 0, "")
St(s)   == V("s", 0, s)
Alt(s)  == V("a", 0, s)
Li(q)   == [k |-> "l", n |-> 0, s |-> "", l |-> q]
Bad     == V("?", 0, "")

IsNum(v) == v.k \in {"i", "f", "b"}

\* the texts whose ORDER is modelled, ascending in Python's str order (code points)
Texts == <<"", "1", "1.5", "2", "a", "b", "x">>
KnownText(s) == \E i \in 1..Len(Texts) : Texts[i] = s
TextRank(s)  == CHOOSE i \in 1..Len(Texts) : Texts[i] = s
\* float(s), doubled, for the texts that read as a number
Parses(s)  == s \in {"1", "1.5", "2"}
NumText(s) == CASE s = "1" -> 2 [] s = "1.5" -> 3 [] s = "2" -> 4
\* str(x) of a number as Text.do_convert / str() render it (doubled argument)
IntStr(n2)   == CASE n2 = 0 -> "0" [] n2 = 2 -> "1" [] n2 = 4 -> "2" [] n2 = 6 -> "3" [] OTHER -> "?"
FloatStr(n2) == CASE n2 = 0 -> "0.0" [] n2 = 2 -> "1.0" [] n2 = 3 -> "1.5" [] n2 = 4 -> "2.0"
                  [] n2 = 6 -> "3.0" [] OTHER -> "?"
Trunc(n2) == IF n2 >= 0 THEN n2 \div 2 ELSE -((-n2) \div 2)      \* int(float) of a doubled number

(***************************************************************************)
(* Python == on the universe: 1 = 1.0 = True; a str equals only the same   *)
(* str, an alt-text only the same alt-text, None only None; lists by       *)
(* content.  (Keys are looked up in a dict: equality plus equal hashes,    *)
(* which Python guarantees for equal values of these types.)               *)
(***************************************************************************)
RECURSIVE PyEq(_, _)
PyEq(a, b) ==
  CASE IsNum(a) /\ IsNum(b)     -> a.n = b.n
    [] a.k = "s" /\ b.k = "s"   -> a.s = b.s
    [] a.k = "a" /\ b.k = "a"   -> a.s = b.s
    [] a.k = "z" /\ b.k = "z"   -> TRUE
    [] a.k = "l" /\ b.k = "l"   -> /\ Len(a.l) = Len(b.l)
                                   /\ \A j \in 1..Len(a.l) : PyEq(a.l[j], b.l[j])
    [] OTHER                    -> FALSE

(***************************************************************************)
(* Type conversion of a KEY to the type of the looked-up column            *)
(* (usertypes.<Type>.do_convert, then the column's rich value):            *)
(* "" and None are the empty cell; a number or a text that reads as one is *)
(* converted; any other text is an alt-text and equals only the same       *)
(* alt-text stored in a cell.                                              *)
(***************************************************************************)
Falsy(v) == \/ v.k = "z" \/ (IsNum(v) /\ v.n = 0) \/ (v.k = "s" /\ v.s = "")
            \/ (v.k = "l" /\ v.l = <<>>)

ConvInt(v) ==
  CASE v.k = "z" \/ (v.k = "s" /\ v.s = "")  -> None
    [] IsNum(v)                              -> I(Trunc(v.n))
    [] v.k = "s" /\ Parses(v.s)              -> I(Trunc(NumText(v.s)))
    [] v.k = "s"                             -> Alt(v.s)
    [] OTHER                                 -> Bad
ConvNumeric(v) ==
  CASE v.k = "z" \/ (v.k = "s" /\ v.s = "")  -> None
    [] IsNum(v)                              -> Fl(v.n)
    [] v.k = "s" /\ Parses(v.s)              -> Fl(NumText(v.s))
    [] v.k = "s"                             -> Alt(v.s)
    [] OTHER                                 -> Bad
ConvText(v) ==
  CASE v.k \in {"z", "s"}                    -> v
    [] v.k = "i"                             -> St(IntStr(v.n))
    [] v.k = "f" /\ v.n % 2 = 0              -> St(IntStr(v.n))
    [] v.k = "f"                             -> St(FloatStr(v.n))
    [] v.k = "b"                             -> St(IF v.n = 2 THEN "True" ELSE "False")
    [] OTHER                                 -> Bad
ConvRef(v) ==
  CASE Falsy(v)                              -> I(0)
    [] v.k = "i"                             -> v
    [] v.k = "b"                             -> I(1)
    [] v.k = "f"                             -> Alt(FloatStr(v.n))
    [] v.k = "s"                             -> Alt(v.s)
    [] OTHER                                 -> Bad

Conv(ty, v) ==
  CASE ty = "Int"     -> ConvInt(v)
    [] ty = "Numeric" -> ConvNumeric(v)
    [] ty = "Text"    -> ConvText(v)
    [] ty = "Ref"     -> ConvRef(v)
    [] ty = "Any"     -> v
    [] OTHER          -> Bad

\* what a formula (and the lookup index) sees of a STORED cell
Rich(ty, raw) ==
  CASE ty = "Int" /\ raw.k \in {"i", "z"}             -> raw
    [] ty = "Numeric" /\ raw.k \in {"i", "f", "z"}    -> raw
    [] ty = "Text" /\ raw.k \in {"s", "z"}            -> raw
    [] ty = "Ref" /\ raw.k = "i"                      -> raw
    [] ty = "ChoiceList" /\ raw.k = "z"               -> Li(<<>>)
    [] ty = "ChoiceList" /\ raw.k = "l"               -> raw
    [] ty = "Any" /\ raw.k # "a"                      -> raw
    [] ty \in {"Int", "Numeric", "Ref"} /\ raw.k = "s" -> Alt(raw.s)
    [] OTHER                                          -> Bad

(***************************************************************************)
(* TABLES.  tab = [ty   |-> [k, L, s1, s2, r |-> type name],               *)
(*                 rows |-> << [id, pos, k, L, s1, s2, r], ... >>]         *)
(* rows ascending by id; pos = rank of the row's manualSort value.         *)
(* PROBE (a row of the observer table O) = [id, q, p].                     *)
(* OBSERVER (a formula column of O) =                                      *)
(*   [one  |-> lookupOne(...).id instead of [r.id for r in lookupRecords], *)
(*    keys |-> << [col, how, src, me] >>   how = "eq"  col=<src>           *)
(*                                               "in"  col=CONTAINS(<src>) *)
(*                                               "inme" ... match_empty=me *)
(*                                         src = "q" | "p" | "id" ($q...)  *)
(*    mode |-> "default" | "order_by" | "sort_by",                         *)
(*    ord  |-> << [c, desc] >> ]   columns of order_by / sort_by           *)
(* CELL = [e |-> error class or "", v |-> << row ids >>]                   *)
(***************************************************************************)
DataCols == {"k", "L", "s1", "s2", "r"}
OC(c, desc) == [c |-> c, desc |-> desc]

\* the sort specification the property describes
SortSpec(obs, hasms) ==
  CASE obs.mode = "default" -> <<>>
    [] obs.mode = "sort_by" -> <<obs.ord[1]>>
    [] obs.mode = "order_by" ->
         LET idAt == {p \in 1..Len(obs.ord) : obs.ord[p].c = "id" /\ ~obs.ord[p].desc}
         IN IF idAt # {}
            THEN SubSeq(obs.ord, 1, (CHOOSE p \in idAt : \A x \in idAt : p <= x) - 1)
            ELSE IF hasms /\ ~\E p \in 1..Len(obs.ord) : obs.ord[p].c = "manualSort" /\ ~obs.ord[p].desc
                 THEN Append(obs.ord, OC("manualSort", FALSE))
                 ELSE obs.ord

\* the value a row is ordered by in column c
SortVal(tab, row, c) ==
  CASE c = "manualSort" -> I(row.pos)
    [] c = "id"         -> I(row.id)
    [] c \in DataCols   -> Rich(tab.ty[c], row[c])
    [] OTHER            -> Bad

\* mutually comparable: None, or numbers, or modelled texts - within one column one class
SortClass(v) == CASE v.k = "z" -> "none" [] v.k \in {"i", "f"} -> "num"
                  [] v.k = "s" /\ KnownText(v.s) -> "text" [] OTHER -> "bad"
Comparable(tab, rows, spec) ==
  \A p \in 1..Len(spec) :
    LET cls == {SortClass(SortVal(tab, r, spec[p].c)) : r \in rows} \ {"none"}
    IN "bad" \notin cls /\ Cardinality(cls) <= 1

\* -1 / 0 / 1; None is less than everything else (sort_key.py)
Cmp(a, b) ==
  CASE a.k = "z" /\ b.k = "z"  -> 0
    [] a.k = "z"               -> -1
    [] b.k = "z"               -> 1
    [] IsNum(a) /\ IsNum(b)    -> IF a.n < b.n THEN -1 ELSE IF a.n > b.n THEN 1 ELSE 0
    [] a.k = "s" /\ b.k = "s"  -> IF TextRank(a.s) < TextRank(b.s) THEN -1
                                  ELSE IF TextRank(a.s) > TextRank(b.s) THEN 1 ELSE 0
    [] OTHER                   -> 0

\* row x comes strictly before row y: first deciding column (descending for '-'), then row id
RECURSIVE BeforeFrom(_, _, _, _, _)
BeforeFrom(tab, spec, p, x, y) ==
  IF p > Len(spec) THEN x.id < y.id
  ELSE LET c == Cmp(SortVal(tab, x, spec[p].c), SortVal(tab, y, spec[p].c))
       IN IF c = 0 THEN BeforeFrom(tab, spec, p + 1, x, y)
          ELSE IF spec[p].desc THEN c = 1 ELSE c = -1
Before(tab, spec, x, y) == BeforeFrom(tab, spec, 1, x, y)

\* ---- matching ---------------------------------------------------------------------------
KeyVal(key, probe) == CASE key.src = "q" -> probe.q [] key.src = "p" -> probe.p
                        [] key.src = "id" -> I(probe.id) [] OTHER -> Bad

\* cv = the key value as it is looked up: converted to the column's type for "eq", as given for CONTAINS
KeyConv(tab, key, probe) ==
  IF key.how = "eq" THEN Conv(tab.ty[key.col], KeyVal(key, probe)) ELSE KeyVal(key, probe)

KeyMatches(tab, row, key, cv) ==
  LET cell == Rich(tab.ty[key.col], row[key.col])
  IN IF key.how = "eq" THEN PyEq(cell, cv)
     ELSE IF cell.k # "l" THEN FALSE                     \* a text is not a container of its characters
     ELSE IF cell.l = <<>> THEN key.how = "inme" /\ PyEq(cv, key.me)
     ELSE \E j \in 1..Len(cell.l) : PyEq(cell.l[j], cv)

KeyDecidable(tab, key, probe) ==
  LET v == KeyVal(key, probe)
  IN /\ key.col \in DataCols
     /\ v.k \notin {"?", "a", "l"}
     /\ \A j \in 1..Len(tab.rows) : Rich(tab.ty[key.col], tab.rows[j][key.col]).k # "?"
     /\ IF key.how = "eq" THEN Conv(tab.ty[key.col], v).k # "?"
        ELSE /\ tab.ty[key.col] = "ChoiceList"
             /\ \A j \in 1..Len(tab.rows) : Rich("ChoiceList", tab.rows[j][key.col]).k = "l"

Matching(tab, obs, probe) ==
  LET cv == [x \in 1..Len(obs.keys) |-> KeyConv(tab, obs.keys[x], probe)]
  IN {j \in 1..Len(tab.rows) : \A x \in 1..Len(obs.keys) : KeyMatches(tab, tab.rows[j], obs.keys[x], cv[x])}

\* M = the matching rows
Decidable(tab, obs, probe, M, spec) ==
  /\ \A x \in 1..Len(obs.keys) : KeyDecidable(tab, obs.keys[x], probe)
  /\ Comparable(tab, M, spec)

RowOf(tab, id) == tab.rows[CHOOSE j \in 1..Len(tab.rows) : tab.rows[j].id = id]

Mark(cond, name) == IF cond THEN {} ELSE {name}

(***************************************************************************)
(* THE RELATION                                                            *)
(***************************************************************************)
Clauses(tab, obs, probe, cell) ==
  LET hasms == TRUE                 \* every user table has a manualSort column
      spec  == SortSpec(obs, hasms)
      M     == {tab.rows[j] : j \in Matching(tab, obs, probe)}
      ids   == {r.id : r \in M}
  IN IF ~Decidable(tab, obs, probe, M, spec) THEN {"C13.undecidable"}
     ELSE IF cell.e # "" THEN {"C13.raised"}
     ELSE IF obs.one
     THEN \* the first matching row in the documented order, or the empty record (id 0)
          Mark(/\ Len(cell.v) = 1
               /\ IF M = {} THEN cell.v[1] = 0
                  ELSE /\ cell.v[1] \in ids
                       /\ \A r \in M : r.id = cell.v[1] \/ Before(tab, spec, RowOf(tab, cell.v[1]), r),
               "C13.one")
     ELSE LET exact == /\ {cell.v[x] : x \in 1..Len(cell.v)} = ids
                       /\ Len(cell.v) = Cardinality(ids)
          IN Mark(exact, "C13.match") \cup
             (IF ~exact THEN {}
              ELSE Mark(\A x, y \in 1..Len(cell.v) :
                          x < y => Before(tab, spec, RowOf(tab, cell.v[x]), RowOf(tab, cell.v[y])),
                        "C13.order"))

Ok(tab, obs, probe, cell) == Clauses(tab, obs, probe, cell) = {}

(***************************************************************************)
(* Reference solution in another formulation: insertion sort of the        *)
(* matching rows taken in table order.                                     *)
(***************************************************************************)
RECURSIVE InsertRow(_, _, _, _)
InsertRow(tab, spec, acc, r) ==
  IF acc = <<>> THEN <<r>>
  ELSE IF Before(tab, spec, r, acc[1]) THEN <<r>> \o acc
  ELSE <<acc[1]>> \o InsertRow(tab, spec, Tail(acc), r)

RECURSIVE SortFrom(_, _, _, _, _)
SortFrom(tab, spec, M, j, acc) ==
  IF j > Len(tab.rows) THEN acc
  ELSE SortFrom(tab, spec, M, j + 1, IF j \in M THEN InsertRow(tab, spec, acc, tab.rows[j]) ELSE acc)

RefCell(tab, obs, probe) ==
  LET sorted == SortFrom(tab, SortSpec(obs, TRUE), Matching(tab, obs, probe), 1, <<>>)
      ids    == [x \in 1..Len(sorted) |-> sorted[x].id]
  IN [e |-> "", v |-> IF obs.one THEN (IF ids = <<>> THEN <<0>> ELSE <<ids[1]>>) ELSE ids]

(***************************************************************************)
(* Diagnostics for a failed cell (never part of the verdict): what the     *)
(* observed sequence WOULD fit.  dead:<c>  = the documented order if       *)
(* column c were constant;  stale = the expected result once the ids in D  *)
(* (rows dropped earlier by a ReplaceTableData) and 0 are disregarded.     *)
(***************************************************************************)
SpecWithout(spec, c) == SelectSeq(spec, LAMBDA o : o.c # c)
FitsSpec(tab, spec, obs, probe, cell) ==
  LET M   == {tab.rows[j] : j \in Matching(tab, obs, probe)}
      ids == {r.id : r \in M}
  IN IF obs.one
     THEN Len(cell.v) = 1 /\ cell.v[1] \in ids /\
          \A r \in M : r.id = cell.v[1] \/ Before(tab, spec, RowOf(tab, cell.v[1]), r)
     ELSE /\ {cell.v[x] : x \in 1..Len(cell.v)} = ids /\ Len(cell.v) = Cardinality(ids)
          /\ \A x, y \in 1..Len(cell.v) :
               x < y => Before(tab, spec, RowOf(tab, cell.v[x]), RowOf(tab, cell.v[y]))
DeadCols(tab, obs, probe, cell) ==
  {c \in {"s1", "s2"} : /\ \E p \in 1..Len(obs.ord) : obs.ord[p].c = c
                        /\ cell.e = ""
                        /\ FitsSpec(tab, SpecWithout(SortSpec(obs, TRUE), c), obs, probe, cell)}
Without(s, D) == SelectSeq(s, LAMBDA x : x \notin D)
FitsStale(tab, obs, probe, cell, D) ==
  /\ cell.e = "" /\ D # {}
  /\ LET want == RefCell(tab, obs, probe).v
     IN IF obs.one
        THEN cell.v[1] \in (D \cup {0}) \/ cell.v = want
        ELSE Without(cell.v, D \cup {0}) = Without(want, D)

(***************************************************************************)
(* Part 3: EDITS.  state = [ty, rows, probes].  An edit is one user action *)
(* on T (or on O for "probe"/"reobs"); all edits have the same shape       *)
(*   [op, row, col, val, col2, val2, cells, rows, ids]                     *)
(*   "upd"    UpdateRecord T row {col: val}                                *)
(*   "upd2"   UpdateRecord T row {col: val, col2: val2}                    *)
(*   "bupd"   BulkUpdateRecord T ids {col: cells}                          *)
(*   "add"    AddRecord / BulkAddRecord T [None...] rows (contents)        *)
(*   "rem"    RemoveRecord / BulkRemoveRecord T ids                        *)
(*   "mv"     UpdateRecord T row {manualSort: that of row val.n/2}, i.e.   *)
(*            move `row` just before that row; 0 = to the end              *)
(*   "retype" ModifyColumn T col {type: val.s}                             *)
(*   "repl"   ReplaceTableData T ids rows                                  *)
(*   "undo"   ApplyUndoActions of the previous edit (handled by States)    *)
(*   "reobs"  every observer formula is re-entered (dependencies and       *)
(*            lookup indexes are rebuilt from scratch)                     *)
(*   "probe"  UpdateRecord O row {col: val}                                *)
(* Values in edits are storable as they are (already of the column type).  *)
(* A cell update whose value is Python-equal to the stored one is dropped  *)
(* by the engine (1 over 1.0 leaves 1.0): SetCell.                         *)
(***************************************************************************)
E(op, row, col, val, col2, val2, cells, rows, ids) ==
  [op |-> op, row |-> row, col |-> col, val |-> val, col2 |-> col2, val2 |-> val2,
   cells |-> cells, rows |-> rows, ids |-> ids]
Upd(row, col, val)            == E("upd", row, col, val, "", None, <<>>, <<>>, <<>>)
Upd2(row, c1, v1, c2, v2)     == E("upd2", row, c1, v1, c2, v2, <<>>, <<>>, <<>>)
BUpd(ids, col, cells)         == E("bupd", 0, col, None, "", None, cells, <<>>, ids)
Add(rows)                     == E("add", 0, "", None, "", None, <<>>, rows, <<>>)
Rem(ids)                      == E("rem", 0, "", None, "", None, <<>>, <<>>, ids)
Mv(row, before)               == E("mv", row, "", I(before), "", None, <<>>, <<>>, <<>>)
Retype(col, ty)               == E("retype", 0, col, St(ty), "", None, <<>>, <<>>, <<>>)
Repl(ids, rows)               == E("repl", 0, "", None, "", None, <<>>, rows, ids)
Undo                          == E("undo", 0, "", None, "", None, <<>>, <<>>, <<>>)
ReObs                         == E("reobs", 0, "", None, "", None, <<>>, <<>>, <<>>)
Probe(row, col, val)          == E("probe", row, col, val, "", None, <<>>, <<>>, <<>>)

Content(k, L, s1, s2, r) == [k |-> k, L |-> L, s1 |-> s1, s2 |-> s2, r |-> r]
MkRow(id, pos, c) == [id |-> id, pos |-> pos, k |-> c.k, L |-> c.L, s1 |-> c.s1, s2 |-> c.s2, r |-> c.r]
\* (the engine drops an update whose value is == the stored one: 1 over 1.0 leaves 1.0)
SetCell(row, c, v) == IF PyEq(row[c], v) THEN row ELSE [row EXCEPT ![c] = v]

Types0 == [k |-> "Int", L |-> "ChoiceList", s1 |-> "Int", s2 |-> "Text", r |-> "Ref"]

SeqMax(s, f(_)) == IF s = <<>> THEN 0
                   ELSE LET S == {f(s[j]) : j \in 1..Len(s)} IN CHOOSE m \in S : \A x \in S : x <= m
MaxId(rows)  == SeqMax(rows, LAMBDA r : r.id)
MaxPos(rows) == SeqMax(rows, LAMBDA r : r.pos)
HasId(rows, id) == \E j \in 1..Len(rows) : rows[j].id = id
IdSet(rows) == {rows[j].id : j \in 1..Len(rows)}

RECURSIVE AppendRows(_, _, _)
AppendRows(rows, contents, j) ==
  IF j > Len(contents) THEN rows
  ELSE AppendRows(Append(rows, MkRow(MaxId(rows) + 1, MaxPos(rows) + 1, contents[j])), contents, j + 1)

\* rows in ascending id order (what fetch_table returns)
RECURSIVE ById(_)
ById(S) == IF S = {} THEN <<>>
           ELSE LET m == CHOOSE r \in S : \A x \in S : r.id <= x.id IN <<m>> \o ById(S \ {m})

\* an Int <-> Numeric type change converts the stored numbers
ConvStored(ty, v) == CASE v.k = "i" /\ ty = "Numeric" -> Fl(v.n)
                       [] v.k = "f" /\ ty = "Int" /\ v.n % 2 = 0 -> V("i", v.n, "")
                       [] OTHER -> v

IdxOf(s, x) == CHOOSE j \in 1..Len(s) : s[j] = x

ApplyEdit(st, e) ==
  LET rows == st.rows
      Map(f(_)) == [j \in 1..Len(rows) |-> f(rows[j])]
  IN CASE e.op = "upd" ->
            [st EXCEPT !.rows = Map(LAMBDA r : IF r.id = e.row THEN SetCell(r, e.col, e.val) ELSE r)]
       [] e.op = "upd2" ->
            [st EXCEPT !.rows = Map(LAMBDA r : IF r.id = e.row
                                               THEN SetCell(SetCell(r, e.col, e.val), e.col2, e.val2) ELSE r)]
       [] e.op = "bupd" ->
            [st EXCEPT !.rows = Map(LAMBDA r : IF \E x \in 1..Len(e.ids) : e.ids[x] = r.id
                                               THEN SetCell(r, e.col, e.cells[IdxOf(e.ids, r.id)]) ELSE r)]
       [] e.op = "add" -> [st EXCEPT !.rows = AppendRows(rows, e.rows, 1)]
       [] e.op = "rem" ->
            [st EXCEPT !.rows = SelectSeq(rows, LAMBDA r : ~\E x \in 1..Len(e.ids) : e.ids[x] = r.id)]
       [] e.op = "mv" ->
            LET b == e.val.n \div 2
            IN IF b = 0
               THEN [st EXCEPT !.rows = Map(LAMBDA r : IF r.id = e.row THEN [r EXCEPT !.pos = MaxPos(rows) + 1] ELSE r)]
               ELSE LET at == RowOf(st, b).pos
                    IN [st EXCEPT !.rows = Map(LAMBDA r : IF r.id = e.row THEN [r EXCEPT !.pos = at]
                                                          ELSE IF r.pos >= at THEN [r EXCEPT !.pos = r.pos + 1]
                                                          ELSE r)]
       [] e.op = "retype" ->
            [st EXCEPT !.ty = [st.ty EXCEPT ![e.col] = e.val.s],
                       !.rows = Map(LAMBDA r : [r EXCEPT ![e.col] = ConvStored(e.val.s, r[e.col])])]
       [] e.op = "repl" ->
            [st EXCEPT !.rows = ById({MkRow(e.ids[x], x, e.rows[x]) : x \in 1..Len(e.ids)})]
       [] e.op = "probe" ->
            [st EXCEPT !.probes = [j \in 1..Len(st.probes) |->
                                     IF st.probes[j].id = e.row THEN SetCell(st.probes[j], e.col, e.val)
                                     ELSE st.probes[j]]]
       [] e.op = "reobs" -> st

\* is the edit one the model (and the worker) can carry out in this state
Applicable(st, e) ==
  LET rows == st.rows
      AllIn(ids) == \A x \in 1..Len(ids) : HasId(rows, ids[x])
      Distinct(ids) == \A x, y \in 1..Len(ids) : x # y => ids[x] # ids[y]
  IN CASE e.op \in {"upd", "upd2"} -> HasId(rows, e.row)
       [] e.op = "bupd" -> AllIn(e.ids) /\ Distinct(e.ids) /\ Len(e.cells) = Len(e.ids) /\ e.ids # <<>>
       [] e.op = "add"  -> e.rows # <<>>
       [] e.op = "rem"  -> AllIn(e.ids) /\ Distinct(e.ids) /\ e.ids # <<>>
       [] e.op = "mv"   -> HasId(rows, e.row) /\ (e.val.n = 0 \/ (HasId(rows, e.val.n \div 2) /\ e.val.n \div 2 # e.row))
       [] e.op = "retype" -> e.col \in {"s1"} /\ e.val.s \in {"Int", "Numeric"}
       [] e.op = "repl" -> Distinct(e.ids) /\ Len(e.rows) = Len(e.ids) /\ \A x \in 1..Len(e.ids) : e.ids[x] > 0
       [] e.op = "probe" -> \E j \in 1..Len(st.probes) : st.probes[j].id = e.row
       [] e.op \in {"undo", "reobs"} -> TRUE
       [] OTHER -> FALSE

State0(probes) == [ty |-> Types0, rows |-> <<>>, probes |-> probes]
Loaded(probes, init) == [ty |-> Types0, rows |-> AppendRows(<<>>, init, 1), probes |-> probes]

\* States(probes, init, edits)[1] = the empty table, [2] = after the initial load, [j + 2] = after edit j.
\* "undo" restores the state before the previous action (an undo of an undo is a redo).
RECURSIVE RunEdits(_, _, _)
RunEdits(ss, edits, j) ==
  IF j > Len(edits) THEN ss
  ELSE LET e == edits[j]
           nxt == IF e.op = "undo" THEN ss[Len(ss) - 1] ELSE ApplyEdit(ss[Len(ss)], e)
       IN RunEdits(Append(ss, nxt), edits, j + 1)
States(probes, init, edits) == RunEdits(<<State0(probes), Loaded(probes, init)>>, edits, 1)

\* the rows of a state with positions reduced to ranks (what the worker records)
Ranked(rows) ==
  [j \in 1..Len(rows) |->
     [rows[j] EXCEPT !.pos = 1 + Cardinality({x \in 1..Len(rows) : rows[x].pos < rows[j].pos})]]

\* row ids dropped by a ReplaceTableData among the first n edits
RECURSIVE DroppedFrom(_, _, _, _)
DroppedFrom(ss, edits, n, j) ==
  IF j > n THEN {}
  ELSE (IF edits[j].op = "repl" THEN IdSet(ss[j + 1].rows) \ IdSet(ss[j + 2].rows) ELSE {})
       \cup DroppedFrom(ss, edits, n, j + 1)
Dropped(ss, edits, n) == DroppedFrom(ss, edits, n, 1)

=============================================================================
