------------------------------ MODULE Trace_Rpc ------------------------------
(* Judges recorded cases of the REAL sandbox loop (harness/fn_rpc.py) against Rpc!CaseClauses.           *)
(* Case: [calls |-> <<[kind, reply, w0, w1, hasw, sync, ...]>>    one record per call on the real pipes  *)
(*        rts   |-> <<[enc, enc2, dumps, back, ...]>>             one record per encoded cell value      *)
(*        src, id, spec ... |-> not read here (origin and replayable input)]                             *)
(* The machine variables of Rpc.tla are not used by the judge and stay at their initial values.          *)
EXTENDS Rpc, TLC, Json, IOUtils
Cases == JsonDeserialize(IOEnv.TRACE_FILE)
N == Len(Cases)
VARIABLES i, bad
Judge(c) == IF KnownKinds(c) THEN CaseClauses(c) ELSE {"C24.undecidable"}
TInit == /\ i = 0 /\ bad = <<>> /\ (N > 0 \/ JsonSerialize(IOEnv.OUT_FILE, <<>>))
         /\ InitWith({<<>>})
TNext ==
  /\ i < N
  /\ i' = i + 1
  /\ bad' = LET j == Judge(Cases[i + 1])
            IN IF j = {} THEN bad ELSE Append(bad, [i |-> i + 1, c |-> j])
  /\ (i' < N \/ JsonSerialize(IOEnv.OUT_FILE, bad'))
  /\ UNCHANGED vars
View == i
=============================================================================
