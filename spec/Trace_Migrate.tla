---------------------------- MODULE Trace_Migrate ----------------------------
(* Judges recorded calls of the real migrations.create_migrations against Migrate!Verdict.          *)
(* TRACE_FILE: [curn, curv, cur, schemas, pool, cases : <<case>>]  (see Migrate.tla / harness/fn_migrate.py) *)
(* OUT_FILE:   <<[i |-> case index, c |-> failed clauses, d |-> tables / positions concerned]>>      *)
EXTENDS Migrate, Json, IOUtils
File == JsonDeserialize(IOEnv.TRACE_FILE)
Env == [curn |-> File.curn, curv |-> File.curv, cur |-> File.cur, schemas |-> File.schemas]
Pool == File.pool
\* a recorded case lists its actions as indices into the pool of distinct action records of the file
CaseAt(k) == LET c == File.cases[k] IN [c EXCEPT !.actions = [j \in 1..Len(c.actions) |-> Pool[c.actions[j]]]]
N == Len(File.cases)
VARIABLES i, bad
Init == i = 0 /\ bad = <<>> /\ (N > 0 \/ JsonSerialize(IOEnv.OUT_FILE, <<>>))
Next ==
  /\ i < N
  /\ i' = i + 1
  /\ bad' = LET j == Verdict(CaseAt(i + 1), Env)
            IN IF j.c = {} THEN bad ELSE Append(bad, [i |-> i + 1, c |-> j.c, d |-> j.d])
  /\ (i' < N \/ JsonSerialize(IOEnv.OUT_FILE, bad'))
Spec == Init /\ [][Next]_<<i, bad>>
View == i
=============================================================================
