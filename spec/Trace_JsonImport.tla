--------------------------- MODULE Trace_JsonImport ---------------------------
(* Judges recorded runs of the real imports.import_json.parse_file against JsonImport!Clauses.       *)
(* Case: [inp |-> [name, t, inc, exc]  the input as enumerated / generated,                          *)
(*        out |-> <<[name, cols |-> <<[id, ty |-> [k, t], v]>>]>>  the returned tables,              *)
(*        exc |-> exception class name or ""]                                                        *)
EXTENDS JsonImport, TLC, Json, IOUtils
Cases == JsonDeserialize(IOEnv.TRACE_FILE)
N == Len(Cases)
VARIABLES i, bad
Judge(c) ==
  IF c.exc # "" THEN {"C33.raised"}
  ELSE Clauses(c.inp, c.out)
Init == i = 0 /\ bad = <<>> /\ (N > 0 \/ JsonSerialize(IOEnv.OUT_FILE, <<>>))
Next ==
  /\ i < N
  /\ i' = i + 1
  /\ bad' = LET j == Judge(Cases[i + 1])
            IN IF j = {} THEN bad ELSE Append(bad, [i |-> i + 1, c |-> j])
  /\ (i' < N \/ JsonSerialize(IOEnv.OUT_FILE, bad'))
Spec == Init /\ [][Next]_<<i, bad>>
View == i
=============================================================================
