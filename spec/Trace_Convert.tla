----------------------------- MODULE Trace_Convert -----------------------------
(* Judges recorded pairs of calls of the real usertypes.<Type>.convert against Convert!Clauses.    *)
(* Case: [t |-> type, inp, out, out2 |-> value descriptors [k, x, sh, rl, el, tok],                *)
(*        same |-> out is inp, same2 |-> out2 is out, exc, exc2 |-> exception class name or "",    *)
(*        spec, src |-> not read here (the replayable value expression and its origin)]            *)
EXTENDS Convert, TLC, Json, IOUtils
Cases == JsonDeserialize(IOEnv.TRACE_FILE)
N == Len(Cases)
VARIABLES i, bad
Judge(c) == Clauses(c)
Init == i = 0 /\ bad = <<>> /\ (N > 0 \/ JsonSerialize(IOEnv.OUT_FILE, <<>>))
Next ==
  /\ i < N
  /\ i' = i + 1
  /\ bad' = LET j == Judge(Cases[i + 1])
            IN IF j = {} THEN bad ELSE Append(bad, [i |-> i + 1, c |-> j])
  /\ (i' < N \/ JsonSerialize(IOEnv.OUT_FILE, bad'))
Spec == Init /\ [][Next]_<<i, bad>>
View == i
=============================================================================
