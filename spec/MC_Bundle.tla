------------------------------ MODULE MC_Bundle ------------------------------
(* Bounded design model of bundle processing + export of (document, bundle) cases for the S->C binding. *)
EXTENDS Bundle, Json, IOUtils, SequencesExt, FiniteSetsExt

\* all documents with up-to-date formula cells
Docs == UpToDateDocs

\* The engine never rejects AddColumn for an existing id (it picks another id), so bundles that ask for
\* F while F exists have no counterpart in the binding: they are explored by TLC but not exported.
RECURSIVE NoBadAddF(_, _, _)
NoBadAddF(d, uas, i) ==
  IF i > Len(uas) THEN TRUE
  ELSE LET x == uas[i]
       IN IF IsNoop(d, x) THEN NoBadAddF(d, uas, i + 1)
          ELSE IF x.n = "addF" /\ d.hasF THEN FALSE
          ELSE IF x.n = "bad" \/ ~Applicable(d, x) THEN TRUE
          ELSE NoBadAddF(ApplyDA(d, x), uas, i + 1)

RowSeq == SetToSeq(Rows)
EncDoc(d) == [a |-> [i \in 1..Len(RowSeq) |-> d.a[RowSeq[i]]], hasF |-> d.hasF,
              f |-> [i \in 1..Len(RowSeq) |-> d.f[RowSeq[i]]]]

ASSUME "OUT_FILE" \in DOMAIN IOEnv =>
  JsonSerialize(IOEnv.OUT_FILE,
    [rows |-> RowSeq,
     cases |-> SetToSeq(UNION {{[d |-> EncDoc(d), uas |-> u] : u \in {b \in Bundles : NoBadAddF(d, b, 1)}}
                               : d \in Docs})])
=============================================================================
