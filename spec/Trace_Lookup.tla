----------------------------- MODULE Trace_Lookup -----------------------------
(* Judges recorded edit histories of the real engine (harness/fn_lookup.py) against Lookup!Clauses.  *)
(* TRACE_FILE: [obsets |-> <<observer lists>>, cases |-> << [inp, out, from, exc] >>]               *)
(*   inp = [ox, probes, init, edits, ...]   out[n + 1] = the observation after edit n (n = 0: after *)
(*   the initial load) = [ty, rows, probes, cells, errs, di, dn];  steps 1..from were judged with   *)
(*   the previous case (same input prefix, identical record) and are blank; di > 0: the same record *)
(*   (and observers) occurs at step dn of the earlier case di of this file.                         *)
(* Every step is judged against the table contents RECORDED at that step:                           *)
(*   C13.match / C13.order / C13.one / C13.raised  the relation of Lookup.tla, per observer x probe *)
(*   C13.premise      the recorded table, types or probes are not the state Lookup!States says the  *)
(*                    edits lead to (the engine was not where the design model was)                 *)
(*   C13.undecidable  the recorded values leave the modelled universe / the precondition            *)
(* Verdicts: << [i |-> case, c |-> {clauses}, d |-> {[n, j, p, c, t]}] >>  n = step (0 = load),    *)
(*   j = observer, p = probe index, c = clauses, t = diagnostic tags (see Lookup!DeadCols/FitsStale)*)
EXTENDS Lookup, TLC, Json, IOUtils
Data  == JsonDeserialize(IOEnv.TRACE_FILE)
Cases == Data.cases
N == Len(Cases)
VARIABLES i, bad

CellOf(ob, j, p) ==
  LET hit == {x \in 1..Len(ob.errs) : ob.errs[x].j = j /\ ob.errs[x].i = p}
  IN [e |-> IF hit = {} THEN "" ELSE ob.errs[CHOOSE x \in hit : TRUE].e, v |-> ob.cells[j][p]]

Tags(tab, obs, probe, cell, D) ==
  {"dead:" \o c : c \in DeadCols(tab, obs, probe, cell)} \cup
  (IF FitsStale(tab, obs, probe, cell, D) THEN {"stale"} ELSE {})

StepFails(c, obs, ss, n, seen) ==
  LET ob  == c.out[n + 1]
      st  == ss[n + 2]
      tab == [ty |-> ob.ty, rows |-> ob.rows]
      premise == ob.ty = st.ty /\ ob.rows = Ranked(st.rows) /\ ob.probes = st.probes
                 /\ Len(ob.cells) = Len(obs) /\ \A j \in 1..Len(obs) : Len(ob.cells[j]) = Len(ob.probes)
      D == Dropped(ss, c.inp.edits, n)
      \* an identical record (same observers, table, probes and cells) was judged at step dn of case di
      \* of this file and nothing failed there: the relation gives the same verdict
      known == ob.di > 0 /\ ~\E x \in 1..Len(seen) : seen[x].i = ob.di /\ \E r \in seen[x].d : r.n = ob.dn
  IN IF ~premise THEN {[n |-> n, j |-> 0, p |-> 0, c |-> {"C13.premise"}, t |-> {}]}
     ELSE IF known THEN {}
     ELSE {r \in {LET cell == CellOf(ob, j, p)
                      cl == Clauses(tab, obs[j], ob.probes[p], cell)
                  IN [n |-> n, j |-> j, p |-> p, c |-> cl,
                      t |-> IF cl = {} \/ cl = {"C13.undecidable"} THEN {}
                            ELSE Tags(tab, obs[j], ob.probes[p], cell, D)] :
                  j \in 1..Len(obs), p \in 1..Len(ob.probes)} : r.c # {}}

Judge(c, seen) ==
  IF c.exc # "" \/ Len(c.out) # Len(c.inp.edits) + 1
  THEN {[n |-> Len(c.out), j |-> 0, p |-> 0, c |-> {"C13.raised"}, t |-> {}]}
  ELSE LET obs == Data.obsets[c.inp.ox]
           ss  == States(c.inp.probes, c.inp.init, c.inp.edits)
       IN UNION {StepFails(c, obs, ss, n, seen) : n \in c.from..Len(c.inp.edits)}

Init == i = 0 /\ bad = <<>> /\ (N > 0 \/ JsonSerialize(IOEnv.OUT_FILE, <<>>))
Next ==
  /\ i < N
  /\ i' = i + 1
  /\ bad' = LET d == Judge(Cases[i + 1], bad)
            IN IF d = {} THEN bad
               ELSE Append(bad, [i |-> i + 1, c |-> UNION {r.c : r \in d}, d |-> d])
  /\ (i' < N \/ JsonSerialize(IOEnv.OUT_FILE, bad'))
Spec == Init /\ [][Next]_<<i, bad>>
View == i
=============================================================================
