INIT Init
NEXT Next
CONSTANTS MaxLen = 1
INVARIANT SpecSane
