-------------------------------- MODULE Core --------------------------------
(***************************************************************************)
(* The relational core of a Grist document in small scope: two tables      *)
(* linked by a reference, its two-way reverse column, a lookup-based       *)
(* formula, a reference-following formula and a summary table.             *)
(*                                                                         *)
(*   P(name | O, total)      O      = RefList:O, the reverse of O.who      *)
(*                           total  = SUM(r.amt for r in O.lookupRecords(who=$id)) *)
(*   O(who, kind, amt | wname)   who = Ref:P,  wname = $who.name           *)
(*   O_summary_kind(kind | group, count, amt, total)  total = SUM($group.amt) *)
(*                                                                         *)
(* A state is the DATA of the document, [p : PIds -> PRow, o : OIds -> ORow]; *)
(* everything else is a function of it (Derived).  Step(S, a) is the       *)
(* meaning of one user action: [ok, s] - the action is accepted and leaves *)
(* s, or it is rejected and must leave S (C04).  The properties are        *)
(* predicates over (data, derived) pairs, so that they can be evaluated    *)
(* both on the model's own states (MC_Core: Step preserves them) and on    *)
(* what the real engine reports after the same action (Trace_Core):        *)
(*   NoDangling      C10  no O.who names a missing P row                   *)
(*   Symmetric       C11  p.O lists o exactly when o.who = p               *)
(*   SummaryExact    C12  the summary table is the group-by of O           *)
(*   FormulasFresh   C05  wname / total are what the data implies          *)
(* and, over a step, C01 (undo gives back the state before, derived values *)
(* included) and C04 (a rejected action leaves everything as it was).      *)
(***************************************************************************)
EXTENDS Integers, Sequences, FiniteSets

CONSTANTS PIds,     \* row ids of P, e.g. 1..2
          OIds,     \* row ids of O, e.g. 1..3
          Names,    \* values of P.name
          Kinds,    \* values of O.kind
          Amts      \* values of O.amt

NoP == [ex |-> FALSE, name |-> ""]
NoO == [ex |-> FALSE, who |-> 0, kind |-> "", amt |-> 0]
PRows == {NoP} \cup [ex : {TRUE}, name : Names]
ORows == {NoO} \cup [ex : {TRUE}, who : {0} \cup PIds, kind : Kinds, amt : Amts]

PEx(S) == {r \in PIds : S.p[r].ex}
OEx(S) == {r \in OIds : S.o[r].ex}

\* the states of the model: no reference to a missing row
Valid(S) == \A r \in OEx(S) : S.o[r].who \in {0} \cup PEx(S)
States == {S \in [p : [PIds -> PRows], o : [OIds -> ORows]] : Valid(S)}

Max(A) == IF A = {} THEN 0 ELSE CHOOSE x \in A : \A y \in A : y <= x

RECURSIVE SumAmt(_, _)
SumAmt(S, rows) == IF rows = {} THEN 0
                   ELSE LET r == CHOOSE x \in rows : TRUE IN S.o[r].amt + SumAmt(S, rows \ {r})

(***************************************************************************)
(* Derived values                                                          *)
(***************************************************************************)
OrdersOf(S, p) == {r \in OEx(S) : S.o[r].who = p}
WName(S, r)    == IF S.o[r].who \in PEx(S) THEN S.p[S.o[r].who].name ELSE ""
Total(S, p)    == SumAmt(S, OrdersOf(S, p))
GroupOf(S, k)  == {r \in OEx(S) : S.o[r].kind = k}
KindsOf(S)     == {S.o[r].kind : r \in OEx(S)}
\* the summary table as a set of rows (which row id holds which group is not part of the meaning)
Summary(S) == {[kind |-> k, group |-> GroupOf(S, k), count |-> Cardinality(GroupOf(S, k)),
                amt |-> SumAmt(S, GroupOf(S, k))] : k \in KindsOf(S)}

(***************************************************************************)
(* User actions.  Uniform records [op, r, v, s, l]:                        *)
(*   AddO     v = who, s = kind, l = {amt}     (new row id = max + 1)      *)
(*   UpdWho   r, v      UpdKind r, s      UpdAmt r, v                      *)
(*   RemO     l = rows (one or two)                                        *)
(*   AddP     s = name  UpdName r, s     RemP r                            *)
(*   SetOrders r = P row, l = set of O rows   (writes the reverse column)  *)
(***************************************************************************)
Act(op, r, v, s, l) == [op |-> op, r |-> r, v |-> v, s |-> s, l |-> l]

Actions ==
  {Act("AddO", 0, w, k, {a}) : w \in {0} \cup PIds, k \in Kinds, a \in Amts}
  \cup {Act("UpdWho", r, w, "", {}) : r \in OIds, w \in {0} \cup PIds}
  \cup {Act("UpdKind", r, 0, k, {}) : r \in OIds, k \in Kinds}
  \cup {Act("UpdAmt", r, a, "", {}) : r \in OIds, a \in Amts}
  \cup {Act("RemO", 0, 0, "", l) : l \in {x \in SUBSET OIds : Cardinality(x) \in {1, 2}}}
  \cup {Act("AddP", 0, 0, n, {}) : n \in Names}
  \cup {Act("UpdName", r, 0, n, {}) : r \in PIds, n \in Names}
  \cup {Act("RemP", r, 0, "", {}) : r \in PIds}
  \cup {Act("SetOrders", r, 0, "", l) : r \in PIds, l \in SUBSET OIds}

\* the action stays inside the model (row ids within the bound, no reference to a missing row,
\* removals and reverse lists name existing rows only)
Applicable(S, a) ==
  CASE a.op = "AddO"      -> Max(OEx(S)) + 1 \in OIds /\ a.v \in {0} \cup PEx(S)
    [] a.op = "UpdWho"    -> a.v \in {0} \cup PEx(S)
    [] a.op = "RemO"      -> a.l \subseteq OEx(S)
    [] a.op = "AddP"      -> Max(PEx(S)) + 1 \in PIds
    [] a.op = "RemP"      -> a.r \in PEx(S)
    [] a.op = "SetOrders" -> a.l \subseteq OEx(S)
    [] OTHER              -> TRUE

\* accepted?  (an update of a missing record is refused; the reference side of a two-way pair is
\* single-valued: a record already owned by another row cannot be claimed through the list side)
Accepted(S, a) ==
  CASE a.op \in {"UpdWho", "UpdKind", "UpdAmt"} -> a.r \in OEx(S)
    [] a.op = "UpdName"   -> a.r \in PEx(S)
    [] a.op = "SetOrders" -> a.r \in PEx(S) /\ \A x \in a.l : S.o[x].who \in {0, a.r}
    [] OTHER              -> TRUE

Effect(S, a) ==
  CASE a.op = "AddO" ->
         [S EXCEPT !.o[Max(OEx(S)) + 1] =
            [ex |-> TRUE, who |-> a.v, kind |-> a.s, amt |-> CHOOSE x \in a.l : TRUE]]
    [] a.op = "UpdWho"  -> [S EXCEPT !.o[a.r].who = a.v]
    [] a.op = "UpdKind" -> [S EXCEPT !.o[a.r].kind = a.s]
    [] a.op = "UpdAmt"  -> [S EXCEPT !.o[a.r].amt = a.v]
    [] a.op = "RemO"    -> [S EXCEPT !.o = [r \in OIds |-> IF r \in a.l THEN NoO ELSE S.o[r]]]
    [] a.op = "AddP"    -> [S EXCEPT !.p[Max(PEx(S)) + 1] = [ex |-> TRUE, name |-> a.s]]
    [] a.op = "UpdName" -> [S EXCEPT !.p[a.r].name = a.s]
    [] a.op = "RemP" ->
         \* C10: the references to the removed row go with it
         [p |-> [S.p EXCEPT ![a.r] = NoP],
          o |-> [r \in OIds |-> IF S.o[r].ex /\ S.o[r].who = a.r THEN [S.o[r] EXCEPT !.who = 0] ELSE S.o[r]]]
    [] a.op = "SetOrders" ->
         \* C11: writing the list side rewrites the reference side
         [S EXCEPT !.o = [r \in OIds |->
            IF ~S.o[r].ex THEN S.o[r]
            ELSE IF r \in a.l THEN [S.o[r] EXCEPT !.who = a.r]
            ELSE IF S.o[r].who = a.r THEN [S.o[r] EXCEPT !.who = 0]
            ELSE S.o[r]]]
    [] OTHER -> S

Step(S, a) == IF Accepted(S, a) THEN [ok |-> TRUE, s |-> Effect(S, a)] ELSE [ok |-> FALSE, s |-> S]

(***************************************************************************)
(* The properties as predicates over a data state and reported derived     *)
(* values D = [orders : [PEx -> set], total : [PEx -> Int],                *)
(*             wname : [OEx -> STRING], summary : set of summary rows]     *)
(***************************************************************************)
DerivedOf(S) == [orders  |-> [p \in PEx(S) |-> OrdersOf(S, p)],
                 total   |-> [p \in PEx(S) |-> Total(S, p)],
                 wname   |-> [r \in OEx(S) |-> WName(S, r)],
                 summary |-> Summary(S)]

NoDangling(S)       == Valid(S)
Symmetric(S, D)     == \A p \in PEx(S) : D.orders[p] = OrdersOf(S, p)
SummaryExact(S, D)  == D.summary = Summary(S)
FormulasFresh(S, D) == /\ \A p \in PEx(S) : D.total[p] = Total(S, p)
                       /\ \A r \in OEx(S) : D.wname[r] = WName(S, r)

=============================================================================
