----------------------------- MODULE Trace_Rename -----------------------------
(* Judges recorded rename steps of the real engine (harness/fn_rename.py) against Rename!Clauses.    *)
(* A case:                                                                                          *)
(*   inp = [doc, target, path, req]   (doc = index of the document, see Rename.tla for documents)   *)
(*   out = [fail   : "" or why the document could not be built / read (class of the exception),      *)
(*          exc    : "" or the class of the exception the rename step raised,                        *)
(*          names0/1/2 : identity -> current name  (0 before the step, 1 after it, 2 after its undo; *)
(*                       identities are bound to metadata row ids when the document is built),       *)
(*          texts0/1/2 : column identity -> formula text in _grist_Tables_column,                    *)
(*          vals0/1/2  : column identity -> the cells of the column as ASCII tokens,                 *)
(*          vals1r     : the same after a from-scratch recalculation of the document after the step, *)
(*          dig0, dig1 : digests of the whole document, cons1 : engine schema = metadata,            *)
(*          undo_exc   : "" or the class of the exception ApplyUndoActions raised]                   *)
(* Verdict per failing case: [i, c = failed clauses, ft = formula columns whose text is not the      *)
(* rendering of their tree under names1, fv = columns whose cells changed, fr = columns whose cells  *)
(* differ after the from-scratch recalculation].                                                    *)
(* "SPEC.*" clauses are about the machinery itself: the input is outside the family (SPEC.wf), the   *)
(* document was not built as the input says (SPEC.setup), the worker's renderer disagrees with       *)
(* Rename!Toks or the engine did not store the text (SPEC.render), a formula of the family does not  *)
(* evaluate before the rename (SPEC.error0: "unchanged" would be vacuous).                           *)
EXTENDS Rename, Json, IOUtils
\* the file: [docs |-> <<sch, ...>>, cases |-> <<[inp |-> [doc |-> index into docs, target, path, req], out]>>]
Data == JsonDeserialize(IOEnv.TRACE_FILE)
NCases == Len(Data.cases)
\* dc = what is judged once per document: it is in the family; its formula texts under its own names
VARIABLES i, bad, dc

DocFacts(S) ==
  LET ok == SchOk(S)
      n0 == Names0(S) IN
  [ok |-> ok, n0 |-> n0, texts0 |-> IF ok THEN [id \in ColIds(S) |-> FormulaText(n0, S.cols[id])] ELSE <<>>]

Judge(c) ==
  LET S  == Data.docs[c.inp.doc]
      in == [sch |-> S, target |-> c.inp.target, path |-> c.inp.path, req |-> c.inp.req]
      o  == c.out
      fcols == {id \in ColIds(S) : IsFormula(S.cols[id])}
      facts == dc[c.inp.doc]
      d0 == DOMAIN o.names0
      dt == DOMAIN o.texts0
      dv == DOMAIN o.vals0
      setupOk  == \A e \in DOMAIN facts.n0 : e \in d0 /\ o.names0[e] = facts.n0[e]
      renderOk == \A id \in ColIds(S) : id \in dt /\ o.texts0[id] = facts.texts0[id]
      isErr(tok) == Len(tok) > 0 /\ Char(tok, 1) = "E"
      noErr == \A id \in fcols : id \in dv /\ \A r \in 1..Len(o.vals0[id]) : ~isErr(o.vals0[id][r])
      spec == IF ~setupOk THEN {"SPEC.setup"}
              ELSE IF ~renderOk THEN {"SPEC.render"}
              ELSE IF ~noErr THEN {"SPEC.error0"} ELSE {}
      judged == o.fail = "" /\ o.exc = ""
      ft == IF judged THEN BadTexts(in, o.texts1, o.names1, o.texts0) ELSE {}
      fv == IF judged THEN BadVals(o.vals0, o.vals1) ELSE {}
      fr == IF judged THEN BadVals(o.vals0, o.vals1r) ELSE {}
  IN IF ~(dc[c.inp.doc].ok /\ StepOk(in)) THEN [c |-> {"SPEC.wf"}, ft |-> {}, fv |-> {}, fr |-> {}]
     ELSE IF o.fail # ""
     THEN [c |-> IF Len(o.fail) >= 5 /\ SubSeq(o.fail, 1, 5) = "setup" THEN {"SPEC.setup"}
                 ELSE ClausesFrom(in, o, {}, {}), ft |-> {}, fv |-> {}, fr |-> {}]
     ELSE [c |-> spec \cup ClausesFrom(in, o, ft, fv \cup fr), ft |-> ft, fv |-> fv, fr |-> fr]

Init == /\ i = 0 /\ bad = <<>>
        /\ dc = [k \in 1..Len(Data.docs) |-> DocFacts(Data.docs[k])]
        /\ (NCases > 0 \/ JsonSerialize(IOEnv.OUT_FILE, <<>>))
Next ==
  /\ i < NCases
  /\ i' = i + 1
  /\ bad' = LET j == Judge(Data.cases[i + 1])
            IN IF j.c = {} THEN bad ELSE Append(bad, [i |-> i + 1, c |-> j.c, ft |-> j.ft, fv |-> j.fv, fr |-> j.fr])
  /\ (i' < NCases \/ JsonSerialize(IOEnv.OUT_FILE, bad'))
  /\ UNCHANGED dc
Spec == Init /\ [][Next]_<<i, bad, dc>>
View == i
=============================================================================
