--------------------------- MODULE Trace_FetchQuery ---------------------------
(* Judges recorded calls of the real Engine.fetch_table against FetchQuery!Clauses.                *)
(* Case: [inp |-> the design input (not read here except f, p, q),                                 *)
(*        st  |-> the stored table as read from the engine's column objects after building it,     *)
(*        dk  |-> the columns the worker created itself and whether it created them as formulas,   *)
(*        out |-> [rows, cols] as returned by fetch_table, exc |-> exception class name or ""]     *)
EXTENDS FetchQuery, TLC, Json, IOUtils
Cases == JsonDeserialize(IOEnv.TRACE_FILE)
N == Len(Cases)
VARIABLES i, bad
Judge(c) ==
  IF c.exc # "" THEN {"C41.raised"}
  ELSE Clauses(c.st, c.inp.q, c.inp.f, c.inp.p, c.dk, c.out)
Init == i = 0 /\ bad = <<>> /\ (N > 0 \/ JsonSerialize(IOEnv.OUT_FILE, <<>>))
Next ==
  /\ i < N
  /\ i' = i + 1
  /\ bad' = LET j == Judge(Cases[i + 1])
            IN IF j = {} THEN bad ELSE Append(bad, [i |-> i + 1, c |-> j])
  /\ (i' < N \/ JsonSerialize(IOEnv.OUT_FILE, bad'))
Spec == Init /\ [][Next]_<<i, bad>>
View == i
=============================================================================
