---------------------------- MODULE RenameChoices ----------------------------
(***************************************************************************)
(* C39 - UserActions.RenameChoices(table_id, col_id, renames)              *)
(* (sandbox/grist/useractions.py; column.py ChoiceColumn /                 *)
(* ChoiceListColumn.rename_choices).                                       *)
(*                                                                         *)
(* Rename(cells, filters, map): the SIMULTANEOUS substitution  old |-> new *)
(* of the map (every value is looked up once, in the ORIGINAL names: a     *)
(* swap a<->b exchanges the two, a chain a->b, b->c does not cascade) on   *)
(*   - every Choice cell of the column that is a text,                     *)
(*   - every element of every ChoiceList cell of the column,               *)
(*   - every value of every list (`included` / `excluded`) of every saved  *)
(*     filter (_grist_Filters record) of THAT column, in every section;    *)
(* nothing else changes: other columns, other tables, filters of other     *)
(* columns, the other fields of the column's filter records, values of the *)
(* column that are not choices (None, a number, a list in a Choice column, *)
(* a text in a ChoiceList column) and non-list parts of a filter.          *)
(*                                                                         *)
(* Data model (what the worker transcribes, judgement-free):               *)
(*   atom   [k, s]     k = "s" text (s = the text), "n" number (s = its    *)
(*                     repr), "z" None/null, "b" bool, "x" anything else   *)
(*   cell   [k, s, l]  k as above or "l" list (l = its atoms)              *)
(*   map    <<[o |-> old name, n |-> new name], ...>>   distinct o         *)
(*   filter [id, col, sec, pin, raw, d, ents]                              *)
(*            col/sec  colRef / viewSectionRef,   pin  digest of the other *)
(*            fields,  raw  "empty" (filter text is '') | "json" (a JSON   *)
(*            object) | "other",  d  digest of the filter text,            *)
(*            ents <<[key, isl, vals]>> the members of the JSON object:    *)
(*            isl = the member is a list, vals = its atoms (the scalar     *)
(*            itself as one atom if it is not a list)                      *)
(*   state  [rows, c, o, filters, tabs]  row ids, cells of the column, of  *)
(*            the sibling column, all filter records (by id), and digests  *)
(*            <<[t, d]>> of everything else in the document                *)
(***************************************************************************)
EXTENDS Naturals, Sequences, FiniteSets

Atom(k, s) == [k |-> k, s |-> s]
Cell(k, s, l) == [k |-> k, s |-> s, l |-> l]

Keys(m) == {m[i].o : i \in 1..Len(m)}
WellFormedMap(m) == Cardinality(Keys(m)) = Len(m)

\* the simultaneous substitution on one name
Sub(m, s) == IF s \in Keys(m) THEN m[CHOOSE i \in 1..Len(m) : m[i].o = s].n ELSE s
SubAtom(m, a) == IF a.k = "s" THEN Atom("s", Sub(m, a.s)) ELSE a
SubList(m, l) == [j \in 1..Len(l) |-> SubAtom(m, l[j])]

AllText(l) == \A j \in 1..Len(l) : l[j].k = "s"

RECURSIVE PickFrom(_, _, _)
PickFrom(s, K, j) ==
  IF j > Len(s) THEN <<>>
  ELSE (IF j \in K THEN <<s[j]>> ELSE <<>>) \o PickFrom(s, K, j + 1)

\* The property asks that every matching element be renamed; it does not say what happens when the
\* renaming makes two formerly DIFFERENT elements of one list equal (a->c, b->c on [a, b]).  The
\* renamed list [c, c] is admissible, and so is one in which such a newly created duplicate was
\* dropped: position j may be missing only if a kept position i holds the same new value and held a
\* different old value.  Duplicates that were there before must stay.
ListAdm(m, l, d) ==
  LET s == SubList(m, l)
  IN \/ d = s
     \/ /\ Len(d) < Len(l)
        /\ \E K \in SUBSET (1..Len(l)) :
             /\ \A j \in (1..Len(l)) \ K : \E i \in K : s[i] = s[j] /\ l[i] # l[j]
             /\ d = PickFrom(s, K, 1)

\* admissible new value d of a cell c of the column
CellOk(typ, m, c, d) ==
  CASE typ = "Choice" /\ c.k = "s"  -> d = Cell("s", Sub(m, c.s), <<>>)
    [] typ = "ChoiceList" /\ c.k = "l" /\ AllText(c.l)
                                    -> d.k = "l" /\ d.s = "" /\ ListAdm(m, c.l, d.l)
    \* a list with a non-text element is not a choice list (alt data): the property is silent on
    \* whether its text elements are renamed
    [] typ = "ChoiceList" /\ c.k = "l" /\ ~AllText(c.l)
                                    -> d = c \/ d = Cell("l", "", SubList(m, c.l))
    [] OTHER                        -> d = c

CellsOk(typ, m, b, a) ==
  /\ a.rows = b.rows
  /\ Len(a.c) = Len(b.c)
  /\ \A j \in 1..Len(b.c) : CellOk(typ, m, b.c[j], a.c[j])

\* the members of the filter object, as a mapping key -> member (JSON member order is immaterial)
EntsOk(m, fe, ge) ==
  /\ Len(ge) = Len(fe)
  /\ \A i \in 1..Len(fe) :
       \E j \in 1..Len(ge) :
         /\ ge[j].key = fe[i].key
         /\ ge[j].isl = fe[i].isl
         /\ IF fe[i].isl THEN ListAdm(m, fe[i].vals, ge[j].vals) ELSE ge[j].vals = fe[i].vals
  /\ \A i, j \in 1..Len(ge) : ge[i].key = ge[j].key => i = j

FilterOk(m, f, g) ==
  /\ g.raw = f.raw
  /\ f.raw = "json" => EntsOk(m, f.ents, g.ents)
  /\ f.raw = "other" => g.d = f.d

SameFilters(b, a) ==
  /\ Len(a.filters) = Len(b.filters)
  /\ \A i \in 1..Len(b.filters) : a.filters[i].id = b.filters[i].id

FiltersOk(m, cref, b, a) ==
  /\ SameFilters(b, a)
  /\ \A i \in 1..Len(b.filters) :
       b.filters[i].col = cref => FilterOk(m, b.filters[i], a.filters[i])

FrameOk(cref, b, a) ==
  /\ a.o = b.o
  /\ a.tabs = b.tabs
  /\ SameFilters(b, a)
  /\ \A i \in 1..Len(b.filters) :
       LET f == b.filters[i]
           g == a.filters[i]
       IN IF f.col = cref THEN g.col = f.col /\ g.sec = f.sec /\ g.pin = f.pin
          ELSE g = f

Clauses(typ, m, cref, b, a) ==
  (IF CellsOk(typ, m, b, a) THEN {} ELSE {"C39.cells"}) \cup
  (IF FiltersOk(m, cref, b, a) THEN {} ELSE {"C39.filters"}) \cup
  (IF FrameOk(cref, b, a) THEN {} ELSE {"C39.frame"})

Ok(typ, m, cref, b, a) == Clauses(typ, m, cref, b, a) = {}

\* ---------------------------------------------------------------------------------------------
\* Reference solution in a different formulation (used by the design model only): the entries of
\* the map are applied ONE AFTER THE OTHER to a list of marked names; a name that has been renamed
\* is marked and never renamed again.
Mark(l) == [j \in 1..Len(l) |-> [done |-> l[j].k # "s", a |-> l[j]]]
Step(e, ml) == [j \in 1..Len(ml) |->
                  IF ~ml[j].done /\ ml[j].a.s = e.o THEN [done |-> TRUE, a |-> Atom("s", e.n)] ELSE ml[j]]
RECURSIVE Fold(_, _, _)
Fold(m, i, ml) == IF i > Len(m) THEN ml ELSE Fold(m, i + 1, Step(m[i], ml))
RefList(m, l) == LET r == Fold(m, 1, Mark(l)) IN [j \in 1..Len(l) |-> r[j].a]

\* the same WITHOUT the marks: what a sequential (cascading) renaming would produce
StepC(e, l) == [j \in 1..Len(l) |-> IF l[j].k = "s" /\ l[j].s = e.o THEN Atom("s", e.n) ELSE l[j]]
RECURSIVE FoldC(_, _, _)
FoldC(m, i, l) == IF i > Len(m) THEN l ELSE FoldC(m, i + 1, StepC(m[i], l))
CascadeList(m, l) == FoldC(m, 1, l)

RenCell(R(_, _), typ, m, c) ==
  IF typ = "Choice" /\ c.k = "s" THEN Cell("s", R(m, <<Atom("s", c.s)>>)[1].s, <<>>)
  ELSE IF typ = "ChoiceList" /\ c.k = "l" /\ AllText(c.l) THEN Cell("l", "", R(m, c.l))
  ELSE c

RenFilter(R(_, _), m, f) ==
  [f EXCEPT !.ents = [i \in 1..Len(f.ents) |->
                        IF f.ents[i].isl THEN [f.ents[i] EXCEPT !.vals = R(m, f.ents[i].vals)]
                        ELSE f.ents[i]]]

Rename(R(_, _), typ, m, cref, b) ==
  [b EXCEPT !.c = [j \in 1..Len(b.c) |-> RenCell(R, typ, m, b.c[j])],
            !.filters = [i \in 1..Len(b.filters) |->
                           IF b.filters[i].col = cref THEN RenFilter(R, m, b.filters[i])
                           ELSE b.filters[i]]]

Ref(typ, m, cref, b) == Rename(RefList, typ, m, cref, b)
Cascade(typ, m, cref, b) == Rename(CascadeList, typ, m, cref, b)
=============================================================================
