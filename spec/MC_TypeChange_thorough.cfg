INIT Init
NEXT Next
CONSTANTS Fams <- ThoroughFams
INVARIANT SpecSane
INVARIANT SpecSharp
