INIT Init
NEXT Next
CONSTANTS MaxN = 2
          MaxSlots = 2
          Counts = {0, 3}
          NAnchors = 1
          Depth = 1
INVARIANT SpecSane
